// C11 — stream.Batch / BatchFunc partition their source under every timing; Close always returns.
//
// Oracle: offline history checker. The instrumented source stamps each item just BEFORE handing it
// over, the consumer stamps AFTER Next returns, so (receipt - arrival of the oldest item) bounds
// the batch's true age at flush time from above; "age >= maxWait" is therefore judged soundly under
// any machine load. Everything about blocking is decided by the goroutine-dump quiescence verdict.
// Built with -race.
package main

import (
	"context"
	"errors"
	"fmt"
	"math"
	"runtime"
	"strings"
	"sync"
	"sync/atomic"
	"time"

	"github.com/bradenaw/juniper/stream"

	"verif/vkit"
)

var errSource = errors.New("verif: source error")

const consumerMark = -777

func main() {
	vkit.Main("C11", "exploration", func(r *vkit.Report) {
		r.SetRule("case = one run of Batch or BatchFunc over an instrumented source with a pre-drawn arrival pattern (immediate, bursts, stalls longer than maxWait, " +
			"never-ending, End, error at p), a pre-drawn consumer script (Next calls with live / expiring / expired contexts and pauses, several successive waiters) and a Close moment. " +
			"Evaluation = one run checked (conservation, non-empty, size bound / full() prefix rule, age >= maxWait for under-filled batches received before the source reported its end, " +
			"error after preceding items, Close returns, goroutines gone, source closed once). non-trivial = the run delivered >= 1 under-filled batch before the end of the source, " +
			"or had a waiter give up before a batch was delivered, or closed while the producer was ahead; distinct = by (parameters, schedule signature).")
		r.Assume("age of a batch is measured from a stamp taken before the source hands the oldest item over to a stamp taken after the consumer received the batch (an upper bound of the true age); only 'measured age >= maxWait' is judged")
		r.Assume("'handed to a waiting consumer rather than held back' is decided as: with maxWait <= 5 ms and a source that stalls forever, a consumer with a live context must receive the pending items; a consumer parked forever is a STUCK verdict from the goroutine dump (two dumps 300 ms apart), never a timeout")
		if r.VariantHas("aim") {
			r.Cases("aim", 32, 32, func(c *vkit.Case) { aim(c) })
			r.Floor("aim cycles", r.Table("aim", "cycles (fill aimed at timer expiry, then under-filled victim batch judged)"), 300000)
			return
		}
		n := r.Scale(1400, 30000)
		r.Cases("run", n, 1, func(c *vkit.Case) { runCase(c, false) })
		r.Cases("regress", r.Scale(60, 600), 1, func(c *vkit.Case) { runCase(c, true) })
		r.Cases("timer-edge", r.Scale(240, 4000), 1, func(c *vkit.Case) { timerEdge(c) })
		aimWorkers := 32
		r.Cases("aim", aimWorkers, aimWorkers, func(c *vkit.Case) { aim(c) })
		r.Cases("poison", r.Scale(40, 600), 1, func(c *vkit.Case) { poison(c) })
		r.Floor("aim cycles", r.Table("aim", "cycles (fill aimed at timer expiry, then under-filled victim batch judged)"), 10000)
		r.Cases("overdue-cancel", r.Scale(400, 6000), 1, func(c *vkit.Case) { overdueCancel(c) })
		r.Cases("held-back", r.Scale(12, 60), 12, func(c *vkit.Case) { heldBack(c) })
		r.Floor("overdue batches visited by impatient consumers", r.Table("overdue-cancel", "rounds"), 300)
		r.Floor("streams judged for late hand-over of later batches", r.Table("held-back", "streams"), 10)
		r.Cases("deaf-close", r.Scale(60, 600), 4, func(c *vkit.Case) { deafClose(c) })
		r.Floor("Close with an endless deaf source", r.Table("deaf-close", "rounds"), 50)
		r.Floor("poison rounds", r.Table("poison", "rounds"), 30)
		// (how many waiters arrived while full() was running depends on machine load: recorded, not a floor)
		r.Floor("timer-edge trials", r.Table("timer-edge", "trials"), 100)
		r.Floor("under-filled batches delivered before the source ended (age judged)", r.Table("batches", "under-filled before end (age judged)"), 100)
		r.Floor("waiters that gave up before a batch was ready", r.Table("consumer", "Next gave up (ctx)"), 100)
		r.Floor("Close while the producer was ahead of an absent consumer", r.Table("close", "producer ahead, consumer absent"), 20)
		r.Floor("runs read to the end", r.Table("runs", "read to End"), 100)
		r.Floor("runs ending with the source error", r.Table("runs", "read to error"), 50)
	})
}

type batchRec struct {
	Items []int  `json:"items"`
	Recv  int64  `json:"recv_ns"` // ns since scenario start, taken after Next returned
	Note  string `json:"note,omitempty"`
}

type nextPlan struct {
	ctxKind int // 0 live, 1 deadline, 2 already cancelled
	d       time.Duration
	pause   time.Duration // before the call
}

func runCase(c *vkit.Case, regress bool) {
	r := c.R
	rnd := c.Rand
	// ---- parameters ----
	// The last three never elapse within a run: 1 h, and the extremes of the type (a duration
	// computation that overflows would make them "elapse" at once).
	maxWaits := []time.Duration{time.Millisecond, 2 * time.Millisecond, 5 * time.Millisecond, time.Hour, time.Duration(math.MaxInt64), time.Duration(math.MaxInt64) - 300*time.Microsecond}
	maxWait := maxWaits[rnd.Weighted([]int{10, 6, 2, 2, 1, 1})]
	batchSize := []int{1, 2, 3, 5}[rnd.Intn(4)]
	useFunc := rnd.Bool(0.4)
	nItems := rnd.Range(0, 14)
	endKind := rnd.Weighted([]int{5, 3, 2}) // 0 End, 1 error at p, 2 never ends (blocks)
	errAt := -1
	if endKind == 1 {
		errAt = rnd.Intn(nItems + 1)
	}
	unit := maxWait
	forever := maxWait >= time.Hour
	if forever {
		unit = time.Millisecond
	}
	// arrival delays
	pattern := rnd.Intn(5)
	delays := make([]time.Duration, nItems+1)
	for i := range delays {
		switch pattern {
		case 0: // immediate
		case 1: // bursts
			if rnd.Bool(0.25) {
				delays[i] = unit * time.Duration(rnd.Range(1, 3))
			}
		case 2: // slow trickle (shorter than maxWait)
			delays[i] = unit / time.Duration(rnd.Range(2, 5))
		case 3: // stalls longer than maxWait now and then
			if rnd.Bool(0.35) {
				delays[i] = unit*2 + unit/time.Duration(rnd.Range(1, 4))
			}
		default:
			delays[i] = time.Duration(rnd.Intn(int(unit) * 2))
		}
	}
	// consumer script
	mode := rnd.Weighted([]int{6, 2, 2}) // 0 reads until end/err (or until a budget for never-ending sources), 1 closes after k batches, 2 absent then closes
	if endKind == 2 && mode == 0 {
		mode = 1
	}
	closeAfter := rnd.Intn(4)
	var plans []nextPlan
	giveUpBias := []float64{0, 0.3, 0.6}[rnd.Intn(3)]
	for i := 0; i < 200; i++ {
		p := nextPlan{}
		if rnd.Bool(giveUpBias) {
			if rnd.Bool(0.2) {
				p.ctxKind = 2
			} else {
				p.ctxKind = 1
				p.d = unit / 4 * time.Duration(rnd.Range(1, 10))
			}
		}
		switch rnd.Intn(6) {
		case 0:
			p.pause = unit / 2
		case 1:
			p.pause = unit + unit/4
		case 2:
			p.pause = 2 * unit
		}
		plans = append(plans, p)
	}
	absentFor := unit * time.Duration(rnd.Range(0, 4))
	fullLatency := vkit.NewPerturber(rnd.Split(), 31, []float64{0, 0.3}[rnd.Intn(2)])

	if regress {
		// Named regression scenarios for the two repaired defects.
		switch c.Index % 2 {
		case 0: // D6: source faster than an absent consumer, then Close
			maxWait, batchSize, useFunc, nItems, endKind, errAt, mode = time.Hour, 1+c.Index%3, c.Index%4 == 0, 6+c.Index%5, 0, -1, 2
			delays = make([]time.Duration, nItems+1)
			unit = time.Millisecond
			absentFor = 2 * time.Millisecond
		case 1: // D18: a waiter gives up, a later waiter arrives after the batch has aged
			maxWait, unit = 2*time.Millisecond, 2*time.Millisecond
			batchSize, useFunc, nItems, endKind, errAt, mode = 4, c.Index%4 == 1, 9, 2, -1, 0
			mode = 1
			closeAfter = 3
			delays = make([]time.Duration, nItems+1)
			for i := range delays {
				if i%2 == 1 {
					delays[i] = unit*2 + unit/2
				}
			}
			for i := range plans {
				plans[i] = nextPlan{}
				if i%2 == 0 {
					plans[i] = nextPlan{ctxKind: 1, d: unit / 2, pause: 0}
				} else {
					plans[i].pause = unit + unit/2
				}
			}
		}
	}

	params := map[string]any{
		"maxWait": maxWait.String(), "batchSize": batchSize, "batchFunc": useFunc, "items": nItems,
		"end": [...]string{"End", "error", "never"}[endKind], "errAt": errAt, "arrival": pattern,
		"consumer": [...]string{"reads to the end", "closes after k batches", "absent, then closes"}[mode], "closeAfter": closeAfter,
	}

	// ---- source ----
	start := time.Now()
	items := make([]int, nItems)
	for i := range items {
		items[i] = i + 1
	}
	arrive := make([]atomic.Int64, nItems+1)
	var endStamp atomic.Int64 // set before the source reports End / the error
	src := vkit.NewProbeStream("source", items)
	src.HonourCtx = true
	src.BlockAtEnd = endKind == 2
	// The source's own error: a sentinel, or values that are easily mistaken for the library's own
	// shutdown (the source fails by itself with context.Canceled / DeadlineExceeded, bare or wrapped).
	srcErr := errSource
	srcErrName := "sentinel"
	if endKind == 1 {
		switch rnd.Intn(6) {
		case 0:
			srcErr, srcErrName = context.Canceled, "context.Canceled"
		case 1:
			srcErr, srcErrName = fmt.Errorf("upstream gave up: %w", context.Canceled), "wraps context.Canceled"
		case 2:
			srcErr, srcErrName = context.DeadlineExceeded, "context.DeadlineExceeded"
		}
		src.FatalAt = errAt
		src.Fatal = srcErr
		params["source_error"] = srcErrName
	}
	src.Delay = func(i int) time.Duration {
		d := delays[i]
		if d == 0 {
			return -1
		}
		return d
	}
	src.OnDeliver = func(i int) { arrive[i].Store(int64(time.Since(start)) + 1) }
	endAt := nItems
	if endKind == 1 {
		endAt = errAt
	}
	srcW := &endStamper{inner: src, endAt: endAt, blocks: endKind == 2, stamp: &endStamp, start: start}

	// full(): deterministic in the batch; weight-based for BatchFunc
	weightLimit := batchSize * 3
	fullFn := func(b []int) bool {
		fullLatency.Do()
		w := 0
		for _, x := range b {
			w += 1 + x%3
		}
		return w >= weightLimit
	}
	var s stream.Stream[[]int]
	if useFunc {
		s = stream.BatchFunc[int](srcW, maxWait, fullFn)
	} else {
		s = stream.Batch[int](srcW, maxWait, batchSize)
	}

	// ---- consumer ----
	var batches []batchRec
	var kept [][]int // batches the consumer appended one marker to, in place
	appendingConsumer := rnd.Bool(0.5)
	var gaveUp, nexts int
	var finalErr error
	finished := "" // End | error | closed
	closeReturned := false
	var closesAtReturn atomic.Int64 // 0 = Close has not returned; else 1 + number of source Closes completed at that moment
	var sig strings.Builder
	done := make(chan struct{})
	var mu sync.Mutex
	go func() {
		defer close(done)
		if mode == 2 {
			time.Sleep(absentFor)
		} else {
			received := 0
		loop:
			for i := 0; ; i++ {
				p := nextPlan{}
				if i < len(plans) {
					p = plans[i]
				}
				if p.pause > 0 {
					time.Sleep(p.pause)
				}
				// A live context is only used while the harness knows that the wait must end by
				// itself: items are still to come, and either the source will end or maxWait is
				// short. Otherwise (never-ending source with nothing pending, or maxWait = 1h with a
				// never-ending source) the wait could legitimately last forever.
				canWaitLive := endKind != 2 || (received < nItems && !forever)
				if p.ctxKind == 0 && !canWaitLive {
					p.ctxKind, p.d = 1, 3*unit
				}
				if endKind == 2 && (received >= nItems || i >= 60) {
					break loop
				}
				var ctx context.Context
				var cancel context.CancelFunc
				switch p.ctxKind {
				case 1:
					ctx, cancel = context.WithTimeout(context.Background(), p.d)
				case 2:
					ctx, cancel = context.WithCancel(context.Background())
					cancel()
				default:
					ctx, cancel = context.WithCancel(context.Background())
				}
				b, err := s.Next(ctx)
				at := int64(time.Since(start))
				ctxErr := ctx.Err() // read before cancel(): non-nil only if this call's context really ended
				cancel()
				mu.Lock()
				nexts++
				switch {
				case err == nil:
					batches = append(batches, batchRec{Items: append([]int(nil), b...), Recv: at})
					received += len(b)
					if appendingConsumer && cap(b) > len(b) {
						// A consumer may use the spare capacity of a batch it was given: the library
						// must not keep using that memory for later batches.
						ext := append(b, consumerMark)
						kept = append(kept, ext)
					}
					fmt.Fprintf(&sig, "B%d;", len(b))
				case err == stream.End:
					finished = "End"
					sig.WriteString("End;")
				case ctxErr != nil && err == ctxErr:
					// the consumer's own per-call context ended
					gaveUp++
					sig.WriteString("x;")
				default:
					finished = "error"
					finalErr = err
					sig.WriteString("Err;")
				}
				nb := len(batches)
				mu.Unlock()
				if finished != "" {
					// the end sticks (no further items may appear)
					for k := 0; k < 2; k++ {
						b2, err2 := s.Next(context.Background())
						if err2 == nil {
							mu.Lock()
							batches = append(batches, batchRec{Items: append([]int(nil), b2...), Recv: int64(time.Since(start)), Note: "after " + finished})
							mu.Unlock()
						}
					}
					break loop
				}
				if mode == 1 && nb >= closeAfter {
					break loop
				}
			}
		}
		s.Close()
		closesAtReturn.Store(src.Closes.Load() + 1) // sampled at the very return of Close ("having ... closed the source")
		mu.Lock()
		closeReturned = true
		if finished == "" {
			finished = "closed"
		}
		mu.Unlock()
	}()

	verdict, dump := vkit.Await(done, vkit.AwaitOpts{Soft: 4 * time.Second, Gap: 300 * time.Millisecond, Hard: 120 * time.Second})
	mu.Lock()
	defer mu.Unlock()
	witness := map[string]any{"params": params, "batches": batches, "gave_up": gaveUp, "finished": finished}
	switch verdict {
	case vkit.AwaitStuck:
		what := "the consumer's Next never returned although a non-empty batch had aged (or the stream had ended)"
		sigv := "next-stuck"
		if strings.Contains(dump, "batchStream[") && strings.Contains(dump, ").Close") {
			what = "Close() never returned"
			sigv = "close-stuck"
		}
		witness["goroutines"] = dump
		c.Violation(sigv, fmt.Sprintf("%s (maxWait=%s batchSize=%d func=%v items=%d end=%v consumer=%v)", what, maxWait, batchSize, useFunc, nItems, params["end"], params["consumer"]), witness)
		return
	case vkit.AwaitInconclusive:
		r.Inconclusive(fmt.Sprintf("case %s did not finish but goroutines were still runnable", c.ID()))
		return
	}
	r.Eval(1)
	bad := func(sigv, what string) { c.Violation(sigv, what, witness) }

	// ---- checks ----
	// conservation: concatenation is a prefix of the source (exact when read to the end)
	pos := 0
	nontrivial := false
	for bi, b := range batches {
		if b.Note != "" {
			bad("batch-after-end", fmt.Sprintf("batch %v delivered %s", b.Items, b.Note))
			return
		}
		if len(b.Items) == 0 {
			bad("empty-batch", fmt.Sprintf("batch %d is empty (maxWait=%s batchSize=%d; batches so far %v)", bi, maxWait, batchSize, batches[:bi]))
			return
		}
		for _, x := range b.Items {
			if pos >= nItems || x != items[pos] {
				bad("conservation", fmt.Sprintf("batch %d = %v: item %d is not the next source item (expected item #%d); lost, duplicated or reordered", bi, b.Items, x, pos+1))
				return
			}
			pos++
		}
		under := false
		if useFunc {
			for k := 1; k < len(b.Items); k++ {
				if fullFn(b.Items[:k]) {
					bad("overfull-func", fmt.Sprintf("BatchFunc batch %v: full() was already true for its proper prefix %v", b.Items, b.Items[:k]))
					return
				}
			}
			under = !fullFn(b.Items)
		} else {
			if len(b.Items) > batchSize {
				bad("overfull", fmt.Sprintf("Batch batch %v is longer than batchSize %d", b.Items, batchSize))
				return
			}
			under = len(b.Items) < batchSize
		}
		r.Count("batches", "delivered", 1)
		if under {
			es := endStamp.Load()
			if es == 0 || b.Recv < es {
				// received before the source reported its end: must have aged
				oldest := arrive[b.Items[0]-1].Load() - 1
				age := time.Duration(b.Recv - oldest)
				r.Count("batches", "under-filled before end (age judged)", 1)
				nontrivial = true
				if age < maxWait {
					bad("too-young", fmt.Sprintf("under-filled batch %v (batchSize %d) was delivered %s after its oldest item arrived, before the source ended; maxWait is %s", b.Items, batchSize, age, maxWait))
					return
				}
			} else {
				r.Count("batches", "under-filled at/after end (exempt)", 1)
			}
		}
	}
	for _, ext := range kept {
		r.Count("consumer", "appended a marker into the spare capacity of a received batch", 1)
		if ext[len(ext)-1] != consumerMark {
			bad("batch-memory-reused", fmt.Sprintf("the consumer appended a marker to batch %v using the batch's spare capacity; later the library overwrote that cell with %d (the delivered slice still shares memory with the batch being built)", ext[:len(ext)-1], ext[len(ext)-1]))
			return
		}
	}
	switch finished {
	case "End":
		r.Count("runs", "read to End", 1)
		if endKind != 0 {
			bad("false-end", "the batch stream reported End although the source had not ended")
			return
		}
		if pos != nItems {
			bad("lost-at-end", fmt.Sprintf("stream ended after %d of %d source items", pos, nItems))
			return
		}
	case "error":
		r.Count("runs", "read to error", 1)
		if endKind != 1 || !errors.Is(finalErr, srcErr) {
			bad("wrong-error", fmt.Sprintf("Next returned error %v; the source's outcome was %v", finalErr, params["end"]))
			return
		}
		if pos != errAt {
			bad("error-before-items", fmt.Sprintf("source error reported after %d items; %d items preceded it", pos, errAt))
			return
		}
	case "closed":
		r.Count("runs", "closed early", 1)
	}
	if gaveUp > 0 {
		r.Count("consumer", "Next gave up (ctx)", gaveUp)
		nontrivial = true
	}
	r.Count("consumer", "Next calls", nexts)
	if !closeReturned {
		bad("close-not-returned", "scenario finished without Close returning")
		return
	}
	if mode == 2 {
		if src.Pos() > 0 {
			r.Count("close", "producer ahead, consumer absent", 1)
			nontrivial = true
		}
	}
	// after Close: source closed exactly once, never used after, goroutines gone
	r.Eval(1)
	if closesAtReturn.Load() == 1 {
		bad("close-returned-before-source-closed", "Close returned while the source had not been closed yet (its Close was still to come or in progress)")
		return
	}
	if m := src.Misuse(true); m != "" {
		bad("source-close", "after Close returned: "+m)
		return
	}
	left := vkit.WaitNoGoroutine(func(g vkit.G) bool { return g.Has("stream.BatchFunc") }, 200*time.Millisecond, 50*time.Millisecond)
	if len(left) > 0 {
		witness["goroutines"] = left[0].Raw
		bad("goroutine-leak", fmt.Sprintf("%d BatchFunc goroutine(s) still parked after Close returned", len(left)))
		return
	}
	if nontrivial {
		r.Distinct(fmt.Sprintf("%v|%s", params, sig.String()))
	}
	r.Count("params", "maxWait "+maxWait.String(), 1)
	if endKind == 1 {
		r.Count("params", "source error "+srcErrName, 1)
	}
	if r.WantSample() && len(batches) >= 2 {
		r.Sample(witness)
	}
}

// endStamper wraps the probe to record the moment just before the source reports its end or error.
type endStamper struct {
	inner  *vkit.ProbeStream[int]
	endAt  int
	blocks bool
	stamp  *atomic.Int64
	start  time.Time
}

func (e *endStamper) Next(ctx context.Context) (int, error) {
	if !e.blocks && e.inner.Pos() >= e.endAt && ctx.Err() == nil {
		// This call will report End / the error (after its planned delay): stamp first, so that
		// any batch received before this stamp was certainly flushed before the source ended.
		e.stamp.CompareAndSwap(0, int64(time.Since(e.start))+1)
	}
	return e.inner.Next(ctx)
}

func (e *endStamper) Close() {
	// a Close that takes a moment: whoever has to wait for it must really wait
	runtime.Gosched()
	if e.endAt%2 == 1 {
		time.Sleep(100 * time.Microsecond)
	}
	e.inner.Close()
}

// timerEdge: the consumer arrives while the batcher is inside a slow full() call on a non-first
// item; full() returns false a swept few microseconds before / after the batch turns maxWait old;
// the source stays idle afterwards. The waiting consumer (live context) must be handed the aged,
// under-filled batch; a consumer parked forever is decided by the goroutine dump.
func timerEdge(c *vkit.Case) {
	r := c.R
	maxWait := 2 * time.Millisecond
	delta := time.Duration(c.Index%80-16) * 250 * time.Nanosecond // -4us .. +15.75us
	start := time.Now()
	var arrive0 atomic.Int64
	var inFull atomic.Int32
	src := vkit.NewProbeStream("source", []int{1, 2})
	src.HonourCtx = true
	src.BlockAtEnd = true
	src.Delay = func(i int) time.Duration {
		if i == 1 {
			return 300 * time.Microsecond
		}
		return -1
	}
	src.OnDeliver = func(i int) {
		if i == 0 {
			arrive0.Store(int64(time.Since(start)))
		}
	}
	full := func(b []int) bool {
		if len(b) == 2 {
			inFull.Store(1)
			target := time.Duration(arrive0.Load()) + maxWait - delta
			for time.Since(start) < target {
			}
			inFull.Store(2)
		}
		return false
	}
	s := stream.BatchFunc[int](src, maxWait, full)
	var got []int
	var err error
	arrivedDuring := false
	// sawFull: the second item had reached full() when the consumer arrived. If the machine is so
	// loaded that the consumer's 50 ms patience ran out first, the batch it finds is [1] alone, older
	// than maxWait, and handing that out at once is correct.
	sawFull := false
	done := make(chan struct{})
	go func() {
		defer close(done)
		// arrive while full() is running
		for inFull.Load() == 0 && time.Since(start) < 50*time.Millisecond {
		}
		vkit.SpinFor(100 * time.Microsecond)
		arrivedDuring = inFull.Load() == 1
		sawFull = inFull.Load() >= 1
		got, err = s.Next(context.Background())
		s.Close()
	}()
	v, dump := vkit.Await(done, vkit.AwaitOpts{Soft: 3 * time.Second, Gap: 300 * time.Millisecond, Hard: 60 * time.Second})
	r.Eval(1)
	r.Count("timer-edge", "trials", 1)
	switch v {
	case vkit.AwaitStuck:
		c.Violation("held-back", fmt.Sprintf("timer-edge: a consumer with a live context arrived while full() was running; full() returned %s relative to the batch turning maxWait=%s old; the source then stayed idle; the consumer was never handed the aged batch [1 2]", -delta, maxWait),
			map[string]any{"delta": delta.String(), "goroutines": dump})
		return
	case vkit.AwaitInconclusive:
		r.Inconclusive("timer-edge: neither finished nor provably parked")
		return
	}
	if arrivedDuring {
		r.Count("timer-edge", "waiter arrived during full()", 1)
	}
	if !sawFull && err == nil && len(got) == 1 && got[0] == 1 {
		r.Count("timer-edge", "consumer arrived before the second item (load): [1] alone, not judged", 1)
		return
	}
	if err != nil || len(got) != 2 || got[0] != 1 || got[1] != 2 {
		c.Violation("timer-edge-batch", fmt.Sprintf("timer-edge: Next returned (%v, %v), want ([1 2], nil)", got, err), nil)
		return
	}
	if m := src.Misuse(true); m != "" {
		c.Violation("source-close", "timer-edge: after Close returned: "+m, nil)
	}
}
