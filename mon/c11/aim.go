package main

import (
	"context"
	"errors"
	"fmt"
	"runtime"
	"sync"
	"sync/atomic"
	"time"

	"github.com/bradenaw/juniper/iterator"
	"github.com/bradenaw/juniper/stream"

	"verif/vkit"
)

var errPoison = errors.New("verif: poison source error")

// handSource is a source whose items are handed over one at a time by the scenario.
type handSource struct {
	ch     chan int
	closed chan struct{}
	once   sync.Once
}

func newHandSource() *handSource { return &handSource{ch: make(chan int), closed: make(chan struct{})} }

func (s *handSource) Next(ctx context.Context) (int, error) {
	select {
	case v, ok := <-s.ch:
		if !ok {
			return 0, stream.End
		}
		return v, nil
	case <-ctx.Done():
		return 0, ctx.Err()
	}
}
func (s *handSource) Close() { s.once.Do(func() { close(s.closed) }) }

type gotBatch struct {
	batch []int
	at    time.Time
}

func spinUntil(t time.Time) {
	// Sleeping for most of the wait (instead of spinning) keeps the Ps going idle and waking up,
	// which is what makes the runtime fire the batcher's timer from another thread.
	if d := time.Until(t) - 150*time.Microsecond; d > 0 {
		time.Sleep(d)
	}
	yield := runtime.GOMAXPROCS(0) < 4
	for time.Now().Before(t) {
		if yield {
			runtime.Gosched()
		}
	}
}

// reader drains a batch stream into a channel, stamping each batch after it was received.
func reader(b stream.Stream[[]int]) chan gotBatch {
	got := make(chan gotBatch, 16)
	go func() {
		defer close(got)
		for {
			batch, err := b.Next(context.Background())
			if err != nil {
				return
			}
			got <- gotBatch{batch, time.Now()}
		}
	}()
	return got
}

// aim: one long-lived Batch(src, maxWait, 2) stream; per cycle (A) a waiter registers, item a
// arrives (timer armed) and the item that fills the batch is aimed at the instant the flush timer
// expires (swept -10..+20us around it), so that stopping the timer races the runtime firing it;
// (B) a waiter registers again, one single item c arrives and the source stays idle: [c] is
// under-filled and the source has not ended, so it must not be received before c is maxWait old.
// c's age is bounded from above by (stamp after receipt) - (stamp before the hand-over).
func aim(c *vkit.Case) {
	r := c.R
	const maxWait = 200 * time.Microsecond
	cycles := r.Scale(800, 3000)
	if r.VariantHas("aim") {
		cycles = r.Scale(30000, 150000)
	}
	rnd := c.Rand
	src := newHandSource()
	b := stream.Batch[int](src, maxWait, 2)
	got := reader(b)
	finish := func() {
		close(src.ch)
		for range got {
		}
		b.Close()
	}
	recv := func() (gotBatch, bool) {
		select {
		case g, ok := <-got:
			return g, ok
		case <-time.After(30 * time.Second):
			return gotBatch{}, false
		}
	}
	x := 0
	done := 0
	for i := 0; i < cycles; i++ {
		vkit.SpinFor(30 * time.Microsecond)
		src.ch <- x
		x++
		t1 := time.Now()
		off := time.Duration(rnd.Intn(30000)-10000) * time.Nanosecond
		spinUntil(t1.Add(maxWait + off))
		src.ch <- x
		x++
		n := 0
		for n < 2 {
			g, ok := recv()
			if !ok {
				r.Inconclusive("aim: no batch within 30 s in phase A")
				go finish()
				return
			}
			n += len(g.batch)
		}
		vkit.SpinFor(30 * time.Microsecond)
		cItem := x
		x++
		tc := time.Now()
		src.ch <- cItem
		g, ok := recv()
		if !ok {
			r.Inconclusive("aim: no batch within 30 s in phase B")
			go finish()
			return
		}
		done++
		if len(g.batch) != 1 || g.batch[0] != cItem {
			c.Violation("aim-batch", fmt.Sprintf("aim: cycle %d: received %v, want [%d] (one item handed over, source idle)", i, g.batch, cItem), nil)
			break
		}
		if age := g.at.Sub(tc); age < maxWait {
			c.Violation("too-young", fmt.Sprintf("aim: cycle %d: under-filled batch [%d] was received at most %s after its only item was handed to Batch (maxWait %s, batchSize 2, source still open); the previous batch had been filled %s relative to its timer expiry",
				i, cItem, age, maxWait, off), map[string]any{"cycle": i, "age_ns": age.Nanoseconds(), "aim_offset_ns": off.Nanoseconds()})
			break
		}
	}
	finish()
	r.Eval(done)
	r.Count("aim", "cycles (fill aimed at timer expiry, then under-filled victim batch judged)", done)
}

// poison: a first generation of streams lives a history that leaves the batching goroutine sitting
// in its final hand-over with the flush timer armed and nobody listening until long after the
// timer expired: a waiter registers and gives up, the source ends right after its first item, the
// consumer comes back only later, reads to End and closes. Then a second generation of fresh
// streams is judged in the ordinary way: waiter, ONE item, source idle -> the under-filled batch
// must not arrive before the item is maxWait old. Nothing may leak from one stream into another.
func poison(c *vkit.Case) {
	r := c.R
	rnd := c.Rand
	nA := 16 + rnd.Intn(17)
	nB := 2 * nA
	maxWaitA := time.Duration(1+rnd.Intn(3)) * time.Millisecond
	endKind := rnd.Intn(2) // 0 End, 1 error
	var wg sync.WaitGroup
	var mu sync.Mutex
	var badA string
	for i := 0; i < nA; i++ {
		wg.Add(1)
		go func() {
			defer wg.Done()
			var src stream.Stream[int]
			if endKind == 0 {
				src = stream.FromIterator(iterator.Slice([]int{7}))
			} else {
				p := vkit.NewProbeStream("poison-source", []int{7})
				p.FatalAt = 1
				p.Fatal = errPoison
				src = p
			}
			b := stream.Batch[int](src, maxWaitA, 4)
			ctx, cancel := context.WithTimeout(context.Background(), 100*time.Microsecond)
			_, err := b.Next(ctx) // may or may not get the batch: both are fine
			cancel()
			time.Sleep(2*maxWaitA + time.Millisecond)
			seen := 0
			if err == nil {
				seen = 1
			}
			for {
				batch, err := b.Next(context.Background())
				if err != nil {
					break
				}
				seen += len(batch)
			}
			b.Close()
			if seen != 1 {
				mu.Lock()
				badA = fmt.Sprintf("first-generation stream delivered %d items, want 1", seen)
				mu.Unlock()
			}
		}()
	}
	wg.Wait()
	if badA != "" {
		c.Violation("poison-first-gen", "poison: "+badA, nil)
		return
	}
	maxWaitB := time.Duration(10+rnd.Intn(20)) * time.Millisecond
	type res struct {
		age time.Duration
		ok  bool
		bad string
	}
	out := make([]res, nB)
	for i := 0; i < nB; i++ {
		wg.Add(1)
		i := i
		go func() {
			defer wg.Done()
			src := newHandSource()
			var b stream.Stream[[]int]
			if i%2 == 0 {
				b = stream.Batch[int](src, maxWaitB, 3)
			} else {
				b = stream.BatchFunc[int](src, maxWaitB, func(x []int) bool { return len(x) >= 3 })
			}
			got := reader(b)
			vkit.SpinFor(50 * time.Microsecond)
			tc := time.Now()
			src.ch <- i
			select {
			case g := <-got:
				if len(g.batch) != 1 || g.batch[0] != i {
					out[i].bad = fmt.Sprintf("received %v, want [%d]", g.batch, i)
				}
				out[i].age = g.at.Sub(tc)
				out[i].ok = true
			case <-time.After(30 * time.Second):
			}
			close(src.ch)
			for range got {
			}
			b.Close()
		}()
	}
	wg.Wait()
	for i, o := range out {
		if !o.ok {
			r.Inconclusive("poison: second-generation stream got no batch within 30 s")
			continue
		}
		r.Eval(1)
		r.Count("poison", "second-generation under-filled batches judged", 1)
		if o.bad != "" {
			c.Violation("poison-batch", "poison: second-generation stream "+o.bad, nil)
			return
		}
		if o.age < maxWaitB {
			c.Violation("too-young", fmt.Sprintf("poison: after %d streams (maxWait %s) whose waiter gave up, whose source ended after one item and whose consumer came back only after 2*maxWait, a FRESH stream %d (maxWait %s) handed out its under-filled batch at most %s after its only item was handed over, with its source still open",
				nA, maxWaitA, i, maxWaitB, o.age), map[string]any{"first_generation": nA, "end_kind": endKind, "age_ns": o.age.Nanoseconds()})
			return
		}
	}
	r.Count("poison", "rounds", 1)
}

// overdueCancel: the batch is already older than maxWait and nobody has asked for it; then a
// consumer asks with a context that is already cancelled or expires within microseconds (so it
// may announce itself and leave before the batch is handed over), possibly several times; then
// either Close — which must return — or a Next with a live context, which must deliver the items.
func overdueCancel(c *vkit.Case) {
	r := c.R
	rnd := c.Rand
	maxWait := time.Millisecond
	k := rnd.Range(1, 3)
	src := newHandSource()
	var b stream.Stream[[]int]
	if rnd.Bool(0.5) {
		b = stream.Batch[int](src, maxWait, 8)
	} else {
		b = stream.BatchFunc[int](src, maxWait, func(x []int) bool { return len(x) >= 8 })
	}
	for i := 0; i < k; i++ {
		src.ch <- i + 1
	}
	time.Sleep(3 * maxWait)
	attempts := rnd.Range(1, 4)
	gotItems := 0
	for a := 0; a < attempts && gotItems == 0; a++ {
		var ctx context.Context
		var cancel context.CancelFunc
		if rnd.Bool(0.5) {
			ctx, cancel = context.WithCancel(context.Background())
			cancel()
		} else {
			ctx, cancel = context.WithTimeout(context.Background(), time.Duration(rnd.Intn(20000))*time.Nanosecond)
		}
		if a%2 == 1 {
			ctx = vkit.ByValue(ctx)
		}
		batch, err := b.Next(ctx)
		cancel()
		if err == nil {
			gotItems += len(batch)
		}
	}
	r.Eval(1)
	r.Count("overdue-cancel", "rounds", 1)
	if gotItems == 0 {
		r.Count("overdue-cancel", "every impatient consumer left without the batch", 1)
	}
	closeNow := rnd.Bool(0.6)
	if !closeNow && gotItems == 0 {
		// a patient consumer must still get everything
		done := make(chan struct{})
		var batch []int
		var err error
		go func() { defer close(done); batch, err = b.Next(context.Background()) }()
		if v, dump := vkit.Await(done, vkit.AwaitOpts{Soft: 2 * time.Second, Gap: 200 * time.Millisecond, Hard: 60 * time.Second}); v == vkit.AwaitStuck {
			c.Violation("held-back", fmt.Sprintf("overdue-cancel: %d item(s) had been waiting for 3*maxWait, %d consumer(s) with dead/expiring contexts came and went, then a consumer with a live context was never handed the batch", k, attempts), map[string]any{"goroutines": dump})
		} else if v == vkit.AwaitDone && (err != nil || len(batch) != k) {
			c.Violation("overdue-batch", fmt.Sprintf("overdue-cancel: after impatient consumers, Next returned (%v, %v), want the %d pending items", batch, err, k), nil)
		}
	}
	closed := make(chan struct{})
	go func() { defer close(closed); b.Close() }()
	if v, dump := vkit.Await(closed, vkit.AwaitOpts{Soft: 2 * time.Second, Gap: 200 * time.Millisecond, Hard: 60 * time.Second}); v == vkit.AwaitStuck {
		c.Violation("close-stuck", fmt.Sprintf("overdue-cancel: %d item(s) had been waiting for 3*maxWait, %d consumer(s) with dead/expiring contexts came and went (got %d items); Close never returned", k, attempts, gotItems), map[string]any{"goroutines": dump})
		close(src.ch)
	} else if v == vkit.AwaitInconclusive {
		r.Inconclusive("overdue-cancel: Close neither returned nor provably parked")
	}
}

// heldBack: "handed to a waiting consumer rather than held back", for the SECOND and later
// under-filled batches of one stream (timers that are re-armed, not created): the consumer arrives
// when the batch is already a = 3/4 maxWait old, so the batch is due maxWait/4 after its arrival.
// Lateness is measured on the wall clock, which load can stretch; so the verdict needs the same
// shortfall in every one of 5 consecutive rounds (a stall of more than half a maxWait five times
// in a row on a machine that otherwise delivers the first batch on time), otherwise the round is
// only counted.
func heldBack(c *vkit.Case) {
	r := c.R
	maxWait := 40 * time.Millisecond
	src := newHandSource()
	b := stream.Batch[int](src, maxWait, 4)
	defer func() { close(src.ch); b.Close() }()
	late := 0
	var lates []string
	rounds := 6
	for i := 0; i < rounds; i++ {
		src.ch <- i
		time.Sleep(maxWait * 3 / 4) // the batch is now ~3/4 maxWait old
		t0 := time.Now()
		batch, err := b.Next(context.Background())
		waited := time.Since(t0)
		if err != nil || len(batch) != 1 || batch[0] != i {
			c.Violation("held-back-batch", fmt.Sprintf("held-back: round %d: Next returned (%v, %v), want [%d]", i, batch, err, i), nil)
			return
		}
		due := maxWait / 4
		if i >= 1 && waited > due+maxWait/2 {
			late++
		}
		lates = append(lates, waited.Round(time.Millisecond).String())
	}
	r.Eval(1)
	r.Count("held-back", "streams", 1)
	if late == rounds-1 {
		c.Violation("held-back", fmt.Sprintf("held-back: Batch(maxWait %s): a consumer that arrives when the pending item is 3/4 maxWait old was handed the under-filled batch only after %v (rounds 0..%d; due after about %s), in every round after the first", maxWait, lates, rounds-1, maxWait/4), nil)
	} else if late > 0 {
		r.Count("held-back", "rounds delivered later than due + maxWait/2 (load; not judged)", late)
	}
}

// deafSource never ends, never looks at its context and hands out items at once, until killed.
type deafSource struct {
	spin   int // latency per item in microseconds, so that the consumer of the items is parked again by the time the next one comes
	pulls  atomic.Int64
	killed atomic.Bool
	closed atomic.Int64
}

func (s *deafSource) Next(ctx context.Context) (int, error) {
	if s.killed.Load() {
		return 0, errPoison
	}
	if s.spin > 0 {
		time.Sleep(time.Duration(s.spin) * time.Microsecond)
	}
	return int(s.pulls.Add(1)), nil
}
func (s *deafSource) Close() { s.closed.Add(1) }

// deafClose: an endless source that ignores its context, a batch that never fills, no consumer
// (so no timer is pending): Close must still return, having stopped the background work. A Close
// that is still blocked after 15 s (it normally takes microseconds) while the source keeps being
// pulled (>= 1000 further items in 2 s) is a violation; the source's kill switch then ends the run.
func deafClose(c *vkit.Case) {
	r := c.R
	src := &deafSource{spin: []int{0, 20, 100, 500, 500}[c.Index/2%5]}
	var b stream.Stream[[]int]
	if c.Index%2 == 0 {
		b = stream.BatchFunc[int](src, time.Hour, func(x []int) bool { return false })
	} else {
		b = stream.Batch[int](src, time.Hour, 1<<30)
	}
	for src.pulls.Load() < int64(20+c.Rand.Intn(200)) {
		time.Sleep(50 * time.Microsecond)
	}
	closed := make(chan struct{})
	go func() { defer close(closed); b.Close() }()
	r.Eval(1)
	r.Count("deaf-close", "rounds", 1)
	select {
	case <-closed:
	case <-time.After(15 * time.Second):
		p1 := src.pulls.Load()
		time.Sleep(2 * time.Second)
		p2 := src.pulls.Load()
		select {
		case <-closed:
			r.Count("deaf-close", "Close took longer than 15 s (load; not judged)", 1)
		default:
			if p2-p1 >= 1000 {
				c.Violation("close-never-returns", fmt.Sprintf("deaf-close: endless source that ignores its context, batch that never fills, no consumer: Close has been blocked for 17 s while the background goroutines pulled %d further items from the source in the last 2 s", p2-p1), nil)
			} else {
				r.Inconclusive("deaf-close: Close blocked but the source is not being pulled")
			}
		}
		src.killed.Store(true)
		<-closed
	}
	if n := src.closed.Load(); n != 1 {
		c.Violation("source-close", fmt.Sprintf("deaf-close: after Close returned the source had been closed %d times (want exactly 1)", n), nil)
	}
}
