package main

import (
	"context"
	"errors"
	"fmt"
	"runtime"
	"sync"
	"time"

	"github.com/bradenaw/juniper/iterator"
	"github.com/bradenaw/juniper/stream"

	"verif/vkit"
)

var errPoison = errors.New("verif: poison source error")

// handSource is a source whose items are handed over one at a time by the scenario.
type handSource struct {
	ch     chan int
	closed chan struct{}
	once   sync.Once
}

func newHandSource() *handSource { return &handSource{ch: make(chan int), closed: make(chan struct{})} }

func (s *handSource) Next(ctx context.Context) (int, error) {
	select {
	case v, ok := <-s.ch:
		if !ok {
			return 0, stream.End
		}
		return v, nil
	case <-ctx.Done():
		return 0, ctx.Err()
	}
}
func (s *handSource) Close() { s.once.Do(func() { close(s.closed) }) }

type gotBatch struct {
	batch []int
	at    time.Time
}

func spinUntil(t time.Time) {
	// Sleeping for most of the wait (instead of spinning) keeps the Ps going idle and waking up,
	// which is what makes the runtime fire the batcher's timer from another thread.
	if d := time.Until(t) - 150*time.Microsecond; d > 0 {
		time.Sleep(d)
	}
	yield := runtime.GOMAXPROCS(0) < 4
	for time.Now().Before(t) {
		if yield {
			runtime.Gosched()
		}
	}
}

// reader drains a batch stream into a channel, stamping each batch after it was received.
func reader(b stream.Stream[[]int]) chan gotBatch {
	got := make(chan gotBatch, 16)
	go func() {
		defer close(got)
		for {
			batch, err := b.Next(context.Background())
			if err != nil {
				return
			}
			got <- gotBatch{batch, time.Now()}
		}
	}()
	return got
}

// aim: one long-lived Batch(src, maxWait, 2) stream; per cycle (A) a waiter registers, item a
// arrives (timer armed) and the item that fills the batch is aimed at the instant the flush timer
// expires (swept -10..+20us around it), so that stopping the timer races the runtime firing it;
// (B) a waiter registers again, one single item c arrives and the source stays idle: [c] is
// under-filled and the source has not ended, so it must not be received before c is maxWait old.
// c's age is bounded from above by (stamp after receipt) - (stamp before the hand-over).
func aim(c *vkit.Case) {
	r := c.R
	const maxWait = 200 * time.Microsecond
	cycles := r.Scale(800, 3000)
	if r.VariantHas("aim") {
		cycles = r.Scale(30000, 150000)
	}
	rnd := c.Rand
	src := newHandSource()
	b := stream.Batch[int](src, maxWait, 2)
	got := reader(b)
	finish := func() {
		close(src.ch)
		for range got {
		}
		b.Close()
	}
	recv := func() (gotBatch, bool) {
		select {
		case g, ok := <-got:
			return g, ok
		case <-time.After(30 * time.Second):
			return gotBatch{}, false
		}
	}
	x := 0
	done := 0
	for i := 0; i < cycles; i++ {
		vkit.SpinFor(30 * time.Microsecond)
		src.ch <- x
		x++
		t1 := time.Now()
		off := time.Duration(rnd.Intn(30000)-10000) * time.Nanosecond
		spinUntil(t1.Add(maxWait + off))
		src.ch <- x
		x++
		n := 0
		for n < 2 {
			g, ok := recv()
			if !ok {
				r.Inconclusive("aim: no batch within 30 s in phase A")
				go finish()
				return
			}
			n += len(g.batch)
		}
		vkit.SpinFor(30 * time.Microsecond)
		cItem := x
		x++
		tc := time.Now()
		src.ch <- cItem
		g, ok := recv()
		if !ok {
			r.Inconclusive("aim: no batch within 30 s in phase B")
			go finish()
			return
		}
		done++
		if len(g.batch) != 1 || g.batch[0] != cItem {
			c.Violation("aim-batch", fmt.Sprintf("aim: cycle %d: received %v, want [%d] (one item handed over, source idle)", i, g.batch, cItem), nil)
			break
		}
		if age := g.at.Sub(tc); age < maxWait {
			c.Violation("too-young", fmt.Sprintf("aim: cycle %d: under-filled batch [%d] was received at most %s after its only item was handed to Batch (maxWait %s, batchSize 2, source still open); the previous batch had been filled %s relative to its timer expiry",
				i, cItem, age, maxWait, off), map[string]any{"cycle": i, "age_ns": age.Nanoseconds(), "aim_offset_ns": off.Nanoseconds()})
			break
		}
	}
	finish()
	r.Eval(done)
	r.Count("aim", "cycles (fill aimed at timer expiry, then under-filled victim batch judged)", done)
}

// poison: a first generation of streams lives a history that leaves the batching goroutine sitting
// in its final hand-over with the flush timer armed and nobody listening until long after the
// timer expired: a waiter registers and gives up, the source ends right after its first item, the
// consumer comes back only later, reads to End and closes. Then a second generation of fresh
// streams is judged in the ordinary way: waiter, ONE item, source idle -> the under-filled batch
// must not arrive before the item is maxWait old. Nothing may leak from one stream into another.
func poison(c *vkit.Case) {
	r := c.R
	rnd := c.Rand
	nA := 16 + rnd.Intn(17)
	nB := 2 * nA
	maxWaitA := time.Duration(1+rnd.Intn(3)) * time.Millisecond
	endKind := rnd.Intn(2) // 0 End, 1 error
	var wg sync.WaitGroup
	var mu sync.Mutex
	var badA string
	for i := 0; i < nA; i++ {
		wg.Add(1)
		go func() {
			defer wg.Done()
			var src stream.Stream[int]
			if endKind == 0 {
				src = stream.FromIterator(iterator.Slice([]int{7}))
			} else {
				p := vkit.NewProbeStream("poison-source", []int{7})
				p.FatalAt = 1
				p.Fatal = errPoison
				src = p
			}
			b := stream.Batch[int](src, maxWaitA, 4)
			ctx, cancel := context.WithTimeout(context.Background(), 100*time.Microsecond)
			_, err := b.Next(ctx) // may or may not get the batch: both are fine
			cancel()
			time.Sleep(2*maxWaitA + time.Millisecond)
			seen := 0
			if err == nil {
				seen = 1
			}
			for {
				batch, err := b.Next(context.Background())
				if err != nil {
					break
				}
				seen += len(batch)
			}
			b.Close()
			if seen != 1 {
				mu.Lock()
				badA = fmt.Sprintf("first-generation stream delivered %d items, want 1", seen)
				mu.Unlock()
			}
		}()
	}
	wg.Wait()
	if badA != "" {
		c.Violation("poison-first-gen", "poison: "+badA, nil)
		return
	}
	maxWaitB := time.Duration(10+rnd.Intn(20)) * time.Millisecond
	type res struct {
		age time.Duration
		ok  bool
		bad string
	}
	out := make([]res, nB)
	for i := 0; i < nB; i++ {
		wg.Add(1)
		i := i
		go func() {
			defer wg.Done()
			src := newHandSource()
			var b stream.Stream[[]int]
			if i%2 == 0 {
				b = stream.Batch[int](src, maxWaitB, 3)
			} else {
				b = stream.BatchFunc[int](src, maxWaitB, func(x []int) bool { return len(x) >= 3 })
			}
			got := reader(b)
			vkit.SpinFor(50 * time.Microsecond)
			tc := time.Now()
			src.ch <- i
			select {
			case g := <-got:
				if len(g.batch) != 1 || g.batch[0] != i {
					out[i].bad = fmt.Sprintf("received %v, want [%d]", g.batch, i)
				}
				out[i].age = g.at.Sub(tc)
				out[i].ok = true
			case <-time.After(30 * time.Second):
			}
			close(src.ch)
			for range got {
			}
			b.Close()
		}()
	}
	wg.Wait()
	for i, o := range out {
		if !o.ok {
			r.Inconclusive("poison: second-generation stream got no batch within 30 s")
			continue
		}
		r.Eval(1)
		r.Count("poison", "second-generation under-filled batches judged", 1)
		if o.bad != "" {
			c.Violation("poison-batch", "poison: second-generation stream "+o.bad, nil)
			return
		}
		if o.age < maxWaitB {
			c.Violation("too-young", fmt.Sprintf("poison: after %d streams (maxWait %s) whose waiter gave up, whose source ended after one item and whose consumer came back only after 2*maxWait, a FRESH stream %d (maxWait %s) handed out its under-filled batch at most %s after its only item was handed over, with its source still open",
				nA, maxWaitA, i, maxWaitB, o.age), map[string]any{"first_generation": nA, "end_kind": endKind, "age_ns": o.age.Nanoseconds()})
			return
		}
	}
	r.Count("poison", "rounds", 1)
}
