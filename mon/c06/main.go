// C06 — xlist.List equals an ideal sequence of node handles for every history.
//
// Oracle: reference-model monitor. The model is a slice of the handles (*xlist.Node[int]) the list
// ought to hold, in order. After EVERY operation the complete observable state is compared:
//
//   - Len() is the model's length; Front()/Back() are the model's first/last handle (nil if empty);
//   - the walk Front, Next, Next, ... visits exactly the model's handles (pointer identity) and ends;
//   - the walk Back, Prev, Prev, ... visits exactly the reversed model and ends;
//   - Front().Prev() == nil and Back().Next() == nil;
//   - every handle still carries the unique id it was created with in Value (live handles after
//     every op; every handle ever created — removed and cleared ones too — at the end of the case);
//   - the handle just passed to Remove has Next() == Prev() == nil.
//
// Walks are bounded by Len+2 steps, so a cycle is a verdict ("...-unbounded"), never a hang.
// Not demanded (lenient readings): nodes dropped by Clear need not be unlinked (observation table
// "nodes dropped by Clear"); whether a node removed earlier still has nil links later on is only
// recorded ("removed nodes at end of case").
//
// Only handles of nodes currently in the list are ever passed to the library (the precondition).
// The list under test is held in rotating embeddings (embed.go: variable, new, slice element, struct
// fields at odd 4-byte offsets, array-of-struct fields), which matters for the GOARCH=386 variant.
//
// Variant word "owner" (built with -race; see owner.go) runs ONLY the concurrent reading of "their
// Value is never touched": owners update node.Value without the list mutex while the list is operated
// on; oracles are the race detector and a lost-update check. Without that word everything below runs.
//
// Workloads (all sequential, variant "seq"):
//
//	tuples  for every list length 0..6 (thorough 0..7), every relative allocation order of the nodes
//	        (all L! permutations), 8 different construction histories ("styles") of that state, and
//	        EVERY operation with EVERY choice of handle arguments ((node, mark) index pairs for
//	        MoveBefore/MoveAfter, marks for InsertBefore/After, nodes for Remove/MoveToFront/
//	        MoveToBack, plus PushFront/PushBack/Clear): build, apply, compare. Complete for these
//	        bounds; the count is checked against a closed formula.
//	hist    every history of exactly d operations (all handle choices at every step) starting from a
//	        PushBack-built list of length s, for a table of (s, d) (quick: (0,5) (1,3) (2,3) (3,3)
//	        (4,2) (5,2) (6,2)); shorter histories are prefixes of these and are checked step by step
//	        on the way. Complete; the count is checked against an independent recurrence.
//	clear-wrap  one list cleared 2^8, 2^16 (thorough, 64-bit: 2^32) times, a scripted history of all ten
//	        operations at each Clear count from 2 below to 3 above the power.
//	rand    seeded random histories of 10..300 ops (thorough: up to 5000) in four profiles, with
//	        Clear and regrowth, and regrowth after removing every node.
package main

import (
	"fmt"
	"os"
	"runtime"
	"sort"
	"strconv"
	"strings"
	"sync"

	"github.com/bradenaw/juniper/container/xlist"

	"verif/vkit"
)

type node = xlist.Node[int]

// ---------------------------------------------------------------------------------------------
// Operations

type opKind uint8

const (
	opPushFront opKind = iota
	opPushBack
	opInsertBefore
	opInsertAfter
	opRemove
	opMoveBefore
	opMoveAfter
	opMoveToFront
	opMoveToBack
	opClear
	nKinds
)

var kindNames = [nKinds]string{"PushFront", "PushBack", "InsertBefore", "InsertAfter", "Remove",
	"MoveBefore", "MoveAfter", "MoveToFront", "MoveToBack", "Clear"}

// op is one operation; i and j are positions in the ideal sequence as it is BEFORE the operation:
// i = the node (Remove, Move*) or the mark (Insert*); j = the mark of MoveBefore/MoveAfter; -1 = n/a.
type op struct {
	k    opKind
	i, j int
}

func (o op) String() string {
	switch o.k {
	case opPushFront, opPushBack, opClear:
		return kindNames[o.k] + "()"
	case opInsertBefore, opInsertAfter:
		return fmt.Sprintf("%s(mark@%d)", kindNames[o.k], o.i)
	case opMoveBefore, opMoveAfter:
		return fmt.Sprintf("%s(node@%d,mark@%d)", kindNames[o.k], o.i, o.j)
	default:
		return fmt.Sprintf("%s(node@%d)", kindNames[o.k], o.i)
	}
}

// opsFor calls f for every operation with every choice of handle arguments on a list of length n:
// 3 + 5n + 2n^2 operations.
func opsFor(n int, f func(op)) {
	f(op{opPushFront, -1, -1})
	f(op{opPushBack, -1, -1})
	for i := 0; i < n; i++ {
		f(op{opInsertBefore, i, -1})
		f(op{opInsertAfter, i, -1})
		f(op{opRemove, i, -1})
		f(op{opMoveToFront, i, -1})
		f(op{opMoveToBack, i, -1})
	}
	for i := 0; i < n; i++ {
		for j := 0; j < n; j++ {
			f(op{opMoveBefore, i, j})
			f(op{opMoveAfter, i, j})
		}
	}
	f(op{opClear, -1, -1})
}

func nOpsFor(n int) int64 { return int64(3 + 5*n + 2*n*n) }

func lenAfter(n int, o op) int {
	switch o.k {
	case opPushFront, opPushBack, opInsertBefore, opInsertAfter:
		return n + 1
	case opRemove:
		return n - 1
	case opClear:
		return 0
	}
	return n
}

// ---------------------------------------------------------------------------------------------
// Statistics: gathered per case without locks, merged into one aggregate under a mutex, written to
// the report once at the end of the run.

type stats struct {
	evals       int64
	ops         [nKinds]int64
	tables      map[string]map[string]int64
	distinct    map[uint64]struct{} // packed (op, len, posNode, posMark), len >= 2
	maxLen      int
	maxOps      int
	tuples      int64 // (state, op) applications finished in group "tuples"
	leaves      int64 // complete histories finished in group "hist"
	regrewClear int64 // random histories that regrew to >= 2 nodes after a Clear of a non-empty list
	regrewDrain int64 // random histories that regrew to >= 2 nodes after Remove took the last node
	randHist    int64
	// where node and mark sat (filled by note; turned into tables at the end of the run)
	moveRel      [nKinds][5]int64   // MoveBefore/MoveAfter: relative position class
	ends2        [nKinds][16]int64  // MoveBefore/MoveAfter: end class of node x end class of mark
	ends1        [nKinds][4]int64   // one-handle ops: end class of the handle
	onEmpty      [nKinds][2]int64   // PushFront/PushBack/Clear: on an empty / a non-empty list
	clearDropped [2]int64           // nodes dropped by Clear: unlinked / still linked
	lists        int64              // lists made
	emb          [nEmbeddings]int64 // ... by embedding
	addr         [8]int64           // ... by address modulo 8
	wrapGens     int64              // clear-wrap: generations (Clear counts) at which the scripted history ran
	wrapClears   int64              // clear-wrap: Clear calls on the one list
}

var relNames = [5]string{"node == mark", "node immediately before mark", "node immediately after mark", "node before mark, apart", "node after mark, apart"}
var endNames = [4]string{"only node", "front", "back", "inside"}

func newStats() *stats {
	return &stats{tables: make(map[string]map[string]int64), distinct: make(map[uint64]struct{})}
}

func (s *stats) count(table, key string, n int64) {
	t := s.tables[table]
	if t == nil {
		t = make(map[string]int64)
		s.tables[table] = t
	}
	t[key] += n
}

func packKey(o op, n int) uint64 {
	return uint64(o.k)<<56 | uint64(n&0xfffff)<<36 | uint64((o.i+1)&0x3ffff)<<18 | uint64((o.j+1)&0x3ffff)
}

func unpackKey(k uint64) string {
	return fmt.Sprintf("%s|len=%d|node=%d|mark=%d", kindNames[k>>56], (k>>36)&0xfffff, int((k>>18)&0x3ffff)-1, int(k&0x3ffff)-1)
}

var (
	aggMu sync.Mutex
	agg   = newStats()
)

func (s *stats) mergeInto(r *vkit.Report) {
	aggMu.Lock()
	defer aggMu.Unlock()
	agg.evals += s.evals
	for k, v := range s.ops {
		agg.ops[k] += v
	}
	for tn, t := range s.tables {
		for k, v := range t {
			agg.count(tn, k, v)
		}
	}
	for k := range s.distinct {
		if _, seen := agg.distinct[k]; !seen {
			agg.distinct[k] = struct{}{}
			r.Distinct(unpackKey(k))
		}
	}
	if s.maxLen > agg.maxLen {
		agg.maxLen = s.maxLen
	}
	if s.maxOps > agg.maxOps {
		agg.maxOps = s.maxOps
	}
	agg.tuples += s.tuples
	agg.leaves += s.leaves
	agg.regrewClear += s.regrewClear
	agg.regrewDrain += s.regrewDrain
	agg.randHist += s.randHist
	for k := range s.moveRel {
		for x, v := range s.moveRel[k] {
			agg.moveRel[k][x] += v
		}
		for x, v := range s.ends2[k] {
			agg.ends2[k][x] += v
		}
		for x, v := range s.ends1[k] {
			agg.ends1[k][x] += v
		}
		for x, v := range s.onEmpty[k] {
			agg.onEmpty[k][x] += v
		}
	}
	agg.lists += s.lists
	for x, v := range s.emb {
		agg.emb[x] += v
	}
	for x, v := range s.addr {
		agg.addr[x] += v
	}
	agg.wrapGens += s.wrapGens
	agg.wrapClears += s.wrapClears
	agg.clearDropped[0] += s.clearDropped[0]
	agg.clearDropped[1] += s.clearDropped[1]
	r.Eval(int(s.evals))
}

// ---------------------------------------------------------------------------------------------
// The monitored list: real list + model + oracle

type ent struct {
	n  *node
	id int
}

type sut struct {
	c     *vkit.Case
	st    *stats
	l     *xlist.List[int] // held in one of the embeddings of embed.go
	emb   int
	model []ent
	all   []*node // every handle ever returned; all[k].Value must stay k+1
	// handles that left the list
	removed []*node
	cleared []*node
	log     []op
	context map[string]any // extra witness fields (style, permutation, ...)
	failed  bool
}

// newSut makes a fresh monitored list; the embedding rotates with the case index and the number of
// lists the case has made so far (deterministic).
func newSut(c *vkit.Case, st *stats) *sut {
	emb := (c.Index + int(st.lists)) % nEmbeddings
	st.lists++
	s := &sut{c: c, st: st, emb: emb, l: newListIn[int](emb)}
	st.emb[emb]++
	st.addr[addrMod8(s.l)]++
	return s
}

// safeLen is Len() for use while reporting (a panicking Len must not kill the report).
func (s *sut) safeLen() int {
	n := -1
	vkit.Try(func() { n = s.l.Len() })
	return n
}

func (s *sut) idOf() map[*node]int {
	m := make(map[*node]int, len(s.all))
	for k, n := range s.all {
		m[n] = k + 1
	}
	return m
}

func (s *sut) render(ids map[*node]int, n *node) string {
	if n == nil {
		return "nil"
	}
	if id, ok := ids[n]; ok {
		return fmt.Sprintf("#%d", id)
	}
	return "#?(foreign node)"
}

func (s *sut) modelIDs() []string {
	out := make([]string, len(s.model))
	for i, e := range s.model {
		out[i] = fmt.Sprintf("#%d", e.id)
	}
	return out
}

// boundedWalk walks from start via step for at most bound nodes; ended reports whether nil was
// reached within the bound.
func (s *sut) boundedWalk(start *node, step func(*node) *node, bound int) (walk []*node, ended bool) {
	cur := start
	for len(walk) < bound {
		if cur == nil {
			return walk, true
		}
		walk = append(walk, cur)
		cur = step(cur)
	}
	return walk, cur == nil
}

func (s *sut) renderWalk(ids map[*node]int, w []*node, ended bool) []string {
	out := make([]string, 0, len(w)+1)
	for _, n := range w {
		out = append(out, s.render(ids, n))
	}
	if !ended {
		out = append(out, "... (no end within Len+2 steps)")
	}
	return out
}

func (s *sut) history() []string {
	ops := s.log
	out := make([]string, 0, len(ops)+1)
	if len(ops) > 600 {
		out = append(out, fmt.Sprintf("(%d earlier ops omitted; the case id replays all of them)", len(ops)-600))
		ops = ops[len(ops)-600:]
	}
	for _, o := range ops {
		out = append(out, o.String())
	}
	return out
}

func (s *sut) fail(sig, what string) {
	if s.failed {
		return
	}
	s.failed = true
	ids := s.idOf()
	bound := len(s.model) + 2
	if l := s.safeLen(); l > len(s.model) && l < 1<<20 {
		bound = l + 2
	}
	fw, fe := s.boundedWalk(s.l.Front(), (*node).Next, bound)
	bw, be := s.boundedWalk(s.l.Back(), (*node).Prev, bound)
	last := "(none)"
	if len(s.log) > 0 {
		last = s.log[len(s.log)-1].String()
	}
	w := map[string]any{
		"history (positions refer to the ideal sequence before each op)": s.history(),
		"ideal_sequence": s.modelIDs(),
		"forward_walk":   s.renderWalk(ids, fw, fe),
		"backward_walk":  s.renderWalk(ids, bw, be),
		"Len":            s.safeLen(),
		"list_held_as":   embeddingNames[s.emb],
		"ops_applied":    len(s.log),
	}
	for k, v := range s.context {
		w[k] = v
	}
	s.c.Violation(sig, fmt.Sprintf("after op %d %s (list held as %s): %s; ideal sequence %v, forward walk %v, backward walk %v, Len()=%d",
		len(s.log), last, embeddingNames[s.emb], what, strings.Join(s.modelIDs(), " "), strings.Join(s.renderWalk(ids, fw, fe), " "),
		strings.Join(s.renderWalk(ids, bw, be), " "), s.safeLen()), w)
}

// check compares the complete observable state with the model. rm is the handle just passed to
// Remove (nil otherwise).
func (s *sut) check(rm *node) {
	s.st.evals++
	m := s.model
	if got := s.l.Len(); got != len(m) {
		s.fail("len", fmt.Sprintf("Len() = %d, the ideal sequence holds %d", got, len(m)))
		return
	}
	var wantFront, wantBack *node
	if len(m) > 0 {
		wantFront, wantBack = m[0].n, m[len(m)-1].n
	}
	front, back := s.l.Front(), s.l.Back()
	if front != wantFront {
		ids := s.idOf()
		s.fail("front", fmt.Sprintf("Front() = %s, ideal first handle is %s", s.render(ids, front), s.render(ids, wantFront)))
		return
	}
	if back != wantBack {
		ids := s.idOf()
		s.fail("back", fmt.Sprintf("Back() = %s, ideal last handle is %s", s.render(ids, back), s.render(ids, wantBack)))
		return
	}
	// forward walk
	cur := front
	for k := 0; k < len(m); k++ {
		if cur != m[k].n {
			s.walkFailure("forward-walk", "Front/Next", k)
			return
		}
		cur = cur.Next()
	}
	if cur != nil {
		s.walkFailure("forward-walk", "Front/Next", len(m))
		return
	}
	// backward walk
	cur = back
	for k := len(m) - 1; k >= 0; k-- {
		if cur != m[k].n {
			s.walkFailure("backward-walk", "Back/Prev", len(m)-1-k)
			return
		}
		cur = cur.Prev()
	}
	if cur != nil {
		s.walkFailure("backward-walk", "Back/Prev", len(m))
		return
	}
	if front != nil && front.Prev() != nil {
		s.fail("front-prev", fmt.Sprintf("Front().Prev() = %s, want nil", s.render(s.idOf(), front.Prev())))
		return
	}
	if back != nil && back.Next() != nil {
		s.fail("back-next", fmt.Sprintf("Back().Next() = %s, want nil", s.render(s.idOf(), back.Next())))
		return
	}
	if rm != nil && (rm.Next() != nil || rm.Prev() != nil) {
		ids := s.idOf()
		s.fail("removed-links", fmt.Sprintf("the node %s passed to Remove still has Prev() = %s, Next() = %s",
			s.render(ids, rm), s.render(ids, rm.Prev()), s.render(ids, rm.Next())))
		return
	}
	for k := range m {
		if m[k].n.Value != m[k].id {
			s.fail("value", fmt.Sprintf("node at position %d was created with Value %d and now has Value %d", k, m[k].id, m[k].n.Value))
			return
		}
	}
}

func (s *sut) walkFailure(sig, name string, step int) {
	bound := len(s.model) + 2
	var w []*node
	var ended bool
	if sig == "forward-walk" {
		w, ended = s.boundedWalk(s.l.Front(), (*node).Next, bound)
	} else {
		w, ended = s.boundedWalk(s.l.Back(), (*node).Prev, bound)
	}
	if !ended {
		s.fail(sig+"-unbounded", fmt.Sprintf("the %s walk does not end within Len+2 = %d steps (first difference from the ideal sequence at step %d)", name, bound, step))
		return
	}
	s.fail(sig, fmt.Sprintf("the %s walk visits %d nodes and differs from the ideal sequence at step %d", name, len(w), step))
}

// finalCheck runs at the end of a case: Value of every handle ever created; observations about
// handles that left the list.
func (s *sut) finalCheck() {
	if s.failed {
		return
	}
	s.st.evals++
	for k, n := range s.all {
		if n.Value != k+1 {
			s.fail("value", fmt.Sprintf("handle #%d (no matter whether still in the list) now has Value %d", k+1, n.Value))
			return
		}
	}
	for _, n := range s.removed {
		if n.Next() == nil && n.Prev() == nil {
			s.st.count("removed nodes at end of case (observation)", "still without neighbours", 1)
		} else {
			s.st.count("removed nodes at end of case (observation)", "relinked later", 1)
		}
	}
}

func (s *sut) newNodeChecks(n *node, id int) bool {
	if n == nil {
		s.fail("nil-handle", fmt.Sprintf("the insertion of value %d returned a nil handle", id))
		return false
	}
	for _, old := range s.all {
		if old == n {
			s.fail("handle-reused", fmt.Sprintf("the insertion of value %d returned a handle that was handed out before", id))
			return false
		}
	}
	return true
}

func insertEnt(m []ent, at int, e ent) []ent {
	m = append(m, ent{})
	copy(m[at+1:], m[at:])
	m[at] = e
	return m
}

func removeEnt(m []ent, at int) []ent {
	copy(m[at:], m[at+1:])
	m[len(m)-1] = ent{}
	return m[:len(m)-1]
}

// apply performs o on the real list and on the model and compares. It returns false when the case
// must stop (a violation was recorded).
func (s *sut) apply(o op) bool {
	if s.failed {
		return false
	}
	n := len(s.model)
	s.log = append(s.log, o)
	s.note(o, n)
	var created *node
	var rm *node
	id := len(s.all) + 1
	var p *vkit.Panic
	switch o.k {
	case opPushFront:
		p = vkit.Try(func() { created = s.l.PushFront(id) })
	case opPushBack:
		p = vkit.Try(func() { created = s.l.PushBack(id) })
	case opInsertBefore:
		mark := s.model[o.i].n
		p = vkit.Try(func() { created = s.l.InsertBefore(id, mark) })
	case opInsertAfter:
		mark := s.model[o.i].n
		p = vkit.Try(func() { created = s.l.InsertAfter(id, mark) })
	case opRemove:
		rm = s.model[o.i].n
		p = vkit.Try(func() { s.l.Remove(rm) })
	case opMoveBefore:
		nd, mark := s.model[o.i].n, s.model[o.j].n
		p = vkit.Try(func() { s.l.MoveBefore(nd, mark) })
	case opMoveAfter:
		nd, mark := s.model[o.i].n, s.model[o.j].n
		p = vkit.Try(func() { s.l.MoveAfter(nd, mark) })
	case opMoveToFront:
		nd := s.model[o.i].n
		p = vkit.Try(func() { s.l.MoveToFront(nd) })
	case opMoveToBack:
		nd := s.model[o.i].n
		p = vkit.Try(func() { s.l.MoveToBack(nd) })
	case opClear:
		p = vkit.Try(func() { s.l.Clear() })
	}
	if p != nil {
		s.fail("panic", fmt.Sprintf("the call panicked: %s (in %s)", p.Msg, p.JuniperFrame()))
		return false
	}
	// the ideal sequence
	switch o.k {
	case opPushFront, opPushBack, opInsertBefore, opInsertAfter:
		if !s.newNodeChecks(created, id) {
			return false
		}
		s.all = append(s.all, created)
		at := 0
		switch o.k {
		case opPushBack:
			at = n
		case opInsertBefore:
			at = o.i
		case opInsertAfter:
			at = o.i + 1
		}
		s.model = insertEnt(s.model, at, ent{created, id})
	case opRemove:
		s.model = removeEnt(s.model, o.i)
		s.removed = append(s.removed, rm)
	case opMoveBefore, opMoveAfter, opMoveToFront, opMoveToBack:
		e := s.model[o.i]
		var to int // position in the sequence without e
		switch o.k {
		case opMoveToFront:
			to = 0
		case opMoveToBack:
			to = n - 1
		case opMoveBefore:
			to = o.j
			if o.j > o.i {
				to--
			}
		case opMoveAfter:
			to = o.j + 1
			if o.j > o.i {
				to--
			}
		}
		if (o.k == opMoveBefore || o.k == opMoveAfter) && o.i == o.j {
			break // node == mark: the ideal sequence is unchanged
		}
		s.model = removeEnt(s.model, o.i)
		s.model = insertEnt(s.model, to, e)
	case opClear:
		for _, e := range s.model {
			s.cleared = append(s.cleared, e.n)
		}
		dropped := s.model
		s.model = s.model[:0:0]
		for _, e := range dropped {
			if e.n.Next() == nil && e.n.Prev() == nil {
				s.st.clearDropped[0]++
			} else {
				s.st.clearDropped[1]++
			}
		}
	}
	if len(s.model) > s.st.maxLen {
		s.st.maxLen = len(s.model)
	}
	if p := vkit.Try(func() { s.check(rm) }); p != nil {
		s.fail("panic", fmt.Sprintf("observing the list (Len/Front/Back/Next/Prev) panicked: %s (in %s)", p.Msg, p.JuniperFrame()))
	}
	return !s.failed
}

// note records what is about to be exercised: op kind, the distinct (op, len, posNode, posMark)
// tuple, and where node and mark sit relative to each other and to the ends.
func (s *sut) note(o op, n int) {
	st := s.st
	st.ops[o.k]++
	if n >= 2 {
		st.distinct[packKey(o, n)] = struct{}{}
	}
	switch o.k {
	case opMoveBefore, opMoveAfter:
		rel := 4
		switch {
		case o.i == o.j:
			rel = 0
		case o.i+1 == o.j:
			rel = 1
		case o.i == o.j+1:
			rel = 2
		case o.i < o.j:
			rel = 3
		}
		st.moveRel[o.k][rel]++
		st.ends2[o.k][endClass(o.i, n)*4+endClass(o.j, n)]++
	case opInsertBefore, opInsertAfter, opRemove, opMoveToFront, opMoveToBack:
		st.ends1[o.k][endClass(o.i, n)]++
	case opPushFront, opPushBack, opClear:
		if n == 0 {
			st.onEmpty[o.k][0]++
		} else {
			st.onEmpty[o.k][1]++
		}
	}
}

func endClass(i, n int) int {
	switch {
	case n == 1:
		return 0
	case i == 0:
		return 1
	case i == n-1:
		return 2
	}
	return 3
}

// ---------------------------------------------------------------------------------------------
// Group "tuples": every (length, allocation-order permutation, construction style, op, handles).

const nStyles = 8

var styleNames = [nStyles]string{
	"ends-by-Push,middle-by-InsertBefore",
	"ends-by-Push,middle-by-InsertAfter",
	"everything-by-InsertBefore/After",
	"PushBack-then-MoveToFront/MoveAfter",
	"PushFront-then-MoveToBack/MoveBefore",
	"built-then-junk-inserted-and-Removed",
	"regrown-after-Clear",
	"regrown-after-removing-every-node",
}

func factorial(n int) int {
	f := 1
	for i := 2; i <= n; i++ {
		f *= i
	}
	return f
}

// nthPerm returns the idx-th permutation of 0..n-1 in lexicographic order.
func nthPerm(n, idx int) []int {
	avail := make([]int, n)
	for i := range avail {
		avail[i] = i
	}
	out := make([]int, 0, n)
	for i := n; i >= 1; i-- {
		f := factorial(i - 1)
		k := idx / f
		idx %= f
		out = append(out, avail[k])
		avail = append(avail[:k], avail[k+1:]...)
	}
	return out
}

// insertByRank inserts the nodes in allocation order 0..L-1 so that the node allocated k-th ends up
// at the position where p holds k. mid chooses how a node that lands strictly inside is inserted;
// ends chooses how a node that lands at an end is inserted.
func (s *sut) insertByRank(p []int, style int) bool {
	L := len(p)
	where := make([]int, L)
	for pos, k := range p {
		where[k] = pos
	}
	base := len(s.model) // always 0 here, kept for clarity
	for k := 0; k < L; k++ {
		rel := 0
		for m := 0; m < k; m++ {
			if where[m] < where[k] {
				rel++
			}
		}
		cur := len(s.model) - base
		var o op
		switch {
		case cur == 0:
			if style == 2 && L%2 == 1 {
				o = op{opPushFront, -1, -1}
			} else {
				o = op{opPushBack, -1, -1}
			}
		case rel == 0:
			if style == 2 {
				o = op{opInsertBefore, base, -1}
			} else {
				o = op{opPushFront, -1, -1}
			}
		case rel == cur:
			if style == 2 {
				o = op{opInsertAfter, base + cur - 1, -1}
			} else {
				o = op{opPushBack, -1, -1}
			}
		default:
			after := style == 1 || (style == 2 && (k+rel)%2 == 0)
			if after {
				o = op{opInsertAfter, base + rel - 1, -1}
			} else {
				o = op{opInsertBefore, base + rel, -1}
			}
		}
		if !s.apply(o) {
			return false
		}
	}
	return true
}

func (s *sut) applyAll(ops ...op) bool {
	for _, o := range ops {
		if !s.apply(o) {
			return false
		}
	}
	return true
}

// build brings a fresh list into the state "L nodes whose allocation order along the list is p"
// by one of nStyles construction histories. Every step is checked like any other op.
func (s *sut) build(p []int, style int) bool {
	L := len(p)
	switch style {
	case 0, 1, 2:
		return s.insertByRank(p, style)
	case 3:
		// PushBack in allocation order, then bring the nodes into place front to back.
		for k := 0; k < L; k++ {
			if !s.apply(op{opPushBack, -1, -1}) {
				return false
			}
		}
		first := 0
		if L > 0 {
			first = s.model[0].id
		}
		for i := 0; i < L; i++ {
			ci := s.indexOfID(first + p[i])
			var o op
			if i == 0 {
				o = op{opMoveToFront, ci, -1}
			} else {
				o = op{opMoveAfter, ci, i - 1}
			}
			if !s.apply(o) {
				return false
			}
		}
		return true
	case 4:
		// PushFront in allocation order, then bring the nodes into place back to front.
		for k := 0; k < L; k++ {
			if !s.apply(op{opPushFront, -1, -1}) {
				return false
			}
		}
		first := 0
		if L > 0 {
			first = s.model[L-1].id
		}
		for i := L - 1; i >= 0; i-- {
			ci := s.indexOfID(first + p[i])
			var o op
			if i == L-1 {
				o = op{opMoveToBack, ci, -1}
			} else {
				o = op{opMoveBefore, ci, i + 1}
			}
			if !s.apply(o) {
				return false
			}
		}
		return true
	case 5:
		// Build, then surround and interleave with junk nodes, then Remove the junk.
		if !s.insertByRank(p, 0) {
			return false
		}
		if L == 0 {
			return s.applyAll(op{opPushFront, -1, -1}, op{opPushBack, -1, -1}, op{opRemove, 0, -1}, op{opRemove, 0, -1})
		}
		mid := L / 2
		// after these four: junk at 0, at mid+2 (after the old mid), before the old last, and at the end
		if !s.applyAll(op{opPushFront, -1, -1}, op{opPushBack, -1, -1}, op{opInsertAfter, mid + 1, -1}) {
			return false
		}
		// list: J0 s0..s_mid J2 s_mid+1..s_L-1 J1 ; insert one more junk before the last survivor-or-junk
		if !s.apply(op{opInsertBefore, len(s.model) - 1, -1}) {
			return false
		}
		// remove junk: the inner ones first, then the front one, then the back one
		junkFrom := s.model[0].id // ids >= this are junk
		for _, which := range []int{2, 3, 0, 1} {
			ci := s.indexOfID(junkFrom + which)
			if !s.apply(op{opRemove, ci, -1}) {
				return false
			}
		}
		return true
	case 6:
		if !s.applyAll(op{opPushBack, -1, -1}, op{opPushFront, -1, -1}, op{opInsertAfter, 0, -1}, op{opClear, -1, -1}) {
			return false
		}
		return s.insertByRank(p, 1)
	case 7:
		if !s.applyAll(op{opPushBack, -1, -1}, op{opPushBack, -1, -1}, op{opPushFront, -1, -1},
			op{opRemove, 1, -1}, op{opRemove, 0, -1}, op{opRemove, 0, -1}) {
			return false
		}
		return s.insertByRank(p, 2)
	}
	panic("unknown style")
}

func (s *sut) indexOfID(id int) int {
	for i, e := range s.model {
		if e.id == id {
			return i
		}
	}
	panic(fmt.Sprintf("monitor bug: id %d not in the ideal sequence", id))
}

// rankOrder returns, for the survivors in the model, their allocation ranks along the list.
func (s *sut) rankOrder() []int {
	ids := make([]int, len(s.model))
	for i, e := range s.model {
		ids[i] = e.id
	}
	sorted := append([]int(nil), ids...)
	sort.Ints(sorted)
	out := make([]int, len(ids))
	for i, id := range ids {
		out[i] = sort.SearchInts(sorted, id)
	}
	return out
}

type tupleCase struct{ L, perm int }

func tupleCases(maxL int) []tupleCase {
	var out []tupleCase
	for L := 0; L <= maxL; L++ {
		for k := 0; k < factorial(L); k++ {
			out = append(out, tupleCase{L, k})
		}
	}
	return out
}

func expectedTuples(maxL int) int64 {
	var n int64
	for L := 0; L <= maxL; L++ {
		n += int64(factorial(L)) * nStyles * nOpsFor(L)
	}
	return n
}

func runTuples(r *vkit.Report, maxL int) {
	cases := tupleCases(maxL)
	r.Cases("tuples", len(cases), runtime.GOMAXPROCS(0), func(c *vkit.Case) {
		tc := cases[c.Index]
		p := nthPerm(tc.L, tc.perm)
		st := newStats()
		defer st.mergeInto(r)
		for style := 0; style < nStyles; style++ {
			stop := false
			opsFor(tc.L, func(o op) {
				if stop {
					return
				}
				s := newSut(c, st)
				s.context = map[string]any{"group": "tuples", "length": tc.L, "allocation_order_along_list": p,
					"construction_style": styleNames[style], "op_under_test": o.String()}
				if !s.build(p, style) {
					stop = true
					return
				}
				// the builders must really have produced the stated state
				if got := s.rankOrder(); !equalInts(got, p) || len(s.model) != tc.L {
					panic(fmt.Sprintf("monitor bug: style %d built allocation order %v, want %v", style, got, p))
				}
				if !s.apply(o) {
					stop = true
					return
				}
				s.finalCheck()
				if s.failed {
					stop = true
					return
				}
				st.tuples++
				if tc.L == 4 && tc.perm == 13 && style == 3 && o.k == opMoveBefore && o.i == 3 && o.j == 0 && r.WantSample() {
					r.Sample(map[string]any{"group": "tuples", "length": tc.L, "allocation_order_along_list": p,
						"construction_style": styleNames[style], "history (last op is the one under test)": s.history()})
				}
			})
			if stop {
				return
			}
		}
		st.count("tuples: states (length, allocation order) by length", fmt.Sprintf("len=%d", tc.L), 1)
	})
}

func equalInts(a, b []int) bool {
	if len(a) != len(b) {
		return false
	}
	for i := range a {
		if a[i] != b[i] {
			return false
		}
	}
	return true
}

// ---------------------------------------------------------------------------------------------
// Group "hist": every history of exactly d ops from a PushBack-built list of length s.

type histRow struct{ start, depth int }

// countHist is the number of histories of exactly d ops from a list of length n, by the recurrence
// over lengths only (independent of the enumeration below).
func countHist(n, d int, memo map[[2]int]int64) int64 {
	if d == 0 {
		return 1
	}
	key := [2]int{n, d}
	if v, ok := memo[key]; ok {
		return v
	}
	v := int64(2+2*n)*countHist(n+1, d-1, memo) + // PushFront, PushBack, InsertBefore/After x n marks
		int64(2*n+2*n*n)*countHist(n, d-1, memo) + // MoveToFront/Back x n, MoveBefore/After x n^2
		countHist(0, d-1, memo) // Clear
	if n > 0 {
		v += int64(n) * countHist(n-1, d-1, memo) // Remove x n
	}
	memo[key] = v
	return v
}

type histCase struct {
	row   histRow
	first op
}

func histCases(rows []histRow) []histCase {
	var out []histCase
	for _, row := range rows {
		opsFor(row.start, func(o op) { out = append(out, histCase{row, o}) })
	}
	return out
}

func expectedLeaves(rows []histRow) int64 {
	memo := make(map[[2]int]int64)
	var n int64
	for _, row := range rows {
		n += countHist(row.start, row.depth, memo)
	}
	return n
}

func runHist(r *vkit.Report, rows []histRow) {
	cases := histCases(rows)
	r.Cases("hist", len(cases), runtime.GOMAXPROCS(0), func(c *vkit.Case) {
		hc := cases[c.Index]
		st := newStats()
		defer st.mergeInto(r)
		prefix := make([]op, 0, hc.row.depth)
		prefix = append(prefix, hc.first)
		stop := false
		var rec func(n, d int)
		rec = func(n, d int) {
			if stop {
				return
			}
			if d == 0 {
				s := newSut(c, st)
				s.context = map[string]any{"group": "hist", "start_length (built by PushBack)": hc.row.start, "depth": hc.row.depth}
				for k := 0; k < hc.row.start; k++ {
					if !s.apply(op{opPushBack, -1, -1}) {
						stop = true
						return
					}
				}
				for _, o := range prefix {
					if !s.apply(o) {
						stop = true
						return
					}
				}
				s.finalCheck()
				if s.failed {
					stop = true
					return
				}
				st.leaves++
				if c.Index == 40 && st.leaves == 100 && r.WantSample() {
					r.Sample(map[string]any{"group": "hist", "start_length": hc.row.start, "depth": hc.row.depth, "history": s.history()})
				}
				return
			}
			opsFor(n, func(o op) {
				if stop {
					return
				}
				prefix = append(prefix, o)
				rec(lenAfter(n, o), d-1)
				prefix = prefix[:len(prefix)-1]
			})
		}
		rec(lenAfter(hc.row.start, hc.first), hc.row.depth-1)
		if !stop {
			st.count("hist: complete histories by (start length, depth)", fmt.Sprintf("start=%d depth=%d", hc.row.start, hc.row.depth), st.leaves)
		}
	})
}

// ---------------------------------------------------------------------------------------------
// Group "rand": seeded random histories.

var profileNames = [...]string{"mixed", "tiny", "grow-drain-regrow", "move-heavy"}

type randDriver struct {
	s   *sut
	rnd *vkit.Rand
	// regrowth tracking
	emptiedBy   string // "", "clear", "drain"
	regrewClear bool
	regrewDrain bool
}

func (d *randDriver) do(o op) bool {
	before := len(d.s.model)
	ok := d.s.apply(o)
	after := len(d.s.model)
	switch {
	case o.k == opClear && before > 0:
		d.emptiedBy = "clear"
	case o.k == opRemove && after == 0:
		d.emptiedBy = "drain"
	case after >= 2 && d.emptiedBy == "clear":
		d.regrewClear = true
		d.emptiedBy = ""
	case after >= 2 && d.emptiedBy == "drain":
		d.regrewDrain = true
		d.emptiedBy = ""
	}
	return ok
}

// pos draws a position: the ends more often than chance gives.
func (d *randDriver) pos(n int) int {
	switch x := d.rnd.Intn(8); {
	case x < 2:
		return 0
	case x < 4:
		return n - 1
	}
	return d.rnd.Intn(n)
}

// pair draws (node, mark): identical, adjacent in either order, or independent.
func (d *randDriver) pair(n int) (int, int) {
	m := d.pos(n)
	switch x := d.rnd.Intn(20); {
	case x < 3:
		return m, m
	case x < 8 && m > 0:
		return m - 1, m
	case x < 13 && m < n-1:
		return m + 1, m
	}
	return d.pos(n), m
}

func (d *randDriver) insertOp(n int) op {
	if n == 0 {
		if d.rnd.Bool(0.5) {
			return op{opPushFront, -1, -1}
		}
		return op{opPushBack, -1, -1}
	}
	switch d.rnd.Intn(4) {
	case 0:
		return op{opPushFront, -1, -1}
	case 1:
		return op{opPushBack, -1, -1}
	case 2:
		return op{opInsertBefore, d.pos(n), -1}
	}
	return op{opInsertAfter, d.pos(n), -1}
}

func (d *randDriver) moveOp(n int) op {
	switch d.rnd.Intn(6) {
	case 0:
		return op{opMoveToFront, d.pos(n), -1}
	case 1:
		return op{opMoveToBack, d.pos(n), -1}
	case 2, 3:
		i, j := d.pair(n)
		return op{opMoveBefore, i, j}
	}
	i, j := d.pair(n)
	return op{opMoveAfter, i, j}
}

// mixedOp: one op with the given percentages for insert / remove / clear (the rest are moves).
func (d *randDriver) mixedOp(pIns, pRem, pClear int) op {
	n := len(d.s.model)
	if n == 0 {
		if d.rnd.Intn(100) < 5 {
			return op{opClear, -1, -1}
		}
		return d.insertOp(0)
	}
	x := d.rnd.Intn(100)
	switch {
	case x < pIns:
		return d.insertOp(n)
	case x < pIns+pRem:
		return op{opRemove, d.pos(n), -1}
	case x < pIns+pRem+pClear:
		return op{opClear, -1, -1}
	}
	return d.moveOp(n)
}

func runRandom(r *vkit.Report, nCases int) {
	r.Cases("rand", nCases, runtime.GOMAXPROCS(0), func(c *vkit.Case) {
		st := newStats()
		defer st.mergeInto(r)
		rnd := c.Rand
		s := newSut(c, st)
		d := &randDriver{s: s, rnd: rnd}
		profile := c.Index % len(profileNames)
		nops := rnd.Range(10, 300)
		if r.Thorough() && rnd.Bool(0.08) {
			nops = rnd.Range(300, 5000)
		}
		s.context = map[string]any{"group": "rand", "profile": profileNames[profile], "planned_ops": nops}
		st.count("rand: histories by profile", profileNames[profile], 1)
		budget := func() bool { return len(s.log) < nops && !s.failed }
		switch profile {
		case 0: // mixed, length hovering around a target
			target := vkit.Pick(rnd, []int{3, 6, 12, 40, 120})
			for budget() {
				n := len(s.model)
				pIns, pRem := 35, 25
				if n > target {
					pIns, pRem = 15, 50
				}
				d.do(d.mixedOp(pIns, pRem, 2))
			}
		case 1: // tiny lists: every position is an end or next to one; empties often
			target := rnd.Range(1, 4)
			for budget() {
				n := len(s.model)
				pIns, pRem := 30, 30
				if n >= target {
					pIns, pRem = 10, 45
				}
				if n > target+1 {
					pIns = 0
				}
				d.do(d.mixedOp(pIns, pRem, 3))
			}
		case 2: // grow, shuffle, remove every node in some order (or Clear), regrow
			for budget() {
				grow := rnd.Range(1, 14)
				for k := 0; k < grow && budget(); k++ {
					d.do(d.insertOp(len(s.model)))
				}
				for k := rnd.Intn(6); k > 0 && budget() && len(s.model) > 0; k-- {
					d.do(d.moveOp(len(s.model)))
				}
				if rnd.Bool(0.2) {
					if budget() {
						d.do(op{opClear, -1, -1})
					}
					continue
				}
				order := rnd.Intn(5)
				for budget() && len(s.model) > 0 {
					n := len(s.model)
					var i int
					switch order {
					case 0:
						i = 0
					case 1:
						i = n - 1
					case 2:
						i = rnd.Intn(n)
					case 3:
						i = (len(s.log) % 2) * (n - 1) // alternate ends
					default:
						i = n / 2
					}
					d.do(op{opRemove, i, -1})
					if rnd.Bool(0.1) && budget() && len(s.model) > 0 {
						d.do(d.moveOp(len(s.model)))
					}
				}
			}
		default: // move-heavy on a list of fixed small or medium size
			size := vkit.Pick(rnd, []int{2, 3, 4, 5, 7, 10, 30})
			for k := 0; k < size && budget(); k++ {
				d.do(d.insertOp(len(s.model)))
			}
			for budget() {
				n := len(s.model)
				switch x := rnd.Intn(100); {
				case n == 0 || x < 4:
					d.do(d.insertOp(n))
				case x < 8:
					d.do(op{opRemove, d.pos(n), -1})
				case x == 8:
					d.do(op{opClear, -1, -1})
				default:
					d.do(d.moveOp(n))
				}
			}
		}
		s.finalCheck()
		if s.failed {
			return
		}
		st.randHist++
		if len(s.log) > st.maxOps {
			st.maxOps = len(s.log)
		}
		if d.regrewClear {
			st.regrewClear++
		}
		if d.regrewDrain {
			st.regrewDrain++
		}
		if r.WantSample() && c.Index < 8 && c.Index%4 == 2 {
			h := s.history()
			if len(h) > 40 {
				h = append(h[:40:40], fmt.Sprintf("... (%d ops in all)", len(s.log)))
			}
			r.Sample(map[string]any{"group": "rand", "case": c.ID(), "profile": profileNames[profile], "history": h})
		}
	})
}

// ---------------------------------------------------------------------------------------------
// Group "clear-wrap": ONE list object is cleared 2^8, 2^16 (and, thorough tier on 64-bit platforms,
// 2^32) times; at every Clear count from two below to three above each power a scripted history of
// all ten operations runs under the full oracle. (A per-list Clear/generation counter narrower than
// the number of Clears a program can perform would wrap exactly there.)

// wrapScript: all ten operations on nodes added in the current generation, one Clear, regrowth.
// It works from any starting length and ends on a non-empty list; it contains exactly one Clear.
func wrapScript(s *sut) bool {
	last := func() int { return len(s.model) - 1 }
	steps := []func() op{
		func() op { return op{opPushFront, -1, -1} },
		func() op { return op{opPushBack, -1, -1} },
		func() op { return op{opInsertBefore, 1, -1} },
		func() op { return op{opInsertAfter, 0, -1} },
		func() op { return op{opMoveBefore, last(), 0} },
		func() op { return op{opMoveAfter, 0, last()} },
		func() op { return op{opMoveBefore, 1, 2} },
		func() op { return op{opMoveAfter, 2, 1} },
		func() op { return op{opMoveToFront, 2, -1} },
		func() op { return op{opMoveToBack, 1, -1} },
		func() op { return op{opMoveToFront, last(), -1} },
		func() op { return op{opMoveToBack, 0, -1} },
		func() op { return op{opRemove, 1, -1} },
		func() op { return op{opRemove, 0, -1} },
		func() op { return op{opRemove, last(), -1} },
		func() op { return op{opClear, -1, -1} },
		func() op { return op{opPushBack, -1, -1} },
		func() op { return op{opPushFront, -1, -1} },
		func() op { return op{opInsertAfter, 0, -1} },
		func() op { return op{opInsertBefore, 0, -1} },
		func() op { return op{opMoveToBack, 0, -1} },
		func() op { return op{opMoveAfter, 0, 1} },
		func() op { return op{opMoveBefore, last(), 0} },
		func() op { return op{opRemove, 1, -1} },
	}
	for _, f := range steps {
		if !s.apply(f()) {
			return false
		}
	}
	return true
}

func runClearWrap(r *vkit.Report) {
	powers := []uint{8, 16}
	if r.Thorough() && strconv.IntSize == 64 && !r.VariantHas("386") {
		powers = append(powers, 32)
	}
	r.Cases("clear-wrap", 1, 1, func(c *vkit.Case) {
		st := newStats()
		defer st.mergeInto(r)
		s := newSut(c, st)
		var clears uint64 // Clear calls on this list object so far
		s.context = map[string]any{"group": "clear-wrap"}
		for _, pw := range powers {
			n := uint64(1) << pw
			// bring the list to n-2 Clears: checked ones now and then, the bulk directly on the empty list
			if len(s.model) > 0 {
				if !s.apply(op{opClear, -1, -1}) {
					return
				}
				clears++
			}
			for clears < n-2 {
				chunk := n - 2 - clears
				if chunk > 1<<22 {
					chunk = 1 << 22
				}
				if chunk > 2 {
					var p *vkit.Panic
					if pw <= 16 {
						// one-element list
						for i := uint64(0); i < chunk-1 && !s.failed; i++ {
							if !s.apply(op{opPushBack, -1, -1}) || !s.apply(op{opClear, -1, -1}) {
								return
							}
							clears++
						}
						continue
					}
					l := s.l
					p = vkit.Try(func() {
						for i := uint64(0); i < chunk-1; i++ {
							l.Clear()
						}
					})
					clears += chunk - 1
					if p != nil {
						s.fail("panic", fmt.Sprintf("Clear panicked during %d consecutive Clears of an empty list: %s", chunk-1, p.Msg))
						return
					}
				}
				// a checked Clear of a one-element list
				if !s.apply(op{opPushBack, -1, -1}) || !s.apply(op{opClear, -1, -1}) {
					return
				}
				clears++
			}
			for g := 0; g < 5; g++ {
				s.context["clears_of_this_list_before_the_script"] = clears
				s.context["near"] = fmt.Sprintf("2^%d", pw)
				if !wrapScript(s) {
					return
				}
				clears++
				st.wrapGens++
				st.count("clear-wrap: scripted history ran after this many Clears of the one list", fmt.Sprintf("2^%d%+d", pw, int64(clears-1)-int64(n)), 1)
			}
		}
		s.finalCheck()
		st.wrapClears = int64(clears)
	})
}

// ---------------------------------------------------------------------------------------------

func main() {
	vkit.Main("C06", "exploration", func(r *vkit.Report) {
		if r.VariantHas("owner") {
			runOwner(r) // race-built variant: owners update Value concurrently (owner.go); nothing else runs
			return
		}
		r.SetRule("case = one operation applied to one list state; after every operation the complete observable state " +
			"(Len, Front, Back, the whole Next walk, the whole Prev walk, the end links, every Value, the links of a node just Removed) " +
			"is compared with a slice of handles. non-trivial = the list held >= 2 nodes before the operation; " +
			"distinct = by (operation, length before, position of node, position of mark) — construction history and node identities are not counted. " +
			"evaluations = number of complete state comparisons.")
		r.Assume("only handles of nodes currently in the list are passed to the library (the property's precondition); removed and cleared handles are never reused")
		r.Assume("a single goroutine uses the list (the package promises nothing else)")
		r.Assume("nodes dropped by Clear need not be unlinked (Clear is O(1) by design): their links are recorded, not judged")

		maxL := r.Scale(6, 7)
		rows := []histRow{{0, 5}, {1, 3}, {2, 3}, {3, 3}, {4, 2}, {5, 2}, {6, 2}}
		if r.Thorough() {
			rows = []histRow{{0, 6}, {1, 4}, {2, 4}, {3, 3}, {4, 3}, {5, 3}, {6, 2}, {7, 2}}
		}
		nRand := r.Scale(6000, 120000)

		// VERIF_C06_ONLY=tuples|hist|rand restricts the run to one workload (used only while validating
		// the monitor against seeded breakage; the coverage floors then fail by design).
		only := os.Getenv("VERIF_C06_ONLY")
		if only == "" || only == "tuples" {
			runTuples(r, maxL)
		}
		if only == "" || only == "hist" {
			runHist(r, rows)
		}
		if only == "" || only == "rand" {
			runRandom(r, nRand)
		}
		if only == "" || only == "clear-wrap" {
			runClearWrap(r)
		}

		// Write the aggregate to the report.
		aggMu.Lock()
		defer aggMu.Unlock()
		for k, v := range agg.ops {
			r.Count("ops", kindNames[k], int(v))
		}
		for tn, t := range agg.tables {
			for k, v := range t {
				r.Count(tn, k, int(v))
			}
		}
		for k := opKind(0); k < nKinds; k++ {
			name := kindNames[k]
			switch k {
			case opMoveBefore, opMoveAfter:
				for x, v := range agg.moveRel[k] {
					r.Count(name+": relative position", relNames[x], int(v))
				}
				for x, v := range agg.ends2[k] {
					if v > 0 {
						r.Count(name+": ends", "node = "+endNames[x/4]+", mark = "+endNames[x%4], int(v))
					}
				}
			case opInsertBefore, opInsertAfter:
				for x, v := range agg.ends1[k] {
					r.Count(name+": ends", "mark = "+endNames[x], int(v))
				}
			case opRemove, opMoveToFront, opMoveToBack:
				for x, v := range agg.ends1[k] {
					r.Count(name+": ends", "node = "+endNames[x], int(v))
				}
			default:
				r.Count(name+": on", "an empty list", int(agg.onEmpty[k][0]))
				r.Count(name+": on", "a non-empty list", int(agg.onEmpty[k][1]))
			}
		}
		r.Count("nodes dropped by Clear (observation, not judged)", "no neighbours afterwards", int(agg.clearDropped[0]))
		r.Count("nodes dropped by Clear (observation, not judged)", "still linked to each other", int(agg.clearDropped[1]))
		for x, v := range agg.emb {
			r.Count("lists under test by how they are held", embeddingNames[x], int(v))
		}
		for x, v := range agg.addr {
			if v > 0 {
				r.Count("lists under test by address modulo 8", strconv.Itoa(x), int(v))
			}
		}
		r.Count("clear-wrap", "Clear calls on the one list", int(agg.wrapClears))
		wantGens := int64(10)
		if r.Thorough() && strconv.IntSize == 64 && !r.VariantHas("386") {
			wantGens = 15
		}
		r.Floor("clear-wrap: Clear counts at which the scripted history ran", agg.wrapGens, wantGens)
		for x := range agg.emb {
			r.Floor("lists held as: "+embeddingNames[x], agg.emb[x], 1000)
		}
		if strconv.IntSize == 32 {
			r.Floor("32-bit: lists at an address = 4 mod 8", agg.addr[4], 1000)
		}
		r.Max("sizes", "longest list", agg.maxLen)
		r.Max("sizes", "longest random history (ops)", agg.maxOps)
		r.Count("rand: regrowth", "histories that regrew to >= 2 nodes after Clear of a non-empty list", int(agg.regrewClear))
		r.Count("rand: regrowth", "histories that regrew to >= 2 nodes after Remove took the last node", int(agg.regrewDrain))
		r.Count("rand: regrowth", "histories completed", int(agg.randHist))

		wantTuples := expectedTuples(maxL)
		wantLeaves := expectedLeaves(rows)
		complete := agg.tuples == wantTuples && agg.leaves == wantLeaves && r.NViolations() == 0 && !r.Replaying()
		// The property quantifies over all histories: the run as a whole is not exhaustive. The two
		// bounded parts are, and say so separately (only when the counts match the closed forms).
		r.SetExhaustive(false)
		var rowDesc []string
		for _, row := range rows {
			rowDesc = append(rowDesc, fmt.Sprintf("start=%d depth=%d", row.start, row.depth))
		}
		r.SetExtra("exhaustive_parts", map[string]any{
			"complete": complete,
			"tuples": map[string]any{
				"space": fmt.Sprintf("list length 0..%d x all L! allocation orders of the nodes along the list x %d construction histories x "+
					"every operation with every choice of handle arguments (3 + 5L + 2L^2 per state: all (node, mark) pairs for MoveBefore/MoveAfter, "+
					"all marks for InsertBefore/InsertAfter, all nodes for Remove/MoveToFront/MoveToBack, PushFront, PushBack, Clear)", maxL, nStyles),
				"enumerated": agg.tuples, "expected_by_formula": wantTuples,
				"construction_histories": styleNames,
			},
			"hist": map[string]any{
				"space":      "every history of exactly `depth` operations, all handle choices at every step, from a list of `start` nodes built by PushBack: " + strings.Join(rowDesc, "; "),
				"enumerated": agg.leaves, "expected_by_recurrence": wantLeaves,
			},
		})
		r.Floor("tuples: (state, construction, op, handles) applications completed", agg.tuples, wantTuples)
		r.Floor("hist: complete histories", agg.leaves, wantLeaves)
		r.Floor("rand: histories completed", agg.randHist, int64(nRand))
		r.Floor("rand: histories that regrew after Clear", agg.regrewClear, int64(nRand/8))
		r.Floor("rand: histories that regrew after removing every node", agg.regrewDrain, int64(nRand/8))
		for k := opKind(0); k < nKinds; k++ {
			r.Floor("ops: "+kindNames[k], agg.ops[k], 1000)
		}
		for _, k := range []opKind{opMoveBefore, opMoveAfter} {
			for x, rel := range relNames {
				r.Floor(kindNames[k]+": "+rel, agg.moveRel[k][x], 100)
			}
			for _, x := range []int{1*4 + 2, 2*4 + 1, 1*4 + 1, 2*4 + 2, 0} {
				r.Floor(kindNames[k]+": node = "+endNames[x/4]+", mark = "+endNames[x%4], agg.ends2[k][x], 100)
			}
		}
		for _, k := range []opKind{opInsertBefore, opInsertAfter, opRemove, opMoveToFront, opMoveToBack} {
			for x := range endNames {
				r.Floor(kindNames[k]+": handle = "+endNames[x], agg.ends1[k][x], 100)
			}
		}
		for _, k := range []opKind{opPushFront, opPushBack, opClear} {
			r.Floor(kindNames[k]+": on an empty list", agg.onEmpty[k][0], 100)
			r.Floor(kindNames[k]+": on a non-empty list", agg.onEmpty[k][1], 100)
		}
	})
}
