// Embeddings: where the List under test lives. The property says nothing about how a List is held,
// so every way a program may hold one must behave alike — in particular on 32-bit platforms, where a
// List that is a struct field behind an odd number of 4-byte words sits at an address = 4 mod 8
// (the usual LRU layout struct{ mu; hits int32; l xlist.List[T] }).
package main

import (
	"unsafe"

	"github.com/bradenaw/juniper/container/xlist"
)

type afterInt32[T any] struct {
	a int32
	l xlist.List[T]
}

type afterBool[T any] struct {
	b bool
	l xlist.List[T]
}

type afterTwoInt32[T any] struct {
	a, b int32
	l    xlist.List[T]
}

type afterThreeInt32[T any] struct {
	a, b, c int32
	l       xlist.List[T]
}

type lruLike[T any] struct {
	hits int32
	l    xlist.List[T]
	cap  int32
}

const nEmbeddings = 11

var embeddingNames = [nEmbeddings]string{
	"plain variable",
	"new(List)",
	"element 1 of a []List",
	"struct field after an int32",
	"struct field after a bool",
	"struct field after two int32",
	"struct field after three int32",
	"field of element 0 of an array of struct{int32; List}",
	"field of element 1 of an array of struct{int32; List}",
	"field of element 2 of an array of struct{int32; List}",
	"field of element 1 of a slice of struct{int32; List; int32}",
}

// newListIn returns a zero List held in the given embedding.
func newListIn[T any](kind int) *xlist.List[T] {
	switch kind % nEmbeddings {
	case 0:
		var l xlist.List[T]
		return &l
	case 1:
		return new(xlist.List[T])
	case 2:
		s := make([]xlist.List[T], 3)
		return &s[1]
	case 3:
		x := &afterInt32[T]{a: 1}
		return &x.l
	case 4:
		x := &afterBool[T]{b: true}
		return &x.l
	case 5:
		x := &afterTwoInt32[T]{a: 1, b: 2}
		return &x.l
	case 6:
		x := &afterThreeInt32[T]{a: 1, b: 2, c: 3}
		return &x.l
	case 7, 8, 9:
		x := new([3]afterInt32[T])
		return &x[kind%nEmbeddings-7].l
	default:
		s := make([]lruLike[T], 3)
		return &s[1].l
	}
}

// addrMod8 is the list's address modulo 8 (4 = misaligned for 64-bit atomics on 32-bit platforms).
func addrMod8[T any](l *xlist.List[T]) int { return int(uintptr(unsafe.Pointer(l)) % 8) }
