// C06, variant word "owner" (race-built): "handles keep their identity and their Value is never
// touched", read as the concurrency contract the doc on Node.Value gives ("user-controlled, and never
// modified by this package"): the owner of an entry may update node.Value WITHOUT the lock that guards
// the list order. A library that reads Value and writes the same bits back is invisible to every
// sequential oracle, but it undoes an owner's concurrent update and is a data race.
//
// One round: a list goroutine performs random operations (all ten kinds, Clear and regrowth) under a
// mutex M that guards the list structure. One or two owner goroutines, never holding M, own disjoint
// sets of nodes (handed over through a channel, so that the constructor's write of Value
// happens-before the owner's first access) and keep counting in node.Value: verify that the Value is
// still the one written last, write the next one. Before an operation the list goroutine announces the
// node it is about to move / remove / use as mark (an atomic pointer, not M), waits (bounded, never a
// verdict) for the owner to acknowledge that it is now hammering that node, and brackets the library
// call with an atomic "in operation" flag so that owner writes that fell inside the call are counted.
//
// Oracles: (1) the race detector — vkit turns every report in the race log into a violation;
// (2) lost update — the owner finds a Value that is not the one it wrote last: "value-touched".
// The list structure itself is judged by the "seq" variant; here only Len and the two walks are
// compared now and then (links only, never Value) to make sure the driver's model has not drifted.
package main

import (
	"fmt"
	"runtime"
	"strconv"
	"sync"
	"sync/atomic"

	"github.com/bradenaw/juniper/container/xlist"

	"verif/vkit"
)

// ---------------------------------------------------------------------------------------------
// Element types

type wide struct{ w [8]uint64 } // 64 bytes

type fat struct {
	p *int
	s string
}

var (
	fatInts [64]int
	fatStrs [64]string
)

func init() {
	for i := range fatInts {
		fatInts[i] = i
		fatStrs[i] = "value-" + strconv.Itoa(i)
	}
}

// valKind encodes a counter in a T and recognises it again.
type valKind[T any] struct {
	name string
	mk   func(c uint64) T
	is   func(v T, c uint64) bool
	show func(v T) string
}

var kindInt = valKind[int]{
	name: "int",
	mk:   func(c uint64) int { return int(c) },
	is:   func(v int, c uint64) bool { return v == int(c) },
	show: func(v int) string { return strconv.Itoa(v) },
}

var kindWide = valKind[wide]{
	name: "[8]uint64 struct (64 bytes)",
	mk: func(c uint64) wide {
		var v wide
		for i := range v.w {
			v.w[i] = c
		}
		return v
	},
	is: func(v wide, c uint64) bool {
		for i := range v.w {
			if v.w[i] != c {
				return false
			}
		}
		return true
	},
	show: func(v wide) string { return fmt.Sprint(v.w) },
}

var kindFat = valKind[fat]{
	name: "struct{p *int; s string}",
	mk:   func(c uint64) fat { return fat{p: &fatInts[c&63], s: fatStrs[c&63]} },
	is:   func(v fat, c uint64) bool { return v.p == &fatInts[c&63] && v.s == fatStrs[c&63] },
	show: func(v fat) string {
		if v.p == nil {
			return fmt.Sprintf("{p:nil s:%q}", v.s)
		}
		return fmt.Sprintf("{p:->%d s:%q}", *v.p, v.s)
	},
}

// ---------------------------------------------------------------------------------------------
// Statistics of the owner group

const (
	roleNode = iota // the node being moved / removed
	roleMark        // the mark of an insert or a move, or the end node a Push links to
	nRoles
)

var roleNames = [nRoles]string{"node", "mark/neighbour"}

type ownerStats struct {
	mu          sync.Mutex
	writes      int64
	overlapped  [nKinds][nRoles]int64 // owner writes that began and ended inside the library call
	announced   [nKinds][nRoles]int64
	acked       int64
	ops         [nKinds]int64
	rounds      int64
	byType      map[string]int64
	handedOver  int64
	structCheck int64
	emb         [nEmbeddings]int64
}

// ---------------------------------------------------------------------------------------------
// One owner goroutine

type ownerShared[T any] struct {
	give   chan *xlist.Node[T]
	hot    atomic.Pointer[xlist.Node[T]] // node the list goroutine is about to operate on (or nil)
	inOp   atomic.Bool                   // the library call on hot is running
	opTag  atomic.Int32                  // kind*nRoles + role of that call
	ack    atomic.Int64                  // bumped by the owner when it starts hammering hot
	stop   atomic.Bool
	failed atomic.Bool
}

type ownerLocal[T any] struct {
	last       map[*xlist.Node[T]]uint64
	recent     []*xlist.Node[T]
	writes     int64
	overlapped [nKinds][nRoles]int64
	received   int64
}

func runOwnerGoroutine[T any](c *vkit.Case, vk valKind[T], sh *ownerShared[T], id int, rnd *vkit.Rand, out *ownerLocal[T]) {
	lo := out
	lo.last = make(map[*xlist.Node[T]]uint64)
	receive := func(n *xlist.Node[T]) {
		lo.last[n] = 0
		lo.received++
		lo.recent = append(lo.recent, n)
		if len(lo.recent) > 12 {
			lo.recent = lo.recent[1:]
		}
	}
	drain := func() {
		for {
			select {
			case n := <-sh.give:
				receive(n)
			default:
				return
			}
		}
	}
	// step: the Value must still be what this owner wrote last; then write the next one.
	stepAt := func(n *xlist.Node[T], want uint64) bool {
		got := n.Value
		if !vk.is(got, want) {
			if !sh.failed.Swap(true) {
				c.Violation("value-touched", fmt.Sprintf("owner %d (not holding the list mutex) wrote Value #%d = %s into its node and later found %s: "+
					"the package modified (wrote back) a node's Value during a list operation (element type %s)",
					id, want, vk.show(vk.mk(want)), vk.show(got), vk.name),
					map[string]any{"element_type": vk.name, "owner": id, "last_written_counter": want, "found": vk.show(got),
						"list_op_in_progress": describeTag(sh.opTag.Load()), "in_library_call": sh.inOp.Load()})
			}
			sh.stop.Store(true)
			return false
		}
		n.Value = vk.mk(want + 1)
		lo.writes++
		return true
	}
	step := func(n *xlist.Node[T]) bool {
		want := lo.last[n]
		if !stepAt(n, want) {
			return false
		}
		lo.last[n] = want + 1
		return true
	}
	for !sh.stop.Load() {
		drain()
		h := sh.hot.Load()
		if h != nil {
			if _, mine := lo.last[h]; !mine {
				// The handle was sent before hot was stored; it is in the channel.
				drain()
				if _, mine = lo.last[h]; !mine {
					continue
				}
			}
			sh.ack.Add(1)
			cnt := lo.last[h]
			tag := sh.opTag.Load() // stored before hot
			var inside int64
			for i := 0; sh.hot.Load() == h && !sh.stop.Load(); i++ {
				pre := sh.inOp.Load()
				if !stepAt(h, cnt) {
					lo.last[h] = cnt
					return
				}
				cnt++
				if pre && sh.inOp.Load() && sh.hot.Load() == h {
					inside++
				}
				if i&255 == 255 {
					runtime.Gosched()
				}
			}
			lo.last[h] = cnt
			lo.overlapped[tag/nRoles][tag%nRoles] += inside
			continue
		}
		if len(lo.recent) > 0 {
			if !step(lo.recent[rnd.Intn(len(lo.recent))]) {
				return
			}
		} else {
			runtime.Gosched()
		}
	}
	drain()
}

func describeTag(tag int32) string {
	return fmt.Sprintf("%s (owner's node is the %s)", kindNames[tag/nRoles], roleNames[tag%nRoles])
}

// ---------------------------------------------------------------------------------------------
// One round

type oent[T any] struct {
	n     *xlist.Node[T]
	owner int
}

func ownerRound[T any](c *vkit.Case, vk valKind[T], nOwners, nOps int, ost *ownerStats) {
	rnd := c.Rand
	var M sync.Mutex // guards the list structure; the owners never take it
	emb := c.Index % nEmbeddings
	l := newListIn[T](emb) // rotating embeddings (embed.go)
	var model []oent[T]
	shared := make([]*ownerShared[T], nOwners)
	locals := make([]*ownerLocal[T], nOwners)
	var wg sync.WaitGroup
	for k := 0; k < nOwners; k++ {
		shared[k] = &ownerShared[T]{give: make(chan *xlist.Node[T], 64)}
		locals[k] = &ownerLocal[T]{}
		orand := rnd.Split()
		wg.Add(1)
		go func(k int) {
			defer wg.Done()
			runOwnerGoroutine(c, vk, shared[k], k, orand, locals[k])
		}(k)
	}
	stopAll := func() {
		for _, sh := range shared {
			sh.stop.Store(true)
		}
	}
	stopped := func() bool {
		for _, sh := range shared {
			if sh.stop.Load() {
				return true
			}
		}
		return false
	}
	var all []*xlist.Node[T]
	created := 0
	var localOps [nKinds]int64
	var announced [nKinds][nRoles]int64
	var acked int64
	target := rnd.Range(2, 7)
	failedStructure := ""

	pos := func(n int) int {
		switch x := rnd.Intn(8); {
		case x < 2:
			return 0
		case x < 4:
			return n - 1
		}
		return rnd.Intn(n)
	}

	for step := 0; step < nOps && !stopped(); step++ {
		n := len(model)
		// choose the op
		var o op
		switch x := rnd.Intn(100); {
		case n == 0:
			if x < 4 {
				o = op{opClear, -1, -1}
			} else if x < 52 {
				o = op{opPushFront, -1, -1}
			} else {
				o = op{opPushBack, -1, -1}
			}
		case x < 1:
			o = op{opClear, -1, -1}
		case (n <= target && x < 34) || (n > target && x < 12):
			switch rnd.Intn(4) {
			case 0:
				o = op{opPushFront, -1, -1}
			case 1:
				o = op{opPushBack, -1, -1}
			case 2:
				o = op{opInsertBefore, pos(n), -1}
			default:
				o = op{opInsertAfter, pos(n), -1}
			}
		case (n <= target && x < 58) || (n > target && x < 56):
			o = op{opRemove, pos(n), -1}
		default:
			switch rnd.Intn(6) {
			case 0:
				o = op{opMoveToFront, pos(n), -1}
			case 1:
				o = op{opMoveToBack, pos(n), -1}
			default:
				k := opMoveBefore
				if rnd.Bool(0.5) {
					k = opMoveAfter
				}
				j := pos(n)
				i := pos(n)
				switch y := rnd.Intn(10); {
				case y < 1:
					i = j
				case y < 4 && j > 0:
					i = j - 1
				case y < 7 && j < n-1:
					i = j + 1
				}
				o = op{k, i, j}
			}
		}
		// whose node is in the line of fire
		hotIdx, role := -1, roleNode
		switch o.k {
		case opRemove, opMoveToFront, opMoveToBack:
			hotIdx = o.i
		case opMoveBefore, opMoveAfter:
			hotIdx = o.i
			if rnd.Intn(4) == 0 {
				hotIdx, role = o.j, roleMark
			}
		case opInsertBefore, opInsertAfter:
			hotIdx, role = o.i, roleMark
		case opPushFront:
			if n > 0 {
				hotIdx, role = 0, roleMark
			}
		case opPushBack:
			if n > 0 {
				hotIdx, role = n-1, roleMark
			}
		}
		var sh *ownerShared[T]
		M.Lock()
		if hotIdx >= 0 {
			e := model[hotIdx]
			sh = shared[e.owner]
			a0 := sh.ack.Load()
			sh.opTag.Store(int32(int(o.k)*nRoles + role))
			sh.hot.Store(e.n)
			// Bounded wait for the owner to turn to this node. Never a verdict: without the
			// acknowledgement the operation simply goes ahead.
			for i := 0; i < 400 && sh.ack.Load() == a0 && !sh.stop.Load(); i++ {
				if i >= 100 {
					runtime.Gosched()
				}
			}
			announced[o.k][role]++
			if sh.ack.Load() != a0 {
				acked++
			}
			sh.inOp.Store(true)
		}
		var newNode *xlist.Node[T]
		var p *vkit.Panic
		switch o.k {
		case opPushFront:
			p = vkit.Try(func() { newNode = l.PushFront(vk.mk(0)) })
		case opPushBack:
			p = vkit.Try(func() { newNode = l.PushBack(vk.mk(0)) })
		case opInsertBefore:
			p = vkit.Try(func() { newNode = l.InsertBefore(vk.mk(0), model[o.i].n) })
		case opInsertAfter:
			p = vkit.Try(func() { newNode = l.InsertAfter(vk.mk(0), model[o.i].n) })
		case opRemove:
			p = vkit.Try(func() { l.Remove(model[o.i].n) })
		case opMoveBefore:
			p = vkit.Try(func() { l.MoveBefore(model[o.i].n, model[o.j].n) })
		case opMoveAfter:
			p = vkit.Try(func() { l.MoveAfter(model[o.i].n, model[o.j].n) })
		case opMoveToFront:
			p = vkit.Try(func() { l.MoveToFront(model[o.i].n) })
		case opMoveToBack:
			p = vkit.Try(func() { l.MoveToBack(model[o.i].n) })
		case opClear:
			p = vkit.Try(func() { l.Clear() })
		}
		if sh != nil {
			sh.inOp.Store(false)
			sh.hot.Store(nil)
		}
		localOps[o.k]++
		if p != nil {
			failedStructure = fmt.Sprintf("%s panicked: %s", o, p.Msg)
		}
		// the driver's model (positions only; same rules as the seq variant)
		if failedStructure == "" {
			switch o.k {
			case opPushFront, opPushBack, opInsertBefore, opInsertAfter:
				if newNode == nil {
					failedStructure = fmt.Sprintf("%s returned a nil handle", o)
					break
				}
				at := 0
				switch o.k {
				case opPushBack:
					at = n
				case opInsertBefore:
					at = o.i
				case opInsertAfter:
					at = o.i + 1
				}
				e := oent[T]{newNode, created % nOwners}
				created++
				all = append(all, newNode)
				model = append(model, oent[T]{})
				copy(model[at+1:], model[at:])
				model[at] = e
			case opRemove:
				model = append(model[:o.i], model[o.i+1:]...)
			case opMoveBefore, opMoveAfter, opMoveToFront, opMoveToBack:
				if (o.k == opMoveBefore || o.k == opMoveAfter) && o.i == o.j {
					break
				}
				e := model[o.i]
				to := 0
				switch o.k {
				case opMoveToBack:
					to = n - 1
				case opMoveBefore:
					to = o.j
					if o.j > o.i {
						to--
					}
				case opMoveAfter:
					to = o.j + 1
					if o.j > o.i {
						to--
					}
				}
				model = append(model[:o.i], model[o.i+1:]...)
				model = append(model, oent[T]{})
				copy(model[to+1:], model[to:])
				model[to] = e
			case opClear:
				model = model[:0]
			}
		}
		// links only (never Value): has the driver's picture of the list drifted?
		if failedStructure == "" && (step%16 == 0 || step == nOps-1) {
			ost.mu.Lock()
			ost.structCheck++
			ost.mu.Unlock()
			if l.Len() != len(model) {
				failedStructure = fmt.Sprintf("Len() = %d after %s, ideal sequence holds %d", l.Len(), o, len(model))
			}
			cur := l.Front()
			for k := 0; k < len(model) && failedStructure == ""; k++ {
				if cur != model[k].n {
					failedStructure = fmt.Sprintf("Front/Next walk differs from the ideal sequence at step %d after %s", k, o)
				} else {
					cur = cur.Next()
				}
			}
			if failedStructure == "" && cur != nil {
				failedStructure = fmt.Sprintf("Front/Next walk does not end after %d nodes after %s", len(model), o)
			}
			cur = l.Back()
			for k := len(model) - 1; k >= 0 && failedStructure == ""; k-- {
				if cur != model[k].n {
					failedStructure = fmt.Sprintf("Back/Prev walk differs from the ideal sequence at step %d after %s", len(model)-1-k, o)
				} else {
					cur = cur.Prev()
				}
			}
			if failedStructure == "" && cur != nil {
				failedStructure = fmt.Sprintf("Back/Prev walk does not end after %d nodes after %s", len(model), o)
			}
		}
		M.Unlock()
		if failedStructure != "" {
			break
		}
		// Hand the new node to its owner: the channel send orders the constructor's write of Value
		// before every access of the owner.
		if newNode != nil {
			osh := shared[model[indexOf(model, newNode)].owner]
		send:
			for {
				select {
				case osh.give <- newNode:
					break send
				default:
					if osh.stop.Load() {
						break send // the owner stopped after a violation
					}
					runtime.Gosched()
				}
			}
		}
	}
	stopAll()
	wg.Wait()

	if failedStructure != "" {
		c.Violation("owner-structure", "list structure wrong while owners update Values concurrently: "+failedStructure,
			map[string]any{"element_type": vk.name, "owners": nOwners})
	}
	// After the join everything is ordered: every Value must be the one its owner wrote last
	// (nodes still in a channel were never written by an owner: counter 0).
	touched := false
	for _, sh := range shared {
		if sh.failed.Load() {
			touched = true
		}
	}
	if !touched && failedStructure == "" {
		expect := make(map[*xlist.Node[T]]uint64)
		for _, lo := range locals {
			for n, v := range lo.last {
				expect[n] = v
			}
		}
		for _, n := range all {
			if want := expect[n]; !vk.is(n.Value, want) {
				c.Violation("value-touched", fmt.Sprintf("after all goroutines joined, a node's Value is %s, its owner wrote #%d = %s last (element type %s)",
					vk.show(n.Value), want, vk.show(vk.mk(want)), vk.name), map[string]any{"element_type": vk.name, "owners": nOwners})
				break
			}
		}
	}

	ost.mu.Lock()
	defer ost.mu.Unlock()
	ost.rounds++
	ost.emb[emb]++
	ost.byType[vk.name]++
	ost.acked += acked
	for k := range localOps {
		ost.ops[k] += localOps[k]
		for r := 0; r < nRoles; r++ {
			ost.announced[k][r] += announced[k][r]
		}
	}
	for _, lo := range locals {
		ost.writes += lo.writes
		ost.handedOver += lo.received
		for k := range lo.overlapped {
			for r := 0; r < nRoles; r++ {
				ost.overlapped[k][r] += lo.overlapped[k][r]
			}
		}
	}
}

func indexOf[T any](model []oent[T], n *xlist.Node[T]) int {
	for i, e := range model {
		if e.n == n {
			return i
		}
	}
	panic("monitor bug: new node not in the model")
}

// ---------------------------------------------------------------------------------------------

func runOwner(r *vkit.Report) {
	r.SetRule("variant owner: case = one round (element type, 1 or 2 owner goroutines, one seeded history of list operations under the list mutex " +
		"while the owners, without that mutex, count in the Value of their nodes and verify every previous write). " +
		"evaluations = owner verifications (one per owner write) + final per-node comparisons are not counted. " +
		"non-trivial/distinct = (element type, operation kind, role of the owner's node in that operation) cells in which at least one owner write " +
		"began and ended inside the library call on that very node.")
	r.Assume("Node.Value is user-controlled and never modified by the package (doc on Node.Value): its owner may write it without the lock that guards the list order")
	r.Assume("the list structure (links, Len, ends) is only used under one mutex; owners touch nothing but Value")
	r.SetExhaustive(false)
	ost := &ownerStats{byType: make(map[string]int64)}
	rounds := r.Scale(100, 300)
	nOps := r.Scale(2500, 6000)
	perType := make(map[string]*[nKinds][nRoles]int64)
	r.Cases("owner", rounds, 1, func(c *vkit.Case) {
		nOwners := 1 + (c.Index/3)%2
		before := ost.overlapped
		var name string
		switch c.Index % 3 {
		case 0:
			name = kindInt.name
			ownerRound(c, kindInt, nOwners, nOps, ost)
		case 1:
			name = kindWide.name
			ownerRound(c, kindWide, nOwners, nOps, ost)
		default:
			name = kindFat.name
			ownerRound(c, kindFat, nOwners, nOps, ost)
		}
		pt := perType[name]
		if pt == nil {
			pt = new([nKinds][nRoles]int64)
			perType[name] = pt
		}
		for k := range pt {
			for ro := 0; ro < nRoles; ro++ {
				pt[k][ro] += ost.overlapped[k][ro] - before[k][ro]
			}
		}
		r.Count("owner: rounds by owners", fmt.Sprintf("%d owner goroutine(s)", nOwners), 1)
		if r.WantSample() && c.Index < 3 {
			r.Sample(map[string]any{"group": "owner", "case": c.ID(), "element_type": name, "owner_goroutines": nOwners, "list_ops": nOps})
		}
	})
	r.Eval(int(ost.writes))
	var ovMove, ovRemove, ovAll int64
	for k := opKind(0); k < nKinds; k++ {
		r.Count("owner: list ops", kindNames[k], int(ost.ops[k]))
		for ro := 0; ro < nRoles; ro++ {
			if ost.announced[k][ro] > 0 {
				key := kindNames[k] + ", owner's node is the " + roleNames[ro]
				r.Count("owner: writes that began and ended inside the library call on the same node", key, int(ost.overlapped[k][ro]))
				r.Count("owner: library calls announced to the owner of the node", key, int(ost.announced[k][ro]))
			}
			ovAll += ost.overlapped[k][ro]
		}
		switch k {
		case opMoveBefore, opMoveAfter, opMoveToFront, opMoveToBack:
			ovMove += ost.overlapped[k][roleNode]
		case opRemove:
			ovRemove += ost.overlapped[k][roleNode]
		}
	}
	for name, pt := range perType {
		r.Count("owner: rounds by element type", name, int(ost.byType[name]))
		for k := range pt {
			for ro := 0; ro < nRoles; ro++ {
				if pt[k][ro] > 0 {
					r.Distinct(fmt.Sprintf("owner|%s|%s|%s", name, kindNames[k], roleNames[ro]))
				}
			}
		}
	}
	r.Count("owner: totals", "owner writes (each verified the previous one)", int(ost.writes))
	r.Count("owner: totals", "nodes handed to an owner", int(ost.handedOver))
	r.Count("owner: totals", "announcements acknowledged by the owner before the call", int(ost.acked))
	r.Count("owner: totals", "link-only structure checks", int(ost.structCheck))
	for x, v := range ost.emb {
		r.Count("owner: rounds by how the list is held", embeddingNames[x], int(v))
	}
	r.Count("owner: totals", "GOMAXPROCS", runtime.GOMAXPROCS(0))
	race := int64(0)
	if vkit.RaceEnabled {
		race = 1
	}
	r.Floor("owner: binary built with the race detector", race, 1)
	r.Floor("owner: owner writes inside a Move* of the same node", ovMove, 1000)
	r.Floor("owner: owner writes inside a Remove of the same node", ovRemove, 1000)
	r.Floor("owner: rounds", ost.rounds, int64(rounds))
}
