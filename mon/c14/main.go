// C14 — parallel.MapIterator / parallel.MapStream keep order, bound the buffer, never deadlock.
//
// Oracle (history checker, all observations at the public API):
//   - the k-th value that comes out is f(source[k]) (source values are a random permutation, so a
//     missing, duplicated or reordered output shows as a wrong value), and End / false comes exactly
//     after len results when nothing failed;
//   - ONLINE in-flight bound, checked inside the instrumented source at every pull:
//     taken - nextStarted <= max(bufferSize,0) + parallelism + 1 (argument values; parallelism <= 0
//     means GOMAXPROCS). nextStarted (consumer Next calls begun) is an upper bound on the items
//     yielded, so the check can only under-report;
//   - "never blocks forever" is decided by vkit.Await's goroutine-dump quiescence verdict only. Every
//     scenario runs on its own root goroutine; only that goroutine and the goroutines it created (the
//     library's) are looked at, so cases can run side by side;
//   - MapStream: the first non-context error must be one that the source or a call of f actually
//     returned (errors.Is against the injected values, and the probe must have handed it out); a
//     bare context.Canceled when the caller cancelled nothing is a violation; no result for a failed
//     index; results before the error are the correct prefix; a per-call context that expires
//     yields ctx.Err() and loses nothing; Close at any moment returns, and afterwards the f gauge
//     is 0, no f starts, no goroutine with a parallel.MapStream frame created by the scenario is
//     alive, the source was closed exactly once and saw no Next after / during its Close.
//
// Source behaviours: plain (instant / small delays, honouring ctx or not); failing after p items;
// blocking in Next until its ctx is done after k items (a pipe with nothing to deliver) while f
// fails on a handed-out item, or while Close is called; consumer-dependent (pull m returns only
// once the consumer has received need(m) <= m results: "lag d" need = m-d, "wave w" need =
// (m/w)*w, a work list fed by the consumer — always satisfiable by a correct implementation
// because those results only need items < m). A small scope is enumerated on top of the random
// cases: len 3..4 (5 in thorough; 5..6 sampled) x every wanted completion order of f (gates: f(i)
// returns after rank(i) other calls completed, with a pause as fall-back when those cannot be
// running) x parallelism 2..3 x bufferSize 0..2 x {lag 0,1,2, wave 2,3}, so that results sit in the
// reorder heap while the source waits for the consumer.
// Group "procs": runtime.GOMAXPROCS(g) for g in {1, 2, 3, inherited/2} is called inside the process
// (restored afterwards; the group runs alone and sequentially), then MapIterator / MapStream run
// with parallelism in {0, -1} x bufferSize in {-3, 0, 1} on 80..140 items with a straggler at 0
// or late-first latency and a slow consumer; the in-flight bound and the f-concurrency gauge are
// judged against the GOMAXPROCS value in force at the call.
// Group "extreme": MapIterator with bufferSize in {MaxInt, MaxInt-1, MaxInt-parallelism, MaxInt/2,
// 1<<40} x parallelism in {1, 3, 8, 0, -1} on short inputs (the stated bound saturates at MaxInt).
// Group "dense": >= 60 000 tiny MapStream runs per quick run (batches of 400 under one Await, several
// goroutines): parallelism 1 (80%) or 2, bufferSize 0/1/4, a source that never blocks (returns at
// once, or polls its ctx a swept 0..240 times per item), f failing at a random item; the reported
// error must be f's own (never End, never a context error the library made).
// Group "flip" (alone, sequential): built with parallelism in {0, -1} under GOMAXPROCS(g1), then
// GOMAXPROCS(g2) is called after k in {0, 1, n/2, n-1} results or toggled continuously by a
// goroutine outside the scenario (2->8, 8->2, 1->4, 4->1, 3->16); all oracles, bounds judged
// against max(g1, g2).
// Injected error VALUES (source and f): a sentinel, context.Canceled itself, a wrapped
// context.Canceled, context.DeadlineExceeded, an error wrapping stream.End, an error whose Is
// method matches stream.End. The reported error must be the injected one (errors.Is(reported,
// injected), compared before any "bare context error" judgement) and End is recognised by == only.
//
// Deliberately NOT demanded (the statement leaves these open): how many of the results that precede
// an error are delivered; which of several errors is reported; anything about Next calls after the
// first error; how often f is invoked per item (recorded only); behaviour after the caller cancels
// the construction context beyond "correct prefix, then End only after all items, or an error that
// is an injected one or context.Canceled".
package main

import (
	"context"
	"errors"
	"fmt"
	"math"
	"runtime"
	"strconv"
	"strings"
	"sync"
	"sync/atomic"
	"time"

	"github.com/bradenaw/juniper/iterator"
	"github.com/bradenaw/juniper/parallel"
	"github.com/bradenaw/juniper/stream"

	"verif/vkit"
)

var (
	lens = []int{0, 1, 5, 50, 400}
	pars = []int{-1, 1, 2, 4, 16}
	bufs = []int{-3, 0, 1, 2, 8, 64}
)

const gridCells = 5 * 5 * 6

// Error values injected into the source and into f (the VALUE is a dimension of the workload: the
// library must hand it through untouched whatever it looks like).
var errKinds = []string{"sentinel", "context.Canceled", "wrapped context.Canceled", "context.DeadlineExceeded", "wraps stream.End", "Is(stream.End)"}

// endLike is an error whose Is method claims to be stream.End.
type endLike struct{ what string }

func (e *endLike) Error() string        { return e.what }
func (e *endLike) Is(target error) bool { return target == stream.End }

func mkErr(kind int, what string) error {
	switch kind {
	case 1:
		return context.Canceled
	case 2:
		return fmt.Errorf("%s: %w", what, context.Canceled)
	case 3:
		return context.DeadlineExceeded
	case 4:
		return fmt.Errorf("%s: %w", what, stream.End)
	case 5:
		return &endLike{what}
	}
	return errors.New(what)
}

func main() {
	vkit.Main("C14", "exploration", func(r *vkit.Report) {
		r.SetRule("case = one run of MapIterator or MapStream on a tuple (api, length, parallelism, bufferSize, f-latency pattern, " +
			"consumer pace, fault plan [none | f fails at given indices | source fails after p items | both | Close after k results with f " +
			"ignoring / honouring / blocking on its context | caller cancels the construction context | source blocks in Next until ctx done " +
			"after k items while f fails on a handed-out item | same with Close], source consumer-dependent or not (pull m waits for m-d received results), per-call context expiry on/off); " +
			"the (length, parallelism, bufferSize) grid of 150 cells is enumerated by case index, the rest is drawn from the seed; " +
			"parallelism -1 counts once per GOMAXPROCS value it resolved to. The injected error value kind (6 kinds) and the source's " +
			"consumer-dependency model are part of the tuple. Plus the enumerated small scope: (api, len 3..4 [5 in thorough], wanted completion " +
			"permutation of f, parallelism 2..3, bufferSize 0..2, source model in {lag 0,1,2, wave 2,3}), and sampled len 5..6. " +
			"non-trivial = the source had >= 2 items (order can matter); distinct = by the tuple with fault / close positions bucketed " +
			"into {0, 1, middle, len-1, len}. Cases with < 2 items are run and judged but not counted.")
		r.Assume("f is a pure function of the item and the source hands out each item once (both are the monitor's own)")
		r.Assume("parallelism <= 0 means runtime.GOMAXPROCS at the time of the call; GOMAXPROCS changes only where the monitor changes it itself (group \"procs\", which runs alone, sequentially, after all other groups)")
		r.Assume("the goroutine dump format of the Go runtime in use (go1.23) — used for the STUCK verdict and the leak check")

		// The 32-bit variant (thorough only) runs everything at quick-tier sizes.
		thorough := r.Thorough() && !r.VariantHas("386")
		scale := func(quick, many int) int {
			if thorough {
				return many
			}
			return quick
		}
		nIter := scale(900, 2300)
		nStream := scale(2400, 5800)
		workers := 4
		if runtime.GOMAXPROCS(0) < 4 {
			workers = 2
		}
		st := &stats{orders: make(map[uint64]struct{})}
		r.Cases("iter", nIter, workers, func(c *vkit.Case) { runPlan(c, mkPlan(c, "iter"), st) })
		r.Cases("stream", nStream, workers, func(c *vkit.Case) { runPlan(c, mkPlan(c, "stream"), st) })

		// Small scope, enumerated: every wanted completion order of f x parallelism x bufferSize x
		// consumer-dependent source model (so that results sit in the reorder heap while the
		// source waits for the consumer).
		small := smallSpecs(thorough)
		nRand := scale(150, 600)
		for _, api := range []string{"iter", "stream"} {
			api := api
			r.Cases("small-"+api, len(small), workers, func(c *vkit.Case) { runPlan(c, mkSmallPlan(c.Rand, api, small[c.Index]), st) })
			r.Cases("small-rand-"+api, nRand, workers, func(c *vkit.Case) {
				sp := smallSpec{n: 5 + c.Rand.Intn(2), par: 2 + c.Rand.Intn(2), buf: c.Rand.Intn(3), model: c.Rand.Intn(len(smallModels))}
				sp.perm = c.Rand.Perm(sp.n)
				runPlan(c, mkSmallPlan(c.Rand, api, sp), st)
			})
		}

		// Extreme bufferSize values (MapIterator only: MapStream allocates channels of capacity
		// bufferSize, so it cannot be called with them on any tree).
		var ext []extSpec
		for rep := 0; rep < scale(2, 8); rep++ {
			for _, par := range []int{1, 3, 8, 0, -1} {
				for bk := 0; bk < 5; bk++ {
					ext = append(ext, extSpec{par: par, bk: bk})
				}
			}
		}
		r.Cases("extreme", len(ext), workers, func(c *vkit.Case) { runPlan(c, mkExtremePlan(c.Rand, ext[c.Index]), st) })

		// Dense: very many tiny MapStream runs in which f fails while the sender goroutine is busy
		// (never parked): the reported error must be f's, never a cancellation made by the library.
		nDense := scale(160, 320)
		tDense := time.Now()
		r.Cases("dense", nDense, 2*workers, func(c *vkit.Case) { runDense(c, denseBatch) })
		r.SetExtra("dense_group_wall_s", time.Since(tDense).Seconds())

		// GOMAXPROCS changed inside the process: "parallelism <= 0 means GOMAXPROCS" is judged against
		// the value in force when MapIterator / MapStream is called. GOMAXPROCS is process-global, so
		// this group runs alone, one case at a time, after everything above has finished, and every
		// case restores the inherited value.
		inherited := runtime.GOMAXPROCS(0)
		procsVals := []int{1, 2, 3}
		if h := inherited / 2; h > 3 {
			procsVals = append(procsVals, h)
		}
		var procs []procsSpec
		for rep := 0; rep < scale(1, 3); rep++ {
			for _, g := range procsVals {
				for _, api := range []string{"iter", "stream"} {
					for _, par := range []int{0, -1} {
						for _, buf := range []int{-3, 0, 1} {
							procs = append(procs, procsSpec{api: api, g: g, par: par, buf: buf, shape: (len(procs) + rep) % 2})
						}
					}
				}
			}
		}
		r.Cases("procs", len(procs), 1, func(c *vkit.Case) {
			sp := procs[c.Index]
			old := runtime.GOMAXPROCS(sp.g)
			defer runtime.GOMAXPROCS(old)
			runPlan(c, mkProcsPlan(c.Rand, sp), st)
		})

		// GOMAXPROCS changed WHILE an iterator / stream built with parallelism <= 0 is alive (after k
		// results, or continuously by a toggler goroutine): the number of workers and everything
		// derived from it was fixed when it was built. Runs alone, one case at a time.
		var flips []flipSpec
		for rep := 0; rep < scale(1, 2); rep++ {
			for _, gg := range [][2]int{{2, 8}, {8, 2}, {1, 4}, {4, 1}, {3, 16}} {
				for _, api := range []string{"iter", "stream"} {
					for _, par := range []int{0, -1} {
						for _, n := range []int{6, 40} {
							for _, at := range []int{0, 1, n / 2, n - 1, -1} {
								flips = append(flips, flipSpec{api: api, g1: gg[0], g2: gg[1], par: par, n: n, at: at, buf: []int{-3, 0, 2}[len(flips)%3]})
							}
						}
					}
				}
			}
		}
		tFlip := time.Now()
		defer func() { r.SetExtra("flip_group_wall_s", time.Since(tFlip).Seconds()) }()
		r.Cases("flip", len(flips), 1, func(c *vkit.Case) {
			sp := flips[c.Index]
			old := runtime.GOMAXPROCS(sp.g1)
			defer runtime.GOMAXPROCS(old)
			runPlan(c, mkFlipPlan(c.Rand, sp), st)
		})

		st.mu.Lock()
		r.SetExtra("distinct_completion_orders", len(st.orders))
		st.mu.Unlock()
		if r.NViolations() == 0 {
			r.Floor("MapIterator cases completed", r.Table("cases", "iter"), int64(nIter))
			r.Floor("MapStream cases completed", r.Table("cases", "stream"), int64(nStream))
			r.Floor("grid cells (length x parallelism x bufferSize) run with MapIterator", int64(st.cells("iter")), gridCells)
			r.Floor("grid cells (length x parallelism x bufferSize) run with MapStream", int64(st.cells("stream")), gridCells)
			for _, m := range []string{"none", "ferr", "serr", "both", "close", "outer", "blockferr", "blockclose"} {
				r.Floor("MapStream cases with fault plan "+m, r.Table("stream plan", m), 20)
			}
			for _, m := range []string{"ignore", "honour", "block"} {
				r.Floor("Close-after-k cases with f ctx mode "+m, r.Table("close f-mode", m), 10)
			}
			r.Floor("cases in which taken - nextStarted reached the implementation's limit", r.Table("in-flight", "reached max(buffer,parallelism)+1"), 20)
			r.Floor("cases in which f completions were out of source order", r.Table("reorder", "cases with out-of-order completion"), 50)
			r.Floor("Next calls that returned the per-call context's error", r.Table("ctx expiry", "Next returned ctx.Err()"), 20)
			r.Floor("Close calls made while an f was running", r.Table("close", "f running when Close was called"), 20)
			r.Floor("MapIterator cases in which the source really waited for the consumer", r.Table("consumer-dependent source", "iter cases with a real wait"), 20)
			r.Floor("MapStream cases in which the source really waited for the consumer", r.Table("consumer-dependent source", "stream cases with a real wait"), 20)
			r.Floor("f failed while the source was blocked in Next until ctx done", r.Table("blocking source", "cases in which the source blocked until its ctx was done (blockferr)"), 20)
			r.Floor("Close while the source was blocked in Next until ctx done", r.Table("blocking source", "cases in which the source blocked until its ctx was done (blockclose)"), 10)
			r.Floor("enumerated small cases (completion order x parallelism x bufferSize x source model), MapIterator", r.Table("cases", "small-iter"), int64(len(small)))
			r.Floor("enumerated small cases (completion order x parallelism x bufferSize x source model), MapStream", r.Table("cases", "small-stream"), int64(len(small)))
			r.Floor("small cases in which the source waited for the consumer while f completed out of order", r.Table("consumer-dependent source", "iter cases with a real wait and out-of-order completion")+r.Table("consumer-dependent source", "stream cases with a real wait and out-of-order completion"), 100)
			for _, k := range errKinds {
				r.Floor("source errors surfaced with value kind "+k, r.Table("surfaced error value", "source: "+k), 5)
				r.Floor("f errors surfaced with value kind "+k, r.Table("surfaced error value", "f: "+k), 5)
			}
			r.Floor("cases run after runtime.GOMAXPROCS(g) was changed in this process", r.Table("cases", "procs"), int64(len(procs)))
			r.Floor("such cases in which taken - nextStarted reached the implementation's limit", r.Table("procs", "in-flight reached max(buffer,GOMAXPROCS)+1"), int64(len(procs)/4))
			r.Floor("MapIterator cases with an extreme bufferSize", r.Table("cases", "extreme"), int64(len(ext)))
			r.Floor("dense tiny MapStream runs (f fails while the sender is busy)", r.Table("dense", "streams"), int64(nDense*denseBatch))
			r.Floor("dense runs in which f's own error surfaced", r.Table("dense", "f's error surfaced"), int64(nDense*denseBatch))
			r.Floor("dense runs at parallelism 1", r.Table("dense", "parallelism 1"), int64(nDense*denseBatch/2))
			r.Floor("cases in which GOMAXPROCS was changed while the iterator / stream was alive", r.Table("cases", "flip"), int64(len(flips)))
			r.Floor("errors surfaced that f returned", r.Table("stream error", "from f"), 20)
			r.Floor("errors surfaced that the source returned", r.Table("stream error", "from source"), 20)
		}
	})
}

// ---------------------------------------------------------------------------------------------
// Plans

type plan struct {
	API      string `json:"api"`
	N        int    `json:"len"`
	Par      int    `json:"parallelism"`
	Buf      int    `json:"bufferSize"`
	Lat      string `json:"latency"`
	Pace     string `json:"pace"`
	Mode     string `json:"plan"`
	FailAt   []int  `json:"f_fails_at,omitempty"`
	SrcErrAt int    `json:"source_fails_after"` // -1: never
	CloseAt  int    `json:"close_after"`        // -1: consume to End / error
	FMode    string `json:"f_ctx_mode"`         // ignore | honour | block (block: indices >= CloseAt wait for ctx.Done())
	OuterAt  int    `json:"outer_cancel_after"` // -1: never
	Expiry   bool   `json:"ctx_expiry"`
	SrcCtx   bool   `json:"source_honours_ctx"`
	Strag    int    `json:"straggler"` // -1: none
	// A consumer-dependent source: its pull number m (0-based) only returns once the consumer has
	// received need(m) <= m results (always satisfiable: those results only need items < m).
	// Dep "lag": need(m) = m-DepK. Dep "wave": need(m) = (m/DepK)*DepK, i.e. the items come in
	// waves of DepK and a wave is only submitted after every result of the earlier waves was
	// received (a request-response / consumer-fed work list).
	Dep  string `json:"source_depends_on_consumer,omitempty"`
	DepK int    `json:"source_dependency_k"`
	// Value kinds of the injected errors (index into errKinds).
	SrcErrKind string `json:"source_error_value,omitempty"`
	FErrKind   string `json:"f_error_value,omitempty"`
	Perm       []int  `json:"f_completion_order_wanted,omitempty"`
	// Procs > 0: the case runs after runtime.GOMAXPROCS(Procs) was called in this process.
	Procs int `json:"gomaxprocs_set_in_process,omitempty"`
	// G2 > 0: built under GOMAXPROCS(G1); GOMAXPROCS(G2) is called after FlipAt results were
	// received (FlipAt < 0: a goroutine toggles between G1 and G2 all the time).
	G1     int `json:"gomaxprocs_when_built,omitempty"`
	G2     int `json:"gomaxprocs_changed_to,omitempty"`
	FlipAt int `json:"gomaxprocs_changed_after_results,omitempty"`
	// SrcBlockAt >= 0: after that many items the source's Next blocks until its ctx is done.
	SrcBlockAt int `json:"source_blocks_after"`
	P          int `json:"effective_parallelism"`
	Bound      int `json:"bound"`

	vals     []int
	inv      []int
	lat      []int32 // per index, µs
	fail     []bool
	errF     []error
	errSrcV  error
	rank     []int   // small scope: wanted completion rank per index (nil otherwise)
	srcLat   []int32 // per pull (cyclic), µs
	paceLat  []int32 // per result (cyclic), µs
	ctxMode  []uint8 // per Next ordinal (cyclic): 0 live, 1 already cancelled, 2.. timeout
	stragEx  int32
	beff     int
	lim      int // beff+1 (saturating): the most the implementation lets taken run ahead of yielded
	gateGoal int64
}

func fval(x int) int { return 3*x + 1 }

// satAdd is a+b for a, b >= 0, saturating at math.MaxInt.
func satAdd(a, b int) int {
	if a > math.MaxInt-b {
		return math.MaxInt
	}
	return a + b
}

func imax(a, b int) int {
	if a > b {
		return a
	}
	return b
}
func imin(a, b int) int {
	if a < b {
		return a
	}
	return b
}

// need is the number of received results pull number m of a consumer-dependent source waits for.
func (pl *plan) need(m int) int {
	switch pl.Dep {
	case "lag":
		return m - pl.DepK
	case "wave":
		return (m / pl.DepK) * pl.DepK
	}
	return 0
}

func basePlan(rnd *vkit.Rand, api string, n, par, buf int) *plan {
	pl := &plan{API: api, N: n, Par: par, Buf: buf, SrcErrAt: -1, CloseAt: -1, OuterAt: -1, Strag: -1, SrcBlockAt: -1, FMode: "ignore", Mode: "none", Lat: "zero", Pace: "fast"}
	pl.P = pl.Par
	if pl.P <= 0 {
		pl.P = runtime.GOMAXPROCS(0)
	}
	pl.beff = imax(pl.Buf, pl.P)
	pl.lim = satAdd(pl.beff, 1)
	pl.Bound = satAdd(imax(pl.Buf, 0), pl.P+1)
	pl.vals = rnd.Perm(n)
	pl.inv = make([]int, n)
	for i, v := range pl.vals {
		pl.inv[v] = i
	}
	pl.fail = make([]bool, n)
	pl.errF = make([]error, n)
	pl.lat = make([]int32, n)
	pl.srcLat = make([]int32, 37)
	pl.paceLat = make([]int32, 41)
	pl.ctxMode = make([]uint8, 64)
	return pl
}

func (pl *plan) setFail(j, kind int) {
	if pl.fail[j] {
		return
	}
	pl.fail[j] = true
	pl.errF[j] = mkErr(kind, fmt.Sprintf("verif: injected f error at index %d", j))
	pl.FailAt = append(pl.FailAt, j)
	pl.FErrKind = errKinds[kind]
}

// Small enumerated scope.

type smallSpec struct {
	n, par, buf, model int
	perm               []int // perm[k] = index whose f should finish k-th
}

var smallModels = []struct {
	dep string
	k   int
}{{"lag", 0}, {"lag", 1}, {"lag", 2}, {"wave", 2}, {"wave", 3}}

func perms(n int) [][]int {
	var out [][]int
	var rec func(cur []int, used int)
	rec = func(cur []int, used int) {
		if len(cur) == n {
			out = append(out, append([]int(nil), cur...))
			return
		}
		for i := 0; i < n; i++ {
			if used&(1<<i) == 0 {
				rec(append(cur, i), used|1<<i)
			}
		}
	}
	rec(nil, 0)
	return out
}

func smallSpecs(thorough bool) []smallSpec {
	var out []smallSpec
	for _, n := range []int{3, 4} {
		for _, pm := range perms(n) {
			for par := 2; par <= 3; par++ {
				for buf := 0; buf <= 2; buf++ {
					for m := range smallModels {
						out = append(out, smallSpec{n, par, buf, m, pm})
					}
				}
			}
		}
	}
	if thorough {
		for i, pm := range perms(5) {
			for par := 2; par <= 3; par++ {
				for buf := 0; buf <= 2; buf++ {
					out = append(out, smallSpec{5, par, buf, (i + par + buf) % len(smallModels), pm})
				}
			}
		}
	}
	return out
}

func mkSmallPlan(rnd *vkit.Rand, api string, sp smallSpec) *plan {
	pl := basePlan(rnd, api, sp.n, sp.par, sp.buf)
	pl.Lat = "perm"
	pl.Perm = sp.perm
	// Completion order by gates: f(idx) returns only after rank[idx] other calls have completed
	// (or, when those cannot be running yet, after a pause that grows with the rank).
	pl.rank = make([]int, sp.n)
	for rank, idx := range sp.perm {
		pl.rank[idx] = rank
	}
	pl.Dep, pl.DepK = smallModels[sp.model].dep, smallModels[sp.model].k
	pl.SrcCtx = true
	return pl
}

// Extreme bufferSize.

type extSpec struct{ par, bk int }

func mkExtremePlan(rnd *vkit.Rand, sp extSpec) *plan {
	p := sp.par
	if p <= 0 {
		p = runtime.GOMAXPROCS(0)
	}
	huge := math.MaxInt/2 + 1
	if strconv.IntSize == 64 {
		huge = 1 << (strconv.IntSize/2 + 8) // 1<<40; written so that it also compiles where int has 32 bits
	}
	buf := []int{math.MaxInt, math.MaxInt - 1, math.MaxInt - p, math.MaxInt / 2, huge}[sp.bk]
	pl := basePlan(rnd, "iter", vkit.Pick(rnd, []int{0, 1, 2, 5, 17, 40}), sp.par, buf)
	pl.Lat = "rev"
	pl.Mode = "extreme-buffer"
	for i := range pl.lat {
		pl.lat[i] = int32((3 - i%4) * 60)
	}
	if rnd.Bool(0.5) {
		pl.Pace = "slow"
		for i := range pl.paceLat {
			pl.paceLat[i] = int32(rnd.Intn(80))
		}
	}
	if rnd.Bool(0.3) {
		pl.Dep, pl.DepK = "wave", 2+rnd.Intn(3)
	}
	return pl
}

// Dense tiny MapStream runs.

const denseBatch = 400

type denseSpec struct {
	Par  int    `json:"parallelism"`
	Buf  int    `json:"bufferSize"`
	N    int    `json:"len"`
	P    int    `json:"f_fails_at"`
	Spin int    `json:"source_spin_iterations_per_item"`
	Kind string `json:"f_error_value"`
	kind int
}

// denseSrc never blocks: it returns its items at once, or after Spin polls of its context.
type denseSrc struct {
	n, pos, spin int
	closes       atomic.Int32
	ctxErrs      atomic.Int32
}

func (s *denseSrc) Next(ctx context.Context) (int, error) {
	for i := 0; i < s.spin; i++ {
		if err := ctx.Err(); err != nil {
			s.ctxErrs.Add(1)
			return 0, err
		}
	}
	if s.pos >= s.n {
		return 0, stream.End
	}
	x := s.pos
	s.pos++
	return x, nil
}

func (s *denseSrc) Close() { s.closes.Add(1) }

// denseOne runs one tiny stream; it returns the number of comparisons and a violation, if any.
func denseOne(sp denseSpec) (evals int, v *viol) {
	e := mkErr(sp.kind, "verif: injected f error (dense)")
	var fRet atomic.Bool
	src := &denseSrc{n: sp.N, spin: sp.Spin}
	var final error
	got := 0
	pn := vkit.Try(func() {
		s := parallel.MapStream[int, int](context.Background(), src, sp.Par, sp.Buf, func(ctx context.Context, x int) (int, error) {
			if x == sp.P {
				fRet.Store(true)
				return 0, e
			}
			return fval(x), nil
		})
		for {
			x, err := s.Next(context.Background())
			evals++
			if err != nil {
				final = err
				break
			}
			if got >= sp.P || x != fval(got) {
				v = &viol{"output-order", fmt.Sprintf("MapStream result #%d is %d, want f(%d) = %d and nothing at or beyond the failing item %d", got, x, got, fval(got), sp.P), nil}
				break
			}
			got++
		}
		s.Close()
	})
	switch {
	case pn != nil:
		return evals, &viol{"panic", "MapStream panicked: " + pn.Msg, map[string]any{"stack": pn.Stack}}
	case v != nil:
		return evals, v
	case final == stream.End:
		return evals, &viol{"error-lost", fmt.Sprintf("MapStream reported End after %d results although f fails at item %d", got, sp.P), nil}
	case !(errors.Is(final, e) && fRet.Load()):
		sig := "foreign-error"
		if errors.Is(final, context.Canceled) || errors.Is(final, context.DeadlineExceeded) {
			sig = "bare-context-error"
		}
		return evals, &viol{sig, fmt.Sprintf("MapStream Next reported %q after %d results; f failed at item %d with %q (returned: %v) and the caller cancelled nothing (the source returned its ctx.Err() %d times)",
			final.Error(), got, sp.P, e.Error(), fRet.Load(), src.ctxErrs.Load()), nil}
	}
	evals++
	if c := src.closes.Load(); c != 1 {
		return evals, &viol{"close-source-closes", fmt.Sprintf("after MapStream Close returned, the source had been closed %d times (want exactly 1)", c), nil}
	}
	return evals, nil
}

func runDense(c *vkit.Case, batch int) {
	rep := c.R
	if rep.NViolations() >= 3 {
		return
	}
	rnd := c.Rand
	specs := make([]denseSpec, batch)
	for i := range specs {
		sp := &specs[i]
		sp.Par = 1
		if rnd.Bool(0.2) {
			sp.Par = 2
		}
		sp.Buf = vkit.Pick(rnd, []int{0, 1, 4})
		sp.P = rnd.Intn(6)
		sp.N = sp.P + 2 + rnd.Intn(3)
		if rnd.Bool(0.75) { // swept: the sender has to be busy for about as long as f takes to fail
			sp.Spin = ((c.Index*batch + i) % 61) * 4
		}
		if rnd.Bool(0.3) {
			sp.kind = rnd.Intn(len(errKinds))
		}
		sp.Kind = errKinds[sp.kind]
	}
	var rootID, cur atomic.Int64
	var v *viol
	evals, nPar1 := 0, 0
	done := make(chan struct{})
	go func() {
		defer close(done)
		root := gid()
		rootID.Store(int64(root))
		for i := range specs {
			cur.Store(int64(i))
			n, vv := denseOne(specs[i])
			evals += n
			if vv != nil {
				v = vv
				return
			}
			if specs[i].Par == 1 {
				nPar1++
			}
		}
		left := vkit.WaitNoGoroutine(func(g vkit.G) bool {
			return createdIn(g) == root && g.Has("juniper/parallel.MapStream")
		}, 300*time.Millisecond, 60*time.Millisecond)
		if len(left) > 0 {
			v = &viol{"close-goroutine-alive", fmt.Sprintf("after %d tiny MapStream runs were closed, %d parallel.MapStream goroutines are still parked", len(specs), len(left)), map[string]any{"goroutines": clip(left[0].Raw, 3000)}}
		}
	}()
	verdict, dump := vkit.Await(done, vkit.AwaitOpts{
		Relevant: func(g vkit.G) bool {
			id := int(rootID.Load())
			return id != 0 && (g.ID == id || createdIn(g) == id)
		},
		Soft: 3 * time.Second,
		Hard: 90 * time.Second,
	})
	switch verdict {
	case vkit.AwaitStuck:
		i := cur.Load()
		c.Violation("stuck-stream-dense", fmt.Sprintf("tiny MapStream run %d of the batch can never finish: every goroutine of the scenario is parked (%+v)", i, specs[i]),
			map[string]any{"spec": specs[i], "index_in_batch": i, "goroutines": clip(dump, 8000)})
		return
	case vkit.AwaitInconclusive:
		rep.Inconclusive(fmt.Sprintf("case %s did not finish within the hard limit although goroutines were still runnable", c.ID()))
		return
	}
	rep.Eval(evals)
	if v != nil {
		i := cur.Load()
		sp := specs[i]
		w := map[string]any{"spec": sp, "index_in_batch": i, "gomaxprocs": runtime.GOMAXPROCS(0)}
		for k, x := range v.extra {
			w[k] = x
		}
		c.Violation(v.sig, fmt.Sprintf("%s [dense run %d of the batch: len=%d parallelism=%d bufferSize=%d f fails at %d with a %s error; busy source polling its ctx %d times per item]",
			v.what, i, sp.N, sp.Par, sp.Buf, sp.P, sp.Kind, sp.Spin), w)
		return
	}
	rep.Count("cases", c.Group, 1)
	rep.Count("dense", "streams", batch)
	rep.Count("dense", "f's error surfaced", batch)
	rep.Count("dense", "parallelism 1", nPar1)
	rep.Distinct(fmt.Sprintf("dense|%d", c.Index))
}

// GOMAXPROCS changed while the pipeline is alive.

type flipSpec struct {
	api                     string
	g1, g2, par, n, at, buf int
}

// mkFlipPlan must be called after runtime.GOMAXPROCS(sp.g1).
func mkFlipPlan(rnd *vkit.Rand, sp flipSpec) *plan {
	pl := basePlan(rnd, sp.api, sp.n, sp.par, sp.buf)
	pl.G1, pl.G2, pl.FlipAt = sp.g1, sp.g2, sp.at
	pl.Mode = "gomaxprocs-flip"
	pl.SrcCtx = true
	// Judged against the largest value that could be in force.
	pmax := imax(sp.g1, sp.g2)
	pl.Bound = satAdd(imax(pl.Buf, 0), pmax+1)
	pl.Lat = "random"
	for i := range pl.lat {
		if rnd.Bool(0.7) {
			pl.lat[i] = int32(rnd.Intn(150))
		}
	}
	if rnd.Bool(0.5) {
		pl.Pace = "slow"
		for i := range pl.paceLat {
			pl.paceLat[i] = int32(rnd.Intn(120))
		}
	}
	return pl
}

// flip changes GOMAXPROCS when the consumer has received FlipAt results (called by the consumer).
func (r *run) flip(got int) {
	if r.pl.G2 > 0 && r.pl.FlipAt == got && r.flipped.CompareAndSwap(false, true) {
		runtime.GOMAXPROCS(r.pl.G2)
	}
}

// GOMAXPROCS changed in-process.

type procsSpec struct {
	api         string
	g, par, buf int
	shape       int // 0: straggler at 0 held until the pipeline is full; 1: late-first latency, slow consumer
}

// mkProcsPlan must be called after runtime.GOMAXPROCS(sp.g): basePlan reads the current value.
func mkProcsPlan(rnd *vkit.Rand, sp procsSpec) *plan {
	pl := basePlan(rnd, sp.api, 80+rnd.Intn(60), sp.par, sp.buf)
	pl.Procs = sp.g
	pl.SrcCtx = true
	if sp.shape == 0 {
		pl.Lat = "strag0"
		pl.Strag = 0
		pl.gateGoal = int64(imin(pl.N, pl.beff+1))
		pl.stragEx = int32(300 + rnd.Intn(300))
		for i := range pl.lat {
			if rnd.Bool(0.3) {
				pl.lat[i] = int32(rnd.Intn(40))
			}
		}
	} else {
		pl.Lat = "rev"
		w := pl.beff + 1
		for i := range pl.lat {
			pl.lat[i] = int32((w - 1 - i%w) * 60)
		}
		pl.Pace = "slow"
		for i := range pl.paceLat {
			pl.paceLat[i] = int32(100 + rnd.Intn(200))
		}
	}
	return pl
}

func mkPlan(c *vkit.Case, api string) *plan {
	rnd := c.Rand
	g := c.Index % gridCells
	pl := basePlan(rnd, api, lens[g%5], pars[(g/5)%5], bufs[g/25])
	n := pl.N

	// f latency table.
	pl.Lat = vkit.Pick(rnd, []string{"rev", "rev", "random", "strag0", "strag0", "zero", "table"})
	switch pl.Lat {
	case "rev": // within every window of beff+1 items the late ones finish first
		w := imin(pl.beff+1, 80)
		step := imax(2000/w, 15)
		for i := range pl.lat {
			pl.lat[i] = int32((w - 1 - i%w) * step)
		}
	case "random":
		for i := range pl.lat {
			switch rnd.Intn(4) {
			case 0:
			case 1:
				pl.lat[i] = int32(rnd.Intn(20))
			default:
				pl.lat[i] = int32(20 + rnd.Intn(400))
			}
		}
	case "strag0":
		if n > 0 {
			pl.Strag = 0
			if rnd.Bool(0.2) {
				pl.Strag = rnd.Intn(n)
			}
		}
		for i := range pl.lat {
			if rnd.Bool(0.3) {
				pl.lat[i] = int32(rnd.Intn(40))
			}
		}
	case "zero":
		for i := range pl.lat {
			if rnd.Bool(0.2) {
				pl.lat[i] = 1
			}
		}
	case "table":
		for i := range pl.lat {
			switch {
			case rnd.Bool(0.04):
				pl.lat[i] = int32(1000 + rnd.Intn(2000))
			case rnd.Bool(0.5):
				pl.lat[i] = int32(rnd.Intn(100))
			}
		}
		if n > 0 && rnd.Bool(0.3) {
			pl.Strag = rnd.Intn(n)
		}
	}
	if rnd.Bool(0.25) {
		if rnd.Bool(0.5) {
			pl.Dep, pl.DepK = "lag", vkit.Pick(rnd, []int{0, 0, 0, 1, 1, 2, imax(pl.beff-1, 0), pl.beff})
		} else {
			pl.Dep, pl.DepK = "wave", vkit.Pick(rnd, []int{2, 2, 3, 4, imax(pl.beff, 2), pl.beff + 1})
		}
	}
	// Keep the nominal cost of a case around 30 ms whatever the parallelism.
	sum := 0
	for _, l := range pl.lat {
		sum += int(l)
	}
	conc := pl.P
	switch pl.Dep {
	case "lag":
		conc = imin(conc, pl.DepK+1)
	case "wave":
		conc = imin(conc, pl.DepK)
	}
	if budget := 30000 * conc; sum > budget {
		for i := range pl.lat {
			pl.lat[i] = int32(int(pl.lat[i]) * budget / sum)
		}
	}
	pl.stragEx = int32(rnd.Intn(600))

	if rnd.Bool(0.5) {
		for i := range pl.srcLat {
			switch rnd.Intn(8) {
			case 0:
				pl.srcLat[i] = int32(20 + rnd.Intn(80))
			case 1, 2:
				pl.srcLat[i] = 1
			}
		}
	}
	pl.Pace = vkit.Pick(rnd, []string{"fast", "fast", "slow", "burst"})
	switch pl.Pace {
	case "slow":
		scale := 200
		if n > 100 {
			scale = 60
		}
		for i := range pl.paceLat {
			pl.paceLat[i] = int32(rnd.Intn(scale))
		}
	case "burst":
		for i := range pl.paceLat {
			if i%13 == 0 {
				pl.paceLat[i] = int32(500 + rnd.Intn(1000))
			}
		}
	}

	if api == "stream" {
		mode := vkit.Pick(rnd, []string{"none", "none", "ferr", "ferr", "serr", "serr", "both", "close", "close", "close", "close", "outer", "blockferr", "blockferr", "blockclose"})
		if n == 0 && (mode == "ferr" || mode == "both" || mode == "outer" || mode == "blockferr") {
			mode = "serr"
		}
		pl.Mode = mode
		pos := func(hi int) int { // a position in [0, hi], edges favoured
			switch rnd.Intn(6) {
			case 0:
				return 0
			case 1:
				return hi
			case 2:
				return imin(1, hi)
			case 3:
				return imax(hi-1, 0)
			}
			return rnd.Intn(hi + 1)
		}
		if mode == "ferr" || mode == "both" {
			k := 1
			if rnd.Bool(0.3) {
				k = 2 + rnd.Intn(2)
			}
			kind := rnd.Intn(len(errKinds))
			for i := 0; i < k; i++ {
				pl.setFail(pos(n-1), kind)
			}
		}
		if mode == "serr" || mode == "both" {
			pl.SrcErrAt = pos(n)
			kind := rnd.Intn(len(errKinds))
			pl.SrcErrKind = errKinds[kind]
			pl.errSrcV = mkErr(kind, "verif: injected source error")
		}
		if mode == "close" {
			pl.CloseAt = pos(n)
			pl.FMode = vkit.Pick(rnd, []string{"ignore", "honour", "block", "block"})
		} else if rnd.Bool(0.3) {
			pl.FMode = "honour"
		}
		if mode == "outer" {
			pl.OuterAt = pos(n - 1)
		}
		if mode == "blockferr" {
			// The source hands out k >= 1 items and then has nothing to deliver until its context
			// is done; f fails on an item that was handed out.
			pl.SrcBlockAt = 1 + pos(n-1)
			k := 1
			if rnd.Bool(0.25) {
				k = 2
			}
			kind := rnd.Intn(len(errKinds))
			for i := 0; i < k; i++ {
				pl.setFail(pos(pl.SrcBlockAt-1), kind)
			}
			if rnd.Bool(0.3) {
				pl.FMode = "honour"
			}
		}
		if mode == "blockclose" {
			pl.SrcBlockAt = pos(n)
			pl.CloseAt = pos(pl.SrcBlockAt)
			pl.FMode = vkit.Pick(rnd, []string{"ignore", "honour", "block"})
		}
		pl.Expiry = rnd.Bool(0.3)
		pl.SrcCtx = rnd.Bool(0.5)
		if pl.Expiry {
			for i := range pl.ctxMode {
				if i > 0 && pl.ctxMode[i-1] != 0 {
					continue // a live call after every expiring one
				}
				switch rnd.Intn(6) {
				case 0:
					pl.ctxMode[i] = 1
				case 1:
					pl.ctxMode[i] = 2 // 1 µs
				case 2:
					pl.ctxMode[i] = 3 // 60 µs
				case 3:
					pl.ctxMode[i] = 4 // 500 µs
				}
			}
			pl.ctxMode[len(pl.ctxMode)-1] = 0
		}
		if pl.Strag >= 0 && pl.CloseAt >= 0 && pl.Strag >= pl.CloseAt {
			pl.Strag = -1 // nobody would wait for it
		}
	}
	if pl.Strag >= 0 {
		goal := imin(n, pl.Strag+pl.beff+1)
		if pl.SrcErrAt >= 0 {
			goal = imin(goal, pl.SrcErrAt)
		}
		if pl.SrcBlockAt >= 0 {
			goal = imin(goal, pl.SrcBlockAt)
		}
		if pl.Dep != "" {
			// With the straggler held back the consumer receives exactly Strag results.
			m := 0
			for m < n && pl.need(m) <= pl.Strag {
				m++
			}
			goal = imin(goal, m)
		}
		pl.gateGoal = int64(goal)
	}
	return pl
}

func bucket(k, n int) string {
	switch {
	case k < 0:
		return "-"
	case k == 0:
		return "0"
	case k == n:
		return "len"
	case k == 1:
		return "1"
	case k == n-1:
		return "len-1"
	}
	return "mid"
}

// srcDesc describes the source's behaviour for messages.
func (pl *plan) srcDesc() string {
	d := "plain"
	if pl.Procs > 0 {
		d = fmt.Sprintf("plain (after runtime.GOMAXPROCS(%d) in this process, so parallelism %d means %d)", pl.Procs, pl.Par, pl.P)
	}
	if pl.G2 > 0 {
		when := fmt.Sprintf("after %d results", pl.FlipAt)
		if pl.FlipAt < 0 {
			when = "back and forth all the time"
		}
		d = fmt.Sprintf("plain (built under GOMAXPROCS(%d), GOMAXPROCS(%d) called %s)", pl.G1, pl.G2, when)
	}
	switch pl.Dep {
	case "lag":
		d = fmt.Sprintf("pull m waits until the consumer has received m-%d results", pl.DepK)
	case "wave":
		d = fmt.Sprintf("items come in waves of %d, a wave only after all earlier results were received", pl.DepK)
	}
	if pl.SrcBlockAt >= 0 {
		d += fmt.Sprintf("; blocks in Next until ctx is done after %d items", pl.SrcBlockAt)
	}
	if pl.SrcErrAt >= 0 {
		d += fmt.Sprintf("; fails after %d items with a %s error", pl.SrcErrAt, pl.SrcErrKind)
	}
	return d
}

func lagBucket(pl *plan) string {
	if pl.Dep == "" {
		return "-"
	}
	switch k := pl.DepK; {
	case k <= 4:
		return pl.Dep + strconv.Itoa(k)
	case k == pl.beff-1:
		return pl.Dep + "B-1"
	case k == pl.beff:
		return pl.Dep + "B"
	}
	return pl.Dep + "B+1"
}

func (pl *plan) key() string {
	fa := "-"
	if len(pl.FailAt) > 0 {
		fa = fmt.Sprintf("%dx%s", len(pl.FailAt), bucket(pl.FailAt[0], pl.N))
	}
	return fmt.Sprintf("%s|%d|%d/%d|%d|%s|%s|%s|f%s|s%s|c%s|%s|o%s|x%v|g%v|l%s|b%s|e%s/%s|%v|G%d|F%d>%d@%d", pl.API, pl.N, pl.Par, pl.P, pl.Buf, pl.Lat, pl.Pace, pl.Mode,
		fa, bucket(pl.SrcErrAt, pl.N), bucket(pl.CloseAt, pl.N), pl.FMode, bucket(pl.OuterAt, pl.N), pl.Expiry, pl.Strag >= 0, lagBucket(pl), bucket(pl.SrcBlockAt, pl.N), pl.SrcErrKind, pl.FErrKind, pl.Perm, pl.Procs, pl.G1, pl.G2, pl.FlipAt)
}

// ---------------------------------------------------------------------------------------------
// Shared state of one run (touched from library goroutines: atomics, one mutex, read-only tables)

type viol struct {
	sig, what string
	extra     map[string]any
}

type run struct {
	pl *plan

	taken       atomic.Int64
	nextStarted atomic.Int64
	maxInfl     atomic.Int64
	gauge       vkit.Gauge
	fCalls      []atomic.Int32
	fErrRet     []atomic.Bool
	fCtxErrRet  atomic.Int64
	fAfterClose atomic.Int64
	closeRet    atomic.Bool
	gateReached atomic.Int64

	srcErrRet       atomic.Bool
	srcCtxErrRet    atomic.Int64
	srcCloses       atomic.Int64
	srcNextAftClose atomic.Int64
	srcOverlap      atomic.Int64
	srcInNext       atomic.Int32
	srcInClose      atomic.Int32
	srcNextDuring   atomic.Int64

	got          atomic.Int64  // results received so far (the consumer-dependent source waits on it)
	progress     chan struct{} // 1-slot wake-up for the single source goroutine
	srcWaited    atomic.Int64  // pulls that really had to wait for the consumer
	doneCnt      atomic.Int64  // completed calls of f
	flipped      atomic.Bool
	gateTimeouts atomic.Int64 // small scope: calls that did not get their wanted completion rank
	srcBlocks    atomic.Int64 // Next calls that blocked until ctx was done
	phase        atomic.Value // string

	mu    sync.Mutex
	order []int32 // completion order of f
	first *viol   // first violation seen by a callback
}

func newRun(pl *plan) *run {
	r := &run{pl: pl, fCalls: make([]atomic.Int32, pl.N), fErrRet: make([]atomic.Bool, pl.N), progress: make(chan struct{}, 1)}
	r.phase.Store("start")
	return r
}

func (r *run) flag(v *viol) {
	r.mu.Lock()
	if r.first == nil {
		r.first = v
	}
	r.mu.Unlock()
}

func delay(us int32) {
	switch {
	case us <= 0:
	case us < 20:
		runtime.Gosched()
	default:
		time.Sleep(time.Duration(us) * time.Microsecond)
	}
}

// received is called by the consumer after every result.
func (r *run) received(got int) {
	r.got.Store(int64(got))
	select {
	case r.progress <- struct{}{}:
	default:
	}
}

// waitConsumer makes pull number pos of a consumer-dependent source wait until the consumer has
// received need(pos) results (a channel wait, so a deadlock shows as parked goroutines). The got
// counter is stored before the wake-up token is offered and re-read after every token, so no
// wake-up is lost. ctx is nil for the iterator source.
func (r *run) waitConsumer(ctx context.Context, pos int) error {
	if r.pl.Dep == "" {
		return nil
	}
	need := int64(r.pl.need(pos))
	waited := false
	for r.got.Load() < need {
		waited = true
		if ctx == nil {
			<-r.progress
			continue
		}
		select {
		case <-r.progress:
		case <-ctx.Done():
			return ctx.Err()
		}
	}
	if waited {
		r.srcWaited.Add(1)
	}
	return nil
}

// pulled is the online in-flight check; it runs inside the source's Next when an item is handed out.
func (r *run) pulled() {
	t := r.taken.Add(1)
	ns := r.nextStarted.Load()
	d := t - ns
	for {
		m := r.maxInfl.Load()
		if d <= m || r.maxInfl.CompareAndSwap(m, d) {
			break
		}
	}
	if d > int64(r.pl.Bound) {
		r.flag(&viol{"inflight-bound", fmt.Sprintf("%s: at source pull #%d only %d consumer Next calls had begun: %d items taken but not yielded > max(bufferSize,0)+parallelism+1 = %d",
			r.pl.API, t, ns, d, r.pl.Bound), map[string]any{"taken": t, "nextStarted": ns}})
	}
}

// work is the body of f. ctx is nil for MapIterator.
func (r *run) work(ctx context.Context, x int) (int, error) {
	pl := r.pl
	if x < 0 || x >= pl.N {
		r.flag(&viol{"f-foreign-item", fmt.Sprintf("%s: f was called with %d, which the source never yielded", pl.API, x), nil})
		return 0, nil
	}
	idx := pl.inv[x]
	r.fCalls[idx].Add(1)
	if r.closeRet.Load() {
		r.fAfterClose.Add(1)
	}
	r.gauge.Enter()
	defer r.gauge.Exit()

	if idx == pl.Strag {
		// Hold this item back until the pipeline has filled as far as the implementation lets it
		// (or the stream was cancelled, or 300 ms passed: only a workload shape, never a verdict).
		t0 := time.Now()
		for r.taken.Load() < pl.gateGoal && time.Since(t0) < 300*time.Millisecond {
			if ctx != nil && ctx.Err() != nil {
				break
			}
			time.Sleep(40 * time.Microsecond)
		}
		if r.taken.Load() >= pl.gateGoal {
			r.gateReached.Add(1)
		}
		delay(pl.stragEx)
	}
	if pl.rank != nil {
		rank := int64(pl.rank[idx])
		limit := time.Duration(1500+300*rank) * time.Microsecond
		t0 := time.Now()
		for r.doneCnt.Load() < rank && time.Since(t0) < limit {
			if ctx != nil && ctx.Err() != nil {
				break
			}
			time.Sleep(20 * time.Microsecond)
		}
		if r.doneCnt.Load() < rank {
			r.gateTimeouts.Add(1)
		}
		if rank > 0 {
			time.Sleep(50 * time.Microsecond) // let the predecessor hand its result over first
		}
	}
	us := pl.lat[idx]
	if ctx != nil && pl.FMode == "honour" {
		if ctx.Err() != nil {
			r.fCtxErrRet.Add(1)
			return 0, ctx.Err()
		}
		if us >= 20 {
			t := time.NewTimer(time.Duration(us) * time.Microsecond)
			select {
			case <-t.C:
			case <-ctx.Done():
				t.Stop()
				r.fCtxErrRet.Add(1)
				return 0, ctx.Err()
			}
		} else {
			delay(us)
		}
	} else {
		delay(us)
	}
	if ctx != nil && pl.FMode == "block" && pl.CloseAt >= 0 && idx >= pl.CloseAt {
		<-ctx.Done()
		r.fCtxErrRet.Add(1)
		return 0, ctx.Err()
	}
	r.mu.Lock()
	r.order = append(r.order, int32(idx))
	r.mu.Unlock()
	r.doneCnt.Add(1)
	if pl.fail[idx] {
		r.fErrRet[idx].Store(true)
		return 0, pl.errF[idx]
	}
	return fval(x), nil
}

// Instrumented sources.

type srcIter struct {
	r   *run
	pos int
}

func (s *srcIter) Next() (int, bool) {
	pl := s.r.pl
	delay(pl.srcLat[s.pos%len(pl.srcLat)])
	_ = s.r.waitConsumer(nil, s.pos)
	if s.pos >= pl.N {
		return 0, false
	}
	x := pl.vals[s.pos]
	s.pos++
	s.r.pulled()
	return x, true
}

type srcStream struct {
	r   *run
	pos int
}

func (s *srcStream) Next(ctx context.Context) (int, error) {
	r := s.r
	pl := r.pl
	if r.srcInNext.Add(1) > 1 {
		r.srcNextDuring.Add(1)
	}
	defer r.srcInNext.Add(-1)
	if r.srcInClose.Load() > 0 {
		r.srcOverlap.Add(1)
	} else if r.srcCloses.Load() > 0 {
		r.srcNextAftClose.Add(1)
	}
	if pl.SrcCtx && ctx.Err() != nil {
		r.srcCtxErrRet.Add(1)
		return 0, ctx.Err()
	}
	delay(pl.srcLat[s.pos%len(pl.srcLat)])
	if pl.SrcBlockAt >= 0 && s.pos >= pl.SrcBlockAt {
		r.srcBlocks.Add(1)
		<-ctx.Done()
		r.srcCtxErrRet.Add(1)
		return 0, ctx.Err()
	}
	if err := r.waitConsumer(ctx, s.pos); err != nil {
		r.srcCtxErrRet.Add(1)
		return 0, err
	}
	if pl.SrcErrAt >= 0 && s.pos >= pl.SrcErrAt {
		r.srcErrRet.Store(true)
		return 0, pl.errSrcV
	}
	if s.pos >= pl.N {
		return 0, stream.End
	}
	x := pl.vals[s.pos]
	s.pos++
	r.pulled()
	return x, nil
}

func (s *srcStream) Close() {
	r := s.r
	r.srcInClose.Add(1)
	if r.srcInNext.Load() > 0 {
		r.srcOverlap.Add(1)
	}
	// a Close that takes a moment: whoever has to wait for it must really wait (seeded change C14-20)
	runtime.Gosched()
	if len(r.pl.vals)%2 == 1 {
		time.Sleep(100 * time.Microsecond)
	}
	r.srcCloses.Add(1)
	r.srcInClose.Add(-1)
}

// ---------------------------------------------------------------------------------------------
// Scenarios (each runs on its own root goroutine)

type outcome struct {
	v         *viol
	got       int
	evals     int
	ended     bool
	finalErr  string
	errKind   string
	expiries  int
	closeBusy bool
	errValue  string
	dropped   int
}

func (r *run) iterScenario(o *outcome) {
	pl := r.pl
	var it iterator.Iterator[int]
	if p := vkit.Try(func() {
		it = parallel.MapIterator[int, int](&srcIter{r: r}, pl.Par, pl.Buf, func(x int) int {
			v, _ := r.work(nil, x)
			return v
		})
	}); p != nil {
		o.v = &viol{"panic", "MapIterator panicked: " + p.Msg, map[string]any{"stack": p.Stack}}
		return
	}
	r.phase.Store("next")
	got := 0
	for {
		r.flip(got)
		r.nextStarted.Add(1)
		var v int
		var ok bool
		if p := vkit.Try(func() { v, ok = it.Next() }); p != nil {
			o.v = &viol{"panic", fmt.Sprintf("MapIterator Next #%d panicked: %s", got, p.Msg), map[string]any{"stack": p.Stack}}
			return
		}
		o.evals++
		if !ok {
			break
		}
		if got >= pl.N {
			o.v = &viol{"extra-output", fmt.Sprintf("MapIterator yielded %d after all %d results", v, pl.N), nil}
			return
		}
		if want := fval(pl.vals[got]); v != want {
			o.v = &viol{"output-order", fmt.Sprintf("MapIterator result #%d is %d, want f(source[%d]) = %d (%s)", got, v, got, want, r.describe(v)), nil}
			return
		}
		got++
		r.received(got)
		delay(pl.paceLat[got%len(pl.paceLat)])
	}
	o.got = got
	o.ended = true
	if got != pl.N {
		o.v = &viol{"missing-output", fmt.Sprintf("MapIterator ended after %d of %d results", got, pl.N), nil}
		return
	}
	r.phase.Store("done")
}

// describe says which source index a wrong value belongs to, if any.
func (r *run) describe(v int) string {
	if (v-1)%3 == 0 {
		x := (v - 1) / 3
		if x >= 0 && x < r.pl.N {
			return fmt.Sprintf("it is f(source[%d])", r.pl.inv[x])
		}
	}
	return "it is no f(source[i])"
}

func (r *run) callCtx(ord int) (context.Context, context.CancelFunc) {
	switch m := r.pl.ctxMode[ord%len(r.pl.ctxMode)]; m {
	case 0:
		return context.Background(), func() {}
	case 1:
		ctx, cancel := context.WithCancel(context.Background())
		cancel()
		return ctx, cancel
	default:
		d := []time.Duration{time.Microsecond, 60 * time.Microsecond, 500 * time.Microsecond}[m-2]
		return context.WithTimeout(context.Background(), d)
	}
}

func (r *run) streamScenario(o *outcome) {
	pl := r.pl
	outer, outerCancel := context.WithCancel(context.Background())
	defer outerCancel()
	outerCancelled := false
	src := &srcStream{r: r}
	var s stream.Stream[int]
	if p := vkit.Try(func() {
		s = parallel.MapStream[int, int](outer, src, pl.Par, pl.Buf, func(ctx context.Context, x int) (int, error) {
			return r.work(ctx, x)
		})
	}); p != nil {
		o.v = &viol{"panic", "MapStream panicked: " + p.Msg, map[string]any{"stack": p.Stack}}
		return
	}
	r.phase.Store("next")
	got, ord := 0, 0
	var final error
	for pl.CloseAt < 0 || got < pl.CloseAt {
		r.flip(got)
		if pl.OuterAt == got && !outerCancelled {
			outerCancel()
			outerCancelled = true
		}
		ctx, cancel := r.callCtx(ord)
		ord++
		r.nextStarted.Add(1)
		var v int
		var err error
		p := vkit.Try(func() { v, err = s.Next(ctx) })
		cerr := ctx.Err()
		cancel()
		if p != nil {
			o.v = &viol{"panic", fmt.Sprintf("MapStream Next (call %d, after %d results) panicked: %s", ord, got, p.Msg), map[string]any{"stack": p.Stack}}
			return
		}
		o.evals++
		if err == nil {
			if got >= pl.N {
				o.v = &viol{"extra-output", fmt.Sprintf("MapStream yielded %d after all %d results", v, pl.N), nil}
				return
			}
			if pl.fail[got] {
				o.v = &viol{"result-for-failed-item", fmt.Sprintf("MapStream delivered result #%d = %d although every call f(source[%d]) fails", got, v, got), nil}
				return
			}
			if want := fval(pl.vals[got]); v != want {
				o.v = &viol{"output-order", fmt.Sprintf("MapStream result #%d is %d, want f(source[%d]) = %d (%s)", got, v, got, want, r.describe(v)), nil}
				return
			}
			got++
			r.received(got)
			delay(pl.paceLat[got%len(pl.paceLat)])
			continue
		}
		if err == stream.End {
			o.ended = true
			break
		}
		if cerr != nil && (err == cerr || (errors.Is(err, cerr) && !r.isInjected(err))) {
			// The per-call context expired: nothing may be lost; go on with the next context.
			// (An injected error that IS context.Canceled / DeadlineExceeded cannot be told from
			// the expiry here; the next call with a live context reports it again.)
			o.expiries++
			continue
		}
		final = err
		break
	}
	o.got = got

	switch {
	case o.ended:
		faulty := pl.SrcErrAt >= 0 || len(pl.FailAt) > 0
		if faulty {
			o.v = &viol{"error-lost", fmt.Sprintf("MapStream reported End after %d results although a failure was planted (f fails at %v with a %q error, source fails after %d with a %q error [returned: %v])", got, pl.FailAt, pl.FErrKind, pl.SrcErrAt, pl.SrcErrKind, r.srcErrRet.Load()), nil}
			return
		}
		if got != pl.N {
			o.v = &viol{"missing-output", fmt.Sprintf("MapStream reported End after %d of %d results", got, pl.N), nil}
			return
		}
	case final != nil:
		o.finalErr = final.Error()
		o.evals++
		ok := false
		// The injected values are compared first, so that a source / f whose own error is
		// context.Canceled is recognised as such and not as a cancellation made by the library.
		if pl.errSrcV != nil && errors.Is(final, pl.errSrcV) && r.srcErrRet.Load() {
			ok = true
			o.errKind = "from source"
			o.errValue = "source: " + pl.SrcErrKind
			o.dropped = pl.SrcErrAt - got
		}
		if !ok {
			for _, j := range pl.FailAt {
				if errors.Is(final, pl.errF[j]) && r.fErrRet[j].Load() {
					ok = true
					o.errKind = "from f"
					o.errValue = "f: " + pl.FErrKind
					o.dropped = j - got
				}
			}
		}
		if !ok && outerCancelled && errors.Is(final, context.Canceled) {
			ok = true
			o.errKind = "caller cancelled the construction context"
		}
		if !ok {
			sig := "foreign-error"
			if errors.Is(final, context.Canceled) || errors.Is(final, context.DeadlineExceeded) {
				sig = "bare-context-error"
			}
			o.v = &viol{sig, fmt.Sprintf("MapStream Next reported %q after %d results; neither the source nor a call of f returned it first-hand (f fails at %v [returned: %v], source fails after %d [returned: %v], caller cancelled: %v, f returned ctx.Err() %d times, source %d times)",
				final.Error(), got, pl.FailAt, r.failReturned(), pl.SrcErrAt, r.srcErrRet.Load(), outerCancelled, r.fCtxErrRet.Load(), r.srcCtxErrRet.Load()), nil}
			return
		}
	}

	// Close, at whatever moment this is.
	if pl.CloseAt >= 0 && pl.FMode == "block" && pl.N > pl.CloseAt {
		t0 := time.Now()
		for r.gauge.Cur() == 0 && time.Since(t0) < 50*time.Millisecond {
			time.Sleep(30 * time.Microsecond)
		}
	} else if pl.CloseAt >= 0 {
		delay(pl.stragEx / 4)
	}
	o.closeBusy = r.gauge.Cur() > 0
	r.phase.Store("close")
	if p := vkit.Try(func() { s.Close() }); p != nil {
		o.v = &viol{"panic", fmt.Sprintf("MapStream Close after %d results panicked: %s", got, p.Msg), map[string]any{"stack": p.Stack}}
		return
	}
	closesAtReturn := r.srcCloses.Load() // sampled before anything else: the statement says "returns after ... the source has been closed"
	r.closeRet.Store(true)
	r.phase.Store("after-close")
	o.evals += 5
	if closesAtReturn == 0 {
		o.v = &viol{"close-returned-before-source-closed", fmt.Sprintf("MapStream Close (after %d results) returned while the source had not been closed yet (its Close was still to come or in progress)", got), nil}
		return
	}
	if g := r.gauge.Cur(); g != 0 {
		o.v = &viol{"close-f-running", fmt.Sprintf("MapStream Close (after %d results) returned while %d calls of f were still running", got, g), nil}
		return
	}
	root := gid()
	left := vkit.WaitNoGoroutine(func(g vkit.G) bool {
		return createdIn(g) == root && g.Has("juniper/parallel.MapStream")
	}, 300*time.Millisecond, 60*time.Millisecond)
	if len(left) > 0 {
		var raw strings.Builder
		for _, g := range left {
			raw.WriteString(g.Raw)
			raw.WriteString("\n\n")
		}
		o.v = &viol{"close-goroutine-alive", fmt.Sprintf("after MapStream Close (after %d results) returned, %d parallel.MapStream goroutines are still parked", got, len(left)),
			map[string]any{"goroutines": clip(raw.String(), 6000)}}
		return
	}
	if n := r.fAfterClose.Load(); n > 0 {
		o.v = &viol{"close-f-started-after", fmt.Sprintf("%d calls of f started after MapStream Close had returned", n), nil}
		return
	}
	if c := r.srcCloses.Load(); c != 1 {
		o.v = &viol{"close-source-closes", fmt.Sprintf("after MapStream Close (after %d results) returned, the source had been closed %d times (want exactly 1)", got, c), nil}
		return
	}
	if a, b := r.srcNextAftClose.Load(), r.srcOverlap.Load(); a+b > 0 {
		o.v = &viol{"source-next-after-close", fmt.Sprintf("the source saw %d Next calls after its Close and %d overlapping it", a, b), nil}
		return
	}
	if n := r.srcNextDuring.Load(); n > 0 {
		o.v = &viol{"source-concurrent-next", fmt.Sprintf("the source saw %d Next calls while another Next was running", n), nil}
		return
	}
	r.phase.Store("done")
}

// isInjected reports whether err is (or wraps) one of the planted error values.
func (r *run) isInjected(err error) bool {
	if r.pl.errSrcV != nil && errors.Is(err, r.pl.errSrcV) {
		return true
	}
	for _, j := range r.pl.FailAt {
		if errors.Is(err, r.pl.errF[j]) {
			return true
		}
	}
	return false
}

func (r *run) failReturned() []bool {
	var out []bool
	for _, j := range r.pl.FailAt {
		out = append(out, r.fErrRet[j].Load())
	}
	return out
}

func clip(s string, n int) string {
	if len(s) > n {
		return s[:n] + "\n...[truncated]"
	}
	return s
}

// gid is the id of the calling goroutine.
func gid() int {
	buf := make([]byte, 64)
	n := runtime.Stack(buf, false)
	f := strings.Fields(string(buf[:n]))
	if len(f) >= 2 {
		id, _ := strconv.Atoi(f[1])
		return id
	}
	return -1
}

// createdIn is the id of the goroutine that started g (0 if unknown).
func createdIn(g vkit.G) int {
	const mark = " in goroutine "
	i := strings.LastIndex(g.Raw, mark)
	if i < 0 {
		return 0
	}
	s := g.Raw[i+len(mark):]
	j := 0
	for j < len(s) && s[j] >= '0' && s[j] <= '9' {
		j++
	}
	id, _ := strconv.Atoi(s[:j])
	return id
}

// ---------------------------------------------------------------------------------------------
// Running one case and accounting

type stats struct {
	mu     sync.Mutex
	orders map[uint64]struct{}
	seen   map[string]struct{}
}

func (st *stats) cell(api string, g int) {
	st.mu.Lock()
	if st.seen == nil {
		st.seen = make(map[string]struct{})
	}
	st.seen[fmt.Sprintf("%s/%d", api, g)] = struct{}{}
	st.mu.Unlock()
}

func (st *stats) cells(api string) int {
	st.mu.Lock()
	defer st.mu.Unlock()
	n := 0
	for k := range st.seen {
		if strings.HasPrefix(k, api+"/") {
			n++
		}
	}
	return n
}

func runPlan(c *vkit.Case, pl *plan, st *stats) {
	rep := c.R
	api := pl.API
	if rep.NViolations() >= 3 {
		return // enough witnesses; every further stuck case would cost seconds
	}
	r := newRun(pl)
	var o outcome
	var rootID atomic.Int64
	done := make(chan struct{})
	go func() {
		defer close(done)
		rootID.Store(int64(gid()))
		if api == "iter" {
			r.iterScenario(&o)
		} else {
			r.streamScenario(&o)
		}
	}()
	// The toggler is started here, not by the root goroutine: it is no part of the scenario for the
	// STUCK verdict.
	var stopTog, togDone chan struct{}
	if pl.G2 > 0 && pl.FlipAt < 0 {
		stopTog, togDone = make(chan struct{}), make(chan struct{})
		go func() {
			defer close(togDone)
			for g := pl.G2; ; g = pl.G1 + pl.G2 - g {
				select {
				case <-stopTog:
					return
				default:
				}
				runtime.GOMAXPROCS(g)
				time.Sleep(150 * time.Microsecond)
			}
		}()
	}
	verdict, dump := vkit.Await(done, vkit.AwaitOpts{
		Relevant: func(g vkit.G) bool {
			id := int(rootID.Load())
			return id != 0 && (g.ID == id || createdIn(g) == id)
		},
		Soft: 3 * time.Second,
		Hard: 90 * time.Second,
	})
	if stopTog != nil {
		close(stopTog)
		<-togDone
	}
	witness := func(extra map[string]any) map[string]any {
		w := map[string]any{
			"plan": pl, "results_received": r.got.Load(), "taken": r.taken.Load(), "next_started": r.nextStarted.Load(),
			"max_taken_minus_next_started": r.maxInfl.Load(), "phase": r.phase.Load(), "gomaxprocs": runtime.GOMAXPROCS(0),
		}
		if pl.N <= 50 {
			w["source"] = pl.vals
			w["f_latency_us"] = pl.lat
		}
		for k, v := range extra {
			w[k] = v
		}
		return w
	}
	switch verdict {
	case vkit.AwaitStuck:
		ph, _ := r.phase.Load().(string)
		name := map[string]string{"iter": "MapIterator", "stream": "MapStream"}[api]
		c.Violation("stuck-"+api+"-"+ph, fmt.Sprintf("%s(len=%d, parallelism=%d, bufferSize=%d, latency=%s, plan=%s, source=%s): the consumer's %s call can never return: after %d results every goroutine of the scenario is parked (taken=%d)",
			name, pl.N, pl.Par, pl.Buf, pl.Lat, pl.Mode, pl.srcDesc(), ph, r.got.Load(), r.taken.Load()), witness(map[string]any{"goroutines": clip(dump, 8000)}))
		return
	case vkit.AwaitInconclusive:
		rep.Inconclusive(fmt.Sprintf("case %s (%s) did not finish within the hard limit although goroutines were still runnable", c.ID(), pl.key()))
		return
	}
	// The root goroutine is done: o is ours.
	rep.Eval(o.evals + int(r.taken.Load()))
	v := o.v
	if v == nil {
		r.mu.Lock()
		v = r.first
		r.mu.Unlock()
	} else if v.sig != "inflight-bound" {
		// An online bound violation is the earlier event.
		r.mu.Lock()
		if r.first != nil {
			v = r.first
		}
		r.mu.Unlock()
	}
	if v == nil && pl.Procs > 0 && r.gauge.Max() > int64(pl.P) {
		v = &viol{"f-concurrency", fmt.Sprintf("%s: %d calls of f ran at the same time although parallelism=%d means GOMAXPROCS = %d at the time of the call", api, r.gauge.Max(), pl.Par, pl.P), nil}
	}
	if pm := imax(pl.G1, pl.G2); v == nil && pl.G2 > 0 && r.gauge.Max() > int64(pm) {
		v = &viol{"f-concurrency", fmt.Sprintf("%s: %d calls of f ran at the same time although parallelism=%d means GOMAXPROCS, which never exceeded %d", api, r.gauge.Max(), pl.Par, pm), nil}
	}
	if v != nil {
		what := fmt.Sprintf("%s [len=%d parallelism=%d bufferSize=%d latency=%s pace=%s plan=%s close_after=%d f_ctx=%s source=%s]", v.what, pl.N, pl.Par, pl.Buf, pl.Lat, pl.Pace, pl.Mode, pl.CloseAt, pl.FMode, pl.srcDesc())
		c.Violation(v.sig, what, witness(v.extra))
		return
	}

	// Evidence.
	if c.Group == api {
		st.cell(api, c.Index%gridCells)
	}
	rep.Count("cases", c.Group, 1)
	rep.Count("results compared", api, o.got)
	rep.Count("source pulls checked against the bound", api, int(r.taken.Load()))
	if pl.N >= 2 {
		rep.Distinct(pl.key())
	}
	rep.Count(api+" latency", pl.Lat, 1)
	rep.Count(api+" pace", pl.Pace, 1)
	mi := int(r.maxInfl.Load())
	rep.Max("taken - nextStarted", api, mi)
	if pl.Bound < math.MaxInt/1000 {
		rep.Max("taken - nextStarted as permille of the stated bound (<= 1000)", api, mi*1000/pl.Bound)
	}
	if mi >= pl.lim {
		rep.Count("in-flight", "reached max(buffer,parallelism)+1", 1)
	}
	if mi > pl.lim {
		rep.Count("in-flight", "above max(buffer,parallelism)+1 but within the stated bound", 1)
	}
	if pl.Strag >= 0 {
		rep.Count("in-flight", "straggler cases", 1)
		if r.gateReached.Load() > 0 {
			rep.Count("in-flight", "straggler held until the pipeline was full", 1)
		}
	}
	r.mu.Lock()
	inv := 0
	var sb strings.Builder
	for i, x := range r.order {
		if i > 0 && x < r.order[i-1] {
			inv++
		}
		sb.WriteString(strconv.Itoa(int(x)))
		sb.WriteByte(',')
	}
	nOrder := len(r.order)
	r.mu.Unlock()
	if inv > 0 {
		rep.Count("reorder", "cases with out-of-order completion", 1)
		rep.Count("reorder", "descents in completion order", inv)
	}
	if nOrder >= 2 {
		h := vkit.Hash64(pl.key() + "#" + sb.String())
		st.mu.Lock()
		st.orders[h] = struct{}{}
		st.mu.Unlock()
	}
	multi := 0
	for i := range r.fCalls {
		if r.fCalls[i].Load() > 1 {
			multi++
		}
	}
	if multi > 0 {
		rep.Count("f invocations (recorded, not judged)", "items given to f more than once", multi)
	}
	if pl.Procs > 0 {
		rep.Count("procs", fmt.Sprintf("%s cases after GOMAXPROCS(%d)", api, pl.Procs), 1)
		rep.Max("procs: f concurrency / GOMAXPROCS in force", fmt.Sprintf("GOMAXPROCS(%d)", pl.Procs), int(r.gauge.Max()))
		if mi >= pl.lim {
			rep.Count("procs", "in-flight reached max(buffer,GOMAXPROCS)+1", 1)
		}
	}
	if pl.G2 > 0 {
		when := "after k results"
		if pl.FlipAt < 0 {
			when = "toggled all the time"
		}
		rep.Count("flip", fmt.Sprintf("%s GOMAXPROCS %d -> %d %s", api, pl.G1, pl.G2, when), 1)
	}
	if pl.Perm != nil {
		match := nOrder == len(pl.Perm)
		r.mu.Lock()
		for i := 0; match && i < nOrder; i++ {
			match = int(r.order[i]) == pl.Perm[i]
		}
		r.mu.Unlock()
		if match {
			rep.Count("small scope", api+" cases whose completion order was exactly the wanted permutation", 1)
		} else {
			rep.Count("small scope", api+" cases whose wanted order was not reachable or not reached", 1)
		}
	}
	if pl.Dep != "" {
		rep.Count("consumer-dependent source", api+" cases, "+lagBucket(pl), 1)
		if inv > 0 && r.srcWaited.Load() > 0 {
			rep.Count("consumer-dependent source", api+" cases with a real wait and out-of-order completion", 1)
		}
		rep.Count("consumer-dependent source", api+" pulls that had to wait for the consumer", int(r.srcWaited.Load()))
		if r.srcWaited.Load() > 0 {
			rep.Count("consumer-dependent source", api+" cases with a real wait", 1)
		}
	}
	if r.srcBlocks.Load() > 0 {
		rep.Count("blocking source", "cases in which the source blocked until its ctx was done ("+pl.Mode+")", 1)
	}
	if api == "stream" {
		rep.Count("stream plan", pl.Mode, 1)
		if pl.CloseAt >= 0 {
			rep.Count("close f-mode", pl.FMode, 1)
			rep.Count("close after k results", bucket(pl.CloseAt, pl.N), 1)
		}
		if o.closeBusy {
			rep.Count("close", "f running when Close was called", 1)
		}
		rep.Count("close", "Close calls checked", 1)
		if o.expiries > 0 {
			rep.Count("ctx expiry", "Next returned ctx.Err()", o.expiries)
			rep.Count("ctx expiry", "cases", 1)
		}
		if o.errKind != "" {
			rep.Count("stream error", o.errKind, 1)
			if o.errValue != "" {
				rep.Count("surfaced error value", o.errValue, 1)
			}
			if o.dropped > 0 {
				rep.Count("stream error", "preceding results not delivered (allowed)", o.dropped)
			}
		}
		if o.ended {
			rep.Count("stream end", "End after all results", 1)
		}
		if n := r.fCtxErrRet.Load(); n > 0 {
			rep.Count("stream error", "f returned its ctx.Err() (never surfaced)", int(n))
		}
	}
	if pl.N >= 5 && pl.N <= 50 && rep.WantSample() && (inv > 0 || o.errKind != "") {
		r.mu.Lock()
		ord := append([]int32(nil), r.order...)
		r.mu.Unlock()
		rep.Sample(map[string]any{
			"case": c.ID(), "plan": pl, "source": pl.vals, "f_completion_order_by_index": ord, "results_received_in_order": o.got,
			"ended": o.ended, "error": o.finalErr, "max_taken_minus_next_started": mi, "ctx_expiries": o.expiries,
		})
	}
}
