package main

import (
	"fmt"
	"os"
	"strconv"
	"strings"

	"github.com/bradenaw/juniper/container/tree"
	"github.com/bradenaw/juniper/iterator"
	"github.com/bradenaw/juniper/xsort"

	"verif/vkit"
)

// wrap32: exactly 2^32 structural modifications between the creation of an iterator (or the
// placing of a cursor) and its next call, one of which moves the key it is parked on to another
// slot. An iterator whose remembered generation is narrower than the tree's would believe that
// nothing changed. 2^32 modifications take minutes, so this runs in the thorough tier only, one
// trial per kind of iterator, the trials side by side.
func wrap32(c *vkit.Case) {
	r := c.R
	kinds := []string{"Map.Iterate", "Map.Range", "Map.RangeReverse", "Set.Iterate", "Set.Range", "Set.RangeReverse"}
	kind := kinds[c.Index%len(kinds)]
	keys := []int{0, 10, 20, 30, 40, 50, 60, 70, 80, 90}
	val := func(k int) int { return k*7 + 1 }
	total := uint64(1) << 32
	if v, err := strconv.ParseUint(os.Getenv("VERIF_WRAP32_TOTAL"), 10, 64); err == nil && v >= 4 {
		total = v // for trying the scenario out at a small width
	}
	m := tree.NewMap[int, int](xsort.OrderedLess[int])
	s := tree.NewSet[int](xsort.OrderedLess[int])
	for _, k := range keys {
		m.Put(k, val(k))
		s.Add(k)
	}
	isMap := strings.HasPrefix(kind, "Map.")
	var mit iterator.Iterator[tree.KVPair[int, int]]
	var sit iterator.Iterator[int]
	var want []string
	switch kind {
	case "Map.Iterate":
		mit = m.Iterate()
		want = []string{"20=141", "30=211", "40=281", "50=351", "60=421", "70=491", "80=561", "90=631", "100000=700001"}
	case "Map.Range":
		mit = m.Range(tree.Included(-5), tree.Excluded(85))
		want = []string{"20=141", "30=211", "40=281", "50=351", "60=421", "70=491", "80=561"}
	case "Map.RangeReverse":
		mit = m.RangeReverse(tree.Included(5), tree.Included(85))
		want = []string{"60=421", "50=351", "40=281", "30=211", "20=141", "10=71"}
	case "Set.Iterate":
		sit = s.Iterate()
		want = []string{"20", "30", "40", "50", "60", "70", "80", "90", "100000"}
	case "Set.Range":
		sit = s.Range(tree.Included(-5), tree.Excluded(85))
		want = []string{"20", "30", "40", "50", "60", "70", "80"}
	case "Set.RangeReverse":
		sit = s.RangeReverse(tree.Included(5), tree.Included(85))
		want = []string{"60", "50", "40", "30", "20", "10"}
	}
	// two items are taken; the iterator is now parked on the third
	if isMap {
		mit.Next()
		mit.Next()
	} else {
		sit.Next()
		sit.Next()
	}
	// 1 modification that moves the parked key to another slot, 1 insertion far away that stays,
	// then put+delete pairs of a key beyond everything: the number of modifications is exact.
	if isMap {
		m.Delete(0)
		m.Put(100000, val(100000))
		for n := uint64(2); n < total; n += 2 {
			m.Put(200000, 1)
			m.Delete(200000)
		}
	} else {
		s.Remove(0)
		s.Add(100000)
		for n := uint64(2); n < total; n += 2 {
			s.Add(200000)
			s.Remove(200000)
		}
	}
	var got []string
	for len(got) < 50 {
		if isMap {
			kv, ok := mit.Next()
			if !ok {
				break
			}
			got = append(got, fmt.Sprintf("%d=%d", kv.Key, kv.Value))
		} else {
			k, ok := sit.Next()
			if !ok {
				break
			}
			got = append(got, fmt.Sprint(k))
		}
	}
	r.Eval(1)
	r.Count("mutations", "exactly 2^32 modifications between two calls of one iterator", 1)
	r.Count("wrap32", kind, 1)
	if fmt.Sprint(got) != fmt.Sprint(want) {
		c.Violation("wrap32", fmt.Sprintf("%s: after exactly %d structural modifications between two Next calls (the first of them removed key 0, which moves the parked key to another slot) the rest of the iteration was %v, want %v", kind, total, got, want), nil)
	}
}
