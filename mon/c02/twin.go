package main

import (
	"fmt"
	"sort"

	"github.com/bradenaw/juniper/container/tree"
	"github.com/bradenaw/juniper/iterator"
	"github.com/bradenaw/juniper/xsort"

	"verif/vkit"
)

// twin: two collections of the SAME type live side by side on one goroutine. A is built, an
// iterator of A is parked, then A shrinks until nodes are merged away (also around the parked
// key); then B — an unrelated collection — is built by the same kind of insertion sequence that
// built A, so that whatever B's splits allocate looks like the nodes A has just given up; then
// A's iterator carries on. It must yield A's entries with A's values: nothing that happens to
// another collection may reach an iterator of this one (state shared between collections of one
// type — a node pool, a package-level cache — shows here and nowhere in single-collection runs).
func twin(c *vkit.Case) {
	r := c.R
	rnd := c.Rand
	n := []int{17, 24, 33, 40, 64, 130, 300}[rnd.Intn(7)]
	desc := rnd.Bool(0.3)
	useSet := c.Index%3 == 2
	valA := func(k int) int { return k*7 + 1 }
	valB := func(k int) int { return k*7 + 2 }
	order := make([]int, n)
	for i := range order {
		order[i] = i
		if desc {
			order[i] = n - 1 - i
		}
	}
	a := tree.NewMap[int, int](xsort.OrderedLess[int])
	sa := tree.NewSet[int](xsort.OrderedLess[int])
	for _, k := range order {
		a.Put(k, valA(k))
		sa.Add(k)
	}
	model := map[int]bool{}
	for _, k := range order {
		model[k] = true
	}
	reverse := rnd.Bool(0.3)
	var mit iterator.Iterator[tree.KVPair[int, int]]
	var sit iterator.Iterator[int]
	switch {
	case useSet && reverse:
		sit = sa.RangeReverse(tree.Unbounded[int](), tree.Unbounded[int]())
	case useSet:
		sit = sa.Iterate()
	case reverse:
		mit = a.RangeReverse(tree.Unbounded[int](), tree.Unbounded[int]())
	default:
		mit = a.Iterate()
	}
	next := func() (int, int, bool) {
		if useSet {
			k, ok := sit.Next()
			return k, 0, ok
		}
		kv, ok := mit.Next()
		return kv.Key, kv.Value, ok
	}
	// advance to a seeded position; the iterator is then parked on the following key
	adv := rnd.Intn(n - 1)
	last := -1
	for i := 0; i < adv; i++ {
		k, _, ok := next()
		if !ok {
			return
		}
		last = k
	}
	// shrink A: delete a seeded set of keys that the iterator has already passed, or that lie
	// well ahead of it, never the next few keys (so the parked key itself stays and keeps its slot
	// history interesting); enough of them that leaves merge
	var parked int
	if reverse {
		parked = n - 1 - adv
	} else {
		parked = adv
	}
	dels := 0
	for k := 0; k < n; k++ {
		near := k >= parked-1 && k <= parked+1
		if near || rnd.Bool(0.25) {
			continue
		}
		if useSet {
			sa.Remove(k)
		} else {
			a.Delete(k)
		}
		delete(model, k)
		dels++
	}
	// build B (and a few more) the way A was built
	twins := rnd.Range(1, 3)
	for t := 0; t < twins; t++ {
		b := tree.NewMap[int, int](xsort.OrderedLess[int])
		sb := tree.NewSet[int](xsort.OrderedLess[int])
		for _, k := range order {
			if useSet {
				sb.Add(k)
			} else {
				b.Put(k, valB(k))
			}
		}
	}
	// A's iterator carries on
	var want []int
	for k := range model {
		if (last == -1) || (!reverse && k > last) || (reverse && k < last) {
			want = append(want, k)
		}
	}
	sort.Ints(want)
	if reverse {
		for i, j := 0, len(want)-1; i < j; i, j = i+1, j-1 {
			want[i], want[j] = want[j], want[i]
		}
	}
	var got []int
	bad := ""
	for len(got) <= len(want)+2 {
		var k, v int
		var ok bool
		p := vkit.Try(func() { k, v, ok = next() })
		if p != nil {
			bad = fmt.Sprintf("Next panicked: %v", p.Value)
			break
		}
		if !ok {
			break
		}
		got = append(got, k)
		if !useSet && v != valA(k) {
			bad = fmt.Sprintf("key %d was yielded with value %d; this collection holds %d for it (%d is what the OTHER collection holds)", k, v, valA(k), valB(k))
			break
		}
	}
	r.Eval(1)
	r.Count("twin", "rounds", 1)
	if bad == "" && fmt.Sprint(got) != fmt.Sprint(want) {
		bad = fmt.Sprintf("the rest of the iteration was %v, want %v", trunc(got), trunc(want))
	}
	if bad != "" {
		kind := "Map"
		if useSet {
			kind = "Set"
		}
		c.Violation("twin", fmt.Sprintf("twin: %s of %d keys (inserted %s), iterator (reverse=%v) parked after %d yields, %d keys deleted, then %d other collection(s) of the same type built by the same insertions: %s",
			kind, n, map[bool]string{false: "ascending", true: "descending"}[desc], reverse, adv, dels, twins, bad), nil)
	}
}

func trunc(x []int) []int {
	if len(x) > 24 {
		return x[:24]
	}
	return x
}
