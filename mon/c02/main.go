// C02 — tree iterators stay correct while the tree is modified between Next calls.
//
// Oracle: the ideal sorted map of C01 plus, per live iterator, an online obligation tracker
// (DESIGN.md §4 C02): `must` = keys the iterator still owes (present since its creation, or
// inserted beyond the next yielded key and kept), `cand` = keys inserted since the last yield.
// Every Next runs under panic capture, a comparator-call budget and a CPU-time spin watch.
package main

import (
	"fmt"
	"os"
	"runtime"
	"sort"
	"strconv"

	"github.com/bradenaw/juniper/iterator"

	"verif/tk"
	"verif/vkit"
)

const cmpBudgetPerNext = 1_000_000

type spinPanic struct{}

var spin *vkit.SpinWatch

func main() {
	vkit.Main("C02", "exploration", func(r *vkit.Report) {
		r.SetRule("case = one history interleaving Put/Delete with the Next calls of up to 4 simultaneously live forward/reverse bounded iterators " +
			"on one configuration (int keys; natural, reversed, coarse orders; less- and cmp-constructed; Map and Set). Evaluation = one checked Next call. " +
			"non-trivial = at least one Next was checked after a mutation that changed the identity of the node holding the iterator's parked key, " +
			"removed that node, changed the number of levels, or emptied the tree (seen through the walk hook on trees <= 700 keys, through the shape hook otherwise); " +
			"distinct = by hash of the operation sequence.")
		r.Assume("all puts, deletes and Next calls of one history happen on one goroutine (the property's precondition)")
		r.Assume("obligation rule: a key owes a yield iff it stays in the collection from the iterator's creation, or it was inserted, lies beyond the NEXT key the iterator yields, and is not removed again (insertions between the last yielded key and the parked key may legitimately be missed)")
		spin = vkit.NewSpinWatch(r, 30_000_000_000)
		n := r.Scale(2600, 16000)
		r.Cases("hist", n, runtime.GOMAXPROCS(0), func(c *vkit.Case) { dispatch(c, c.Index%8) })
		// Generation-counter wrap-around: exactly 2^8 and 2^16 structural modifications between a
		// reseek of the iterator and its next call (a counter copy narrower than the tree's would
		// make the iterator believe nothing changed).
		r.Cases("wrap", r.Scale(48, 400), runtime.GOMAXPROCS(0), func(c *vkit.Case) { dispatch(c, c.Index%8) })
		r.Cases("twin", r.Scale(3000, 30000), 1, func(c *vkit.Case) { twin(c) })
		r.Floor("twin rounds (another collection of the same type built between two Next calls)", r.Table("twin", "rounds"), 2000)
		// (not on 32-bit targets: there the tree's own generation counter is an int of 32 bits, so
		// the scenario would measure the platform's int, not the iterator; see DESIGN.md section 7)
		if (r.Thorough() && strconv.IntSize == 64) || os.Getenv("VERIF_WRAP32_TOTAL") != "" {
			r.Cases("wrap32", 6, 6, func(c *vkit.Case) { wrap32(c) })
			r.Floor("wrap32 trials", r.Table("mutations", "exactly 2^32 modifications between two calls of one iterator"), 6)
		}
		r.Floor("histories with a Next after a structural change around the parked key", r.Table("histories", "non-trivial"), int64(n/5))
		for _, k := range []string{"parked node replaced", "parked node vanished", "levels changed", "tree emptied", "root replaced"} {
			r.Floor("Next after: "+k, r.Table("next after", k), 5)
		}
		r.Floor("obligations discharged (must-keys yielded)", r.Table("obligations", "must yielded"), 1000)
		r.Floor("inserted keys promoted to obligations", r.Table("obligations", "inserted key promoted"), 200)
	})
}

func dispatch(c *vkit.Case, k int) {
	switch k {
	case 0:
		run(c, tk.IntLessMap(true))
	case 1:
		run(c, tk.IntCmpMap(true))
	case 2:
		run(c, tk.IntReversedMap(true))
	case 3:
		run(c, tk.IntCoarseCmpMap(true))
	case 4:
		run(c, tk.IntLessSet(true))
	case 5:
		run(c, tk.IntCmpSetReversed(true))
	case 6:
		run(c, tk.TokKeyMap(true))
	default:
		run(c, tk.TokKeyLessMap(true))
	}
}

type liveIter[V any] struct {
	id      int
	it      iterator.Iterator[tk.KV[int, V]]
	reverse bool
	lo, hi  tk.Bnd[int]
	last    int
	hasLast bool
	done    bool
	must    []int // sorted in direction order
	cand    []int
	yields  int
	// structural events since the last Next (for the evidence)
	pending map[string]bool
}

type drv[V any] struct {
	c              *vkit.Case
	r              *vkit.Report
	rnd            *vkit.Rand
	cfg            tk.Config[int, V]
	sut            tk.SUT[int, V]
	model          *tk.Model[int, V]
	iters          []*liveIter[V]
	nextID         int
	valID          int
	univ           int
	ops            []string
	nops           int
	hash           uint64
	failed         bool
	nontrivial     bool
	inNext         bool
	nextStartCalls int64
}

func (d *drv[V]) log(format string, a ...any) {
	s := fmt.Sprintf(format, a...)
	d.nops++
	d.hash = d.hash*1099511628211 ^ vkit.Hash64(s)
	d.ops = append(d.ops, s)
	if len(d.ops) > 3000 {
		d.ops = d.ops[1500:]
	}
}

func (d *drv[V]) fail(sig, what string) {
	if d.failed {
		return
	}
	d.failed = true
	tail := d.ops
	if len(tail) > 80 {
		tail = tail[len(tail)-80:]
	}
	d.c.Violation(sig, d.cfg.Name+": "+what, map[string]any{"config": d.cfg.Name, "ops_so_far": d.nops, "last_ops": tail, "keys_now": d.model.Len()})
}

func (d *drv[V]) dirCmp(it *liveIter[V], a, b int) int {
	c := d.cfg.Cmp(a, b)
	if it.reverse {
		return -c
	}
	return c
}

func (d *drv[V]) removeClass(s []int, k int) []int {
	out := s[:0]
	for _, x := range s {
		if d.cfg.Cmp(x, k) != 0 {
			out = append(out, x)
		}
	}
	return out
}

// ---- structure observation (evidence only) ----

type parkInfo struct {
	node   any
	levels int
	nodes  int
	root   any
}

// parkedKey is the key the iterator is expected to yield next according to the ideal map.
func (d *drv[V]) parkedKey(it *liveIter[V]) (int, bool) {
	es := d.model.Range(it.lo, it.hi)
	if it.reverse {
		for i := len(es) - 1; i >= 0; i-- {
			if !it.hasLast || d.dirCmp(it, es[i].K, it.last) > 0 {
				return es[i].K, true
			}
		}
		return 0, false
	}
	for _, e := range es {
		if !it.hasLast || d.dirCmp(it, e.K, it.last) > 0 {
			return e.K, true
		}
	}
	return 0, false
}

func (d *drv[V]) observe() map[*liveIter[V]]parkInfo {
	out := make(map[*liveIter[V]]parkInfo)
	if len(d.iters) == 0 {
		return out
	}
	levels, nodes := d.sut.Shape()
	if d.model.Len() > 700 {
		for _, it := range d.iters {
			out[it] = parkInfo{levels: levels, nodes: nodes}
		}
		return out
	}
	w := d.sut.Walk()
	for _, it := range d.iters {
		pi := parkInfo{levels: levels, nodes: nodes, root: w.Root}
		if pk, ok := d.parkedKey(it); ok {
			for _, nd := range w.Nodes {
				if nd.Revisited {
					continue
				}
				for s := 0; s < nd.N && s < len(nd.Keys); s++ {
					if d.cfg.Cmp(nd.Keys[s], pk) == 0 {
						pi.node = nd.Ptr
					}
				}
			}
		}
		out[it] = pi
	}
	return out
}

func (d *drv[V]) compare(before map[*liveIter[V]]parkInfo) {
	if len(d.iters) == 0 {
		return
	}
	after := d.observe()
	for _, it := range d.iters {
		if it.done {
			continue
		}
		b, ok := before[it]
		if !ok {
			continue
		}
		a := after[it]
		if d.model.Len() == 0 {
			it.pending["tree emptied"] = true
		}
		if a.levels != b.levels {
			it.pending["levels changed"] = true
		}
		if a.nodes != b.nodes {
			it.pending["node count changed"] = true
		}
		if b.root != nil && a.root != nil && a.root != b.root {
			it.pending["root replaced"] = true
		}
		if b.node != nil {
			// Does the node that held the parked key still exist, and is the key the iterator is
			// parked on now held by a different node?
			if a.node == nil {
				it.pending["parked key gone"] = true
			} else if a.node != b.node {
				it.pending["parked node replaced"] = true
			}
			if d.model.Len() <= 700 {
				still := false
				w := d.sut.Walk()
				for _, nd := range w.Nodes {
					if nd.Ptr == b.node {
						still = true
					}
				}
				if !still {
					it.pending["parked node vanished"] = true
				}
			}
		}
	}
}

// ---- operations ----

func (d *drv[V]) put(j int) {
	if d.failed {
		return
	}
	d.valID++
	v := d.cfg.ValOf(d.valID)
	d.log("Put(%d)", j)
	d.r.Count("ops", "Put", 1)
	if p := vkit.Try(func() { d.sut.Put(j, v) }); p != nil {
		d.fail("panic-put", fmt.Sprintf("Put(%d) panicked: %s", j, p.Msg))
		return
	}
	if d.model.Put(j, v) {
		for _, it := range d.iters {
			if !it.done && d.model.In(j, it.lo, it.hi) {
				it.cand = append(it.cand, j)
			}
		}
	}
}

func (d *drv[V]) del(j int) {
	if d.failed {
		return
	}
	d.log("Delete(%d)", j)
	d.r.Count("ops", "Delete", 1)
	if p := vkit.Try(func() { d.sut.Delete(j) }); p != nil {
		d.fail("panic-delete", fmt.Sprintf("Delete(%d) panicked: %s", j, p.Msg))
		return
	}
	if d.model.Delete(j) {
		for _, it := range d.iters {
			it.must = d.removeClass(it.must, j)
			it.cand = d.removeClass(it.cand, j)
		}
	}
}

func (d *drv[V]) newIter() {
	if d.failed {
		return
	}
	it := &liveIter[V]{id: d.nextID, reverse: d.rnd.Bool(0.5), pending: make(map[string]bool)}
	d.nextID++
	it.lo.Kind = tk.BoundKind(d.rnd.Intn(3))
	it.hi.Kind = tk.BoundKind(d.rnd.Intn(3))
	if d.rnd.Bool(0.4) {
		it.lo.Kind, it.hi.Kind = tk.Unbounded, tk.Unbounded
	}
	a, b := d.rnd.Range(-2, d.univ/2), d.rnd.Range(d.univ/3, d.univ+2)
	if d.cfg.Cmp(a, b) > 0 {
		a, b = b, a
	}
	it.lo.Key, it.hi.Key = a, b
	plain := d.rnd.Bool(0.5)
	d.log("iter%d := %s[%v,%v] plain=%v", it.id, map[bool]string{false: "Range", true: "RangeReverse"}[it.reverse], it.lo, it.hi, plain)
	if p := vkit.Try(func() { it.it = d.sut.Iter(it.lo, it.hi, it.reverse, plain) }); p != nil {
		d.fail("panic-iter", fmt.Sprintf("creating an iterator panicked: %s", p.Msg))
		return
	}
	for _, e := range d.model.Range(it.lo, it.hi) {
		it.must = append(it.must, e.K)
	}
	if it.reverse {
		for i, j := 0, len(it.must)-1; i < j; i, j = i+1, j-1 {
			it.must[i], it.must[j] = it.must[j], it.must[i]
		}
	}
	d.iters = append(d.iters, it)
	d.r.Count("iterators", map[bool]string{false: "forward", true: "reverse"}[it.reverse]+" "+it.lo.Kind.String()+"/"+it.hi.Kind.String(), 1)
}

func (d *drv[V]) next(it *liveIter[V]) {
	if d.failed {
		return
	}
	d.log("iter%d.Next()", it.id)
	var kv tk.KV[int, V]
	var ok bool
	start := d.cfg.CountedCalls()
	d.nextStartCalls = start
	d.inNext = true
	end := spin.Begin(d.c.ID(), func() string { return fmt.Sprintf("%s iter%d.Next() after %d ops", d.cfg.Name, it.id, d.nops) })
	p := vkit.Try(func() { kv, ok = it.it.Next() })
	end()
	d.inNext = false
	d.r.Eval(1)
	used := d.cfg.CountedCalls() - start
	d.r.Max("comparator", "max calls in one Next", int(used))
	if p != nil {
		if _, isSpin := p.Value.(spinPanic); isSpin {
			d.fail("spin", fmt.Sprintf("iter%d.Next() made more than %d comparator calls without returning", it.id, cmpBudgetPerNext))
		} else {
			d.fail("panic-next", fmt.Sprintf("iter%d.Next() panicked: %s (%s)", it.id, p.Msg, p.JuniperFrame()))
		}
		return
	}
	for ev := range it.pending {
		d.r.Count("next after", ev, 1)
		if ev != "node count changed" {
			d.nontrivial = true
		}
	}
	it.pending = make(map[string]bool)
	if !ok {
		if !it.done {
			if len(it.must) > 0 {
				d.fail("skipped-at-end", fmt.Sprintf("iter%d (%s [%v,%v]) reported exhaustion after last=%v although key %v stayed in the collection and lies beyond it",
					it.id, dirName(it.reverse), it.lo, it.hi, lastStr(it), it.must[0]))
				return
			}
			it.done = true
			it.cand = nil
			d.r.Count("iterators", "exhausted", 1)
		} else {
			d.r.Count("obligations", "exhaustion re-checked", 1)
		}
		return
	}
	y := kv.K
	if it.done {
		d.fail("yield-after-end", fmt.Sprintf("iter%d yielded %v after it had reported exhaustion", it.id, y))
		return
	}
	want, present := d.model.Get(y)
	if !present {
		d.fail("yield-absent", fmt.Sprintf("iter%d yielded key %v which is not in the collection at that moment", it.id, y))
		return
	}
	if !d.cfg.ValEq(kv.V, want) {
		d.fail("yield-stale-value", fmt.Sprintf("iter%d yielded key %v with value %v, its current value is %v", it.id, y, kv.V, want))
		return
	}
	if !d.model.In(y, it.lo, it.hi) {
		d.fail("yield-out-of-bounds", fmt.Sprintf("iter%d with bounds [%v,%v] yielded %v", it.id, it.lo, it.hi, y))
		return
	}
	if it.hasLast && d.dirCmp(it, y, it.last) <= 0 {
		d.fail("yield-not-monotone", fmt.Sprintf("iter%d (%s) yielded %v after %v", it.id, dirName(it.reverse), y, it.last))
		return
	}
	for _, k := range it.must {
		if d.dirCmp(it, k, y) < 0 {
			d.fail("skipped", fmt.Sprintf("iter%d (%s [%v,%v]) moved from %v to %v past key %v, which stayed in the collection",
				it.id, dirName(it.reverse), it.lo, it.hi, lastStr(it), y, k))
			return
		}
	}
	before := len(it.must)
	it.must = d.removeClass(it.must, y)
	if len(it.must) < before {
		d.r.Count("obligations", "must yielded", 1)
	} else {
		d.r.Count("obligations", "yield of a key that was not owed (inserted)", 1)
	}
	promoted := 0
	for _, k := range it.cand {
		if d.dirCmp(it, k, y) > 0 {
			it.must = append(it.must, k)
			promoted++
		}
	}
	if promoted > 0 {
		d.r.Count("obligations", "inserted key promoted", promoted)
		sort.Slice(it.must, func(a, b int) bool { return d.dirCmp(it, it.must[a], it.must[b]) < 0 })
	}
	it.cand = it.cand[:0]
	it.last, it.hasLast = y, true
	it.yields++
}

func dirName(rev bool) string {
	if rev {
		return "reverse"
	}
	return "forward"
}

func lastStr[V any](it *liveIter[V]) string {
	if !it.hasLast {
		return "<start>"
	}
	return fmt.Sprint(it.last)
}

// mutate performs one batch of mutations chosen relative to the iterators' positions.
func (d *drv[V]) mutate() {
	if d.failed {
		return
	}
	before := d.observe()
	var it *liveIter[V]
	if len(d.iters) > 0 {
		it = vkit.Pick(d.rnd, d.iters)
	}
	pos := d.rnd.Intn(d.univ)
	parked, hasParked := 0, false
	if it != nil {
		if pk, ok := d.parkedKey(it); ok {
			parked, hasParked = pk, true
			pos = pk
		} else if it.hasLast {
			pos = it.last
		}
	}
	dir := 1
	if it != nil && it.reverse != d.cfg.Reversed {
		dir = -1
	}
	switch x := d.rnd.Intn(100); {
	case x < 12 && hasParked: // the parked key itself
		d.del(parked)
		d.r.Count("mutations", "delete parked key", 1)
		if d.rnd.Bool(0.3) {
			d.put(parked)
			d.r.Count("mutations", "re-put parked key", 1)
		}
	case x < 30: // just around the position
		n := d.rnd.Range(1, 4)
		for i := 0; i < n; i++ {
			j := pos + d.rnd.Range(-3, 3)
			if d.rnd.Bool(0.5) {
				d.put(j)
			} else {
				d.del(j)
			}
		}
		d.r.Count("mutations", "around position", 1)
	case x < 45: // a run of deletes starting at / just after the position (merges, steals, unlinking of the parked node)
		n := d.rnd.Range(1, 40)
		start := pos + dir*d.rnd.Range(-2, 2)
		for i := 0; i < n; i++ {
			d.del(start + dir*i)
		}
		d.r.Count("mutations", "delete run ahead", 1)
	case x < 55: // a run of deletes behind the position
		n := d.rnd.Range(1, 40)
		for i := 1; i <= n; i++ {
			d.del(pos - dir*i)
		}
		d.r.Count("mutations", "delete run behind", 1)
	case x < 72: // a run of puts around the position (splits of the parked node)
		n := d.rnd.Range(1, 40)
		start := pos + dir*d.rnd.Range(-5, 2)
		for i := 0; i < n; i++ {
			d.put(start + dir*i)
		}
		d.r.Count("mutations", "put run around", 1)
	case x < 80: // far ahead / far behind
		j := pos + dir*d.rnd.Range(20, d.univ)
		if d.rnd.Bool(0.5) {
			j = pos - dir*d.rnd.Range(20, d.univ)
		}
		if d.rnd.Bool(0.6) {
			d.put(j)
		} else {
			d.del(j)
		}
		d.r.Count("mutations", "far away", 1)
	case x < 84: // delete everything
		for len(d.model.E) > 0 && !d.failed {
			d.del(d.model.E[d.rnd.Intn(len(d.model.E))].K)
		}
		d.r.Count("mutations", "delete everything", 1)
	case x < 88: // drain to a handful of keys (root collapses to a single leaf)
		keep := d.rnd.Range(1, 10)
		for len(d.model.E) > keep && !d.failed {
			var j int
			switch d.rnd.Intn(3) {
			case 0:
				j = d.model.E[0].K
			case 1:
				j = d.model.E[len(d.model.E)-1].K
			default:
				j = d.model.E[d.rnd.Intn(len(d.model.E))].K
			}
			d.del(j)
		}
		d.r.Count("mutations", "drain to a single leaf", 1)
	case x < 93: // refill
		n := d.rnd.Range(10, 80)
		for i := 0; i < n; i++ {
			d.put(d.rnd.Intn(d.univ))
		}
		d.r.Count("mutations", "refill", 1)
	default: // uniform
		n := d.rnd.Range(1, 6)
		for i := 0; i < n; i++ {
			if d.rnd.Bool(0.5) {
				d.put(d.rnd.Intn(d.univ))
			} else {
				d.del(d.rnd.Intn(d.univ))
			}
		}
		d.r.Count("mutations", "uniform", 1)
	}
	d.compare(before)
}

// wrapScenario: force the iterator to re-seek (delete its parked key, call Next), then make exactly
// 2^k structural modifications that also invalidate the slot it is parked on, then call Next.
func (d *drv[V]) wrapScenario() {
	for round := 0; round < 3 && !d.failed; round++ {
		d.newIter()
		if d.failed {
			return
		}
		it := d.iters[len(d.iters)-1]
		// advance a little
		for i := d.rnd.Intn(4); i >= 0 && !d.failed && !it.done; i-- {
			d.next(it)
		}
		pk, ok := d.parkedKey(it)
		if !ok || it.done {
			continue
		}
		d.del(pk) // the iterator loses its place: the next call re-seeks and records the generation
		d.next(it)
		if it.done || d.failed {
			continue
		}
		pk2, ok := d.parkedKey(it)
		if !ok {
			continue
		}
		total := 1 << []int{8, 16}[d.c.Index/8%2]
		// 1 modification that shifts the parked slot, 1 insert far away, then pairs of put+delete of
		// a key outside every iterator's interest: total modifications == 2^k exactly.
		d.del(pk2)
		far := d.univ + 1000 + d.rnd.Intn(1000)
		d.put(far)
		other := d.univ + 5000
		for n := 2; n < total; n += 2 {
			d.put(other)
			d.del(other)
		}
		d.r.Count("mutations", fmt.Sprintf("exactly 2^%d modifications between a reseek and the next call", []int{8, 16}[d.c.Index/8%2]), 1)
		d.next(it)
		for guard := 0; !it.done && !d.failed && guard < 8; guard++ {
			d.next(it)
		}
		d.del(far)
	}
}

func run[V any](c *vkit.Case, cfg tk.Config[int, V]) {
	r := c.R
	d := &drv[V]{c: c, r: r, rnd: c.Rand, cfg: cfg, model: tk.NewModel[int, V](cfg.Cmp)}
	// comparator budget: wrap the counter check into the comparator through the Counter pointer
	// is not possible, so the budget is enforced by a counting wrapper installed here.
	d.sut = newBudgeted(d, cfg)
	us := []int{20, 100, 600, 3000}
	d.univ = us[c.Index/8%len(us)]
	if r.Thorough() && c.Index%160 == 7 {
		d.univ = []int{20000, 50000}[c.Index/160%2] // a few deep trees (the model costs O(n) per step there)
	}
	// initial fill: a fraction of the universe, in one of several orders
	fill := d.rnd.Range(d.univ/4, d.univ)
	switch d.rnd.Intn(3) {
	case 0:
		for i := 0; i < fill; i++ {
			d.put(i)
		}
	case 1:
		for i := fill; i >= 0; i-- {
			d.put(i)
		}
	default:
		for i := 0; i < fill; i++ {
			d.put(d.rnd.Intn(d.univ))
		}
	}
	if c.Group == "wrap" {
		d.wrapScenario()
		r.Count("histories", "total", 1)
		r.Count("configs", cfg.Name, 1)
		return
	}
	steps := d.rnd.Range(60, r.Scale(400, 1500))
	if d.univ >= 3000 {
		steps = d.rnd.Range(40, r.Scale(160, 600))
	}
	for s := 0; s < steps && !d.failed; s++ {
		// keep 1..4 iterators alive
		live := 0
		for _, it := range d.iters {
			if !it.done {
				live++
			}
		}
		if len(d.iters) == 0 || (live < 4 && len(d.iters) < 4 && d.rnd.Bool(0.15)) {
			d.newIter()
			continue
		}
		if len(d.iters) >= 4 && live == 0 || (len(d.iters) >= 2 && d.rnd.Bool(0.02)) {
			// retire one iterator (abandoning an iterator is allowed) after re-checking exhaustion
			i := d.rnd.Intn(len(d.iters))
			d.iters = append(d.iters[:i], d.iters[i+1:]...)
			continue
		}
		if d.rnd.Bool(0.55) {
			d.next(vkit.Pick(d.rnd, d.iters))
		} else {
			d.mutate()
		}
	}
	// drain the remaining iterators to the end (every obligation must be discharged) and re-check
	// that exhaustion sticks, also across further inserts.
	for _, it := range d.iters {
		for guard := 0; !it.done && !d.failed && guard < d.model.Len()+10; guard++ {
			d.next(it)
		}
		if !it.done && !d.failed {
			d.fail("no-end", fmt.Sprintf("iter%d did not report exhaustion after %d further Next calls on a collection of %d keys", it.id, d.model.Len()+10, d.model.Len()))
		}
	}
	for round := 0; round < 2 && !d.failed; round++ {
		for i := 0; i < 5; i++ {
			d.put(d.rnd.Range(-5, d.univ+5))
		}
		for _, it := range d.iters {
			d.next(it)
		}
	}
	r.Count("histories", "total", 1)
	r.Count("configs", cfg.Name, 1)
	r.Max("tree", "keys", d.model.Len())
	if d.nontrivial {
		r.Count("histories", "non-trivial", 1)
		r.Distinct(fmt.Sprintf("%s|%x|%d", cfg.Name, d.hash, d.nops))
	}
	if r.WantSample() && d.nops > 100 && d.univ <= 100 {
		first := d.ops
		if len(first) > 60 {
			first = first[:60]
		}
		r.Sample(map[string]any{"config": cfg.Name, "universe": d.univ, "operations": d.nops, "first_ops": first})
	}
}

// newBudgeted builds the collection with the configuration's counting comparator and installs the
// comparison budget: the comparator itself panics with spinPanic once a single Next has made more
// than cmpBudgetPerNext calls (a Next costs O(levels * 15) comparisons), which vkit.Try turns
// into a verdict instead of a hang.
func newBudgeted[V any](d *drv[V], cfg tk.Config[int, V]) tk.SUT[int, V] {
	cfg.SetCompareHook(func() {
		if d.inNext && *cfg.Counter-d.nextStartCalls > cmpBudgetPerNext {
			panic(spinPanic{})
		}
	})
	return cfg.New()
}
