// C04 — deque.Deque answers every call exactly like an ideal double-ended sequence.
//
// Oracle: reference-model monitor. The model is a plain slice written from the documentation (no
// juniper code). Every call goes through try (vkit.Try without the stack for expected panics); its outcome (value | panicked) is compared with
// the model's on the spot, and after every call the whole deque is read back: Len, Front/Back (or
// their panic), Item(i) for every i, and on every 8th call a full Iterate through a FRESH iterator
// (deque iterators panic after any modification). Through the read-only hook VerifState/VerifSlots
// the raw ring is inspected: every slot outside the live window [front, front+len) must hold the
// zero value (elements are non-zero tokens), which is the "popped elements are not retained"
// clause.
//
// Workloads: (b) a complete closure over the abstract states (cap, front, len, allocated?) with
// small capacities, reached through Grow(k) on the zero value and Shrink, applying every operation
// and argument class from every newly reached state (the prefix is replayed on a fresh deque);
// (a) seeded random walks with biased operation mixes.
//
// (c) arithmetic bands: Grow/Shrink arguments where a size computation (Len()+n)*k/m or (cap+n)*k/m
// would wrap around 2^64, on a few non-empty states; such a call may panic or return, the contents
// must be the model's either way. (d) enormous deques of zero-size elements (Grow(MaxInt) and the
// like, indices near MaxInt; only O(Len) work), including the named regression scenario for the
// front+i overflow fixed in /repo commit df3d494.
//
// (e) element types of 64 KiB, 350 KiB, 1 MiB and 4 MiB (huge.go): a reduced small-capacity cover
// with its own cheap runner.
//
// (f) real one-byte elements on buffers of 2^31..3*2^31 slots, one child process each (astro.go).
//
// (g) finalizer-based collectability probe for popped elements (gc.go).
//
// Element types: the deque is generic, so the static element type is an input too. Besides *int,
// int and string, the cover and a reduced number of walks run over uint8 (1 byte), struct{} (0
// bytes; single-valued, so only Len/panics/iteration counts/hook state are informative and the
// retention check is skipped), any (interface), a 608-byte struct and a struct of more than 4096
// bytes (bounded cover and short walks, because every read copies and compares the element).
package main

import (
	"fmt"
	"math"
	"math/bits"
	"os"
	"runtime"
	"runtime/debug"
	"strconv"
	"strings"
	"sync"

	"github.com/bradenaw/juniper/container/deque"

	"verif/vkit"
)

func main() {
	if s := os.Getenv(astroEnv); s != "" {
		astroChildMain(s) // child process of the astro-real group: one scenario, then exit
		return
	}
	vkit.Main("C04", "exploration", func(r *vkit.Report) {
		r.SetRule("an evaluation = one compared outcome (value | panicked) of one call, including every call of the read-back after each operation " +
			"and every raw-ring inspection. distinct_nontrivial = distinct pairs (abstract state, operation+argument class) executed, " +
			"abstract state = (cap, front, len, allocated?) read through the hook BEFORE the call, counted only where that state is " +
			"wrapped (front+len > cap), full (len == cap > 0) or one of the empty encodings (zero value, allocated with back == -1, cap == 0 non-nil); " +
			"argument classes: Item/Set index in {neg, first, mid, last, len, beyond}, Grow n in {0, fits, realloc}, Shrink n in {neg, noop, to-fit, partial}. " +
			"Pairs come from the state-cover closure (every class from every state with cap <= bound or cap == 16/32) and from the random walks. " +
			"Both run for each of 8 element types (*int, int, string, uint8, struct{}, any, a 608-byte struct, a >4096-byte struct; the last two with a smaller cover bound and fewer, shorter walks); " +
			"the element type is not part of the pair's key. Elements of 64 KiB, 350 KiB, 1 MiB and 4 MiB (the last not on 32-bit targets) run a reduced cover of the 1..4-slot buffers, compared by markers inside the elements.")
		r.Assume("struct{} elements are indistinguishable: for that element type only lengths, panics, iteration counts and the raw state are compared")
		r.Assume("a Deque value is not copied after first use (documented precondition); all calls on one deque come from one goroutine")
		r.Assume("Grow is only called with n >= 0 (negative n is not specified by the statement)")
		r.Assume("a Grow or Shrink that would have to allocate >= 2^56 elements may panic or return (it returns for zero-size elements); in both cases the contents are compared with the model afterwards")
		r.Assume("which panic value a refused call raises is not judged: any panic counts as 'panicked'")
		sh := newShared(r)
		wide := strconv.IntSize >= 64 // astronomic arguments need 64-bit ints
		if wide {
			regress(r, sh)
		}
		cover(r, sh)
		walks(r, sh)
		hugeElems(r)
		astroReal(r)
		gcProbes(r)
		// The groups with astronomic arguments on zero-size elements come last and only while nothing
		// has been refuted: on a broken library such a call may loop over 2^62 slots, i.e. never
		// return, and a verdict already reached must not be lost to the wall-clock watchdog (there
		// is no time-based verdict in this monitor).
		if wide {
			if r.NViolations() == 0 {
				band(r, sh)
				hugeWalks(r, sh)
			} else {
				r.Count("skipped", "astronomic-argument groups (band, huge), because a violation was already recorded", 1)
			}
		}
		sh.finish()
	})
}

// ---------------------------------------------------------------------------------------------
// Element types: non-zero tokens, a fresh one for every PushFront/PushBack/Set.

type elemKind[T comparable] struct {
	name string
	mk   func(id int) T // id >= 1; never the zero value of T (except for noTokens kinds)
	show func(T) string

	// noTokens: T has a single value (zero-size type), which is its own zero value. Values cannot
	// tell anything; Len, panics, iteration counts and the hook state still can. The raw-ring
	// retention check does not apply.
	noTokens bool
	// light > 0: the element type is expensive to copy and compare; the state cover is bounded to
	// cap <= light (no larger capacities are expanded), walks are short and Grow arguments small.
	light   int
	maxGrow int // 0 = unlimited
	maxOps  int // 0 = the tier's default walk length
}

var intKind = elemKind[int]{
	name: "int",
	mk:   func(id int) int { return id },
	show: func(v int) string { return fmt.Sprint(v) },
}

var ptrKind = elemKind[*int]{
	name: "*int",
	mk:   func(id int) *int { p := new(int); *p = id; return p },
	show: func(p *int) string {
		if p == nil {
			return "nil"
		}
		return fmt.Sprintf("&%d", *p)
	},
}

var strKind = elemKind[string]{
	name: "string",
	mk:   func(id int) string { return fmt.Sprintf("s%d", id) },
	show: func(s string) string { return fmt.Sprintf("%q", s) },
}

// The implementation is generic; the only thing about T it could depend on is its size and
// layout. The kinds below vary exactly that: 1 byte (adjacent slots), 0 bytes, an interface, a few
// hundred bytes, and more than a page (4 KiB) per element.

var byteKind = elemKind[uint8]{
	name: "uint8",
	mk:   func(id int) uint8 { return uint8(id%255) + 1 }, // non-zero; repeats after 255 pushes
	show: func(v uint8) string { return fmt.Sprint(v) },
}

type unit struct{}

var unitKind = elemKind[unit]{
	name:     "struct{}",
	mk:       func(id int) unit { return unit{} },
	show:     func(unit) string { return "{}" },
	noTokens: true,
}

var anyKind = elemKind[any]{
	name: "any",
	mk:   func(id int) any { return id },
	show: func(v any) string { return fmt.Sprintf("any(%v)", v) },
}

type mid struct {
	id  int
	pad [600]byte
}

var midKind = elemKind[mid]{
	name: "struct{int;[600]byte}",
	mk: func(id int) mid {
		m := mid{id: id}
		m.pad[0], m.pad[599] = byte(id)|1, byte(id>>8)|1
		return m
	},
	show:    func(m mid) string { return fmt.Sprintf("mid#%d(%d..%d)", m.id, m.pad[0], m.pad[599]) },
	light:   6,
	maxGrow: 300,
	maxOps:  250,
}

type big struct {
	id  int
	pad [4097]byte // one byte more than a page: unsafe.Sizeof(big{}) > 4096
}

var bigKind = elemKind[big]{
	name: "struct{int;[4097]byte}",
	mk: func(id int) big {
		b := big{id: id}
		b.pad[0], b.pad[4096] = byte(id)|1, byte(id>>8)|1
		return b
	},
	show:    func(b big) string { return fmt.Sprintf("big#%d(%d..%d)", b.id, b.pad[0], b.pad[4096]) },
	light:   4,
	maxGrow: 64,
	maxOps:  120,
}

// ---------------------------------------------------------------------------------------------
// Operations

type opKind int

const (
	opPushFront opKind = iota
	opPushBack
	opPopFront
	opPopBack
	opFront
	opBack
	opItem
	opSet
	opLen
	opGrow
	opShrink
	opIterate
	nOpKinds
)

var opNames = [...]string{"PushFront", "PushBack", "PopFront", "PopBack", "Front", "Back", "Item", "Set", "Len", "Grow", "Shrink", "Iterate"}

type op struct {
	k   opKind
	arg int // index for Item/Set, n for Grow/Shrink
}

func (o op) hasArg() bool { return o.k == opItem || o.k == opSet || o.k == opGrow || o.k == opShrink }

func (o op) String() string {
	if o.hasArg() {
		return fmt.Sprintf("%s(%d)", opNames[o.k], o.arg)
	}
	return opNames[o.k]
}

// class names the operation together with the class of its argument relative to the state it is
// applied in (n = number of items, c = capacity).
func (o op) class(n, c int) string {
	free := c - n
	switch o.k {
	case opItem, opSet:
		i := o.arg
		var a string
		switch {
		case i < 0:
			a = "neg"
		case i > n:
			a = "beyond"
		case i == n:
			a = "len"
		case i == 0:
			a = "first"
		case i == n-1:
			a = "last"
		default:
			a = "mid"
		}
		return opNames[o.k] + ":" + a
	case opGrow:
		switch {
		case astronomic(o.arg):
			return "Grow:astronomic"
		case o.arg == 0:
			return "Grow:0"
		case o.arg <= free:
			return "Grow:fits"
		default:
			return "Grow:realloc"
		}
	case opShrink:
		switch {
		case o.arg < 0:
			return "Shrink:neg"
		case astronomic(o.arg):
			return "Shrink:astronomic"
		case o.arg >= free:
			return "Shrink:noop"
		case o.arg == 0:
			return "Shrink:to-fit"
		default:
			return "Shrink:partial"
		}
	}
	return opNames[o.k]
}

// astronomic arguments: a buffer of that many elements cannot be allocated for any element type of
// non-zero size (make panics with "len out of range" before touching anything: the limit is 2^48
// bytes), but can for a zero-size element type. When such a call has to reallocate, either outcome
// (panicked | returned) is accepted; the contents must be the model's afterwards in both cases.
// Nothing between 4096 and 2^56 is ever passed to Grow, so no real allocation can exhaust memory.
func astronomic(n int) bool { return n >= astroMin }

// 2^56 with 64-bit ints. With 32-bit ints there are no such arguments (a buffer of 2^30 bytes can
// really be allocated there), and the scenarios built on them are not run.
var astroMin = func() int {
	if strconv.IntSize >= 64 {
		return math.MaxInt/128 + 1
	}
	return math.MaxInt
}()

// ---------------------------------------------------------------------------------------------
// Abstract state (read through the hook)

type stKey struct {
	cap, front, n int
	alloc         bool
}

func (k stKey) String() string {
	if !k.alloc {
		return "unallocated"
	}
	return fmt.Sprintf("cap=%d,front=%d,len=%d", k.cap, k.front, k.n)
}

func (k stKey) wrapped() bool { return k.n > 0 && k.n > k.cap-k.front }
func (k stKey) full() bool    { return k.cap > 0 && k.n == k.cap }
func (k stKey) empty() bool   { return k.n == 0 }

func (k stKey) interesting() bool { return k.empty() || k.full() || k.wrapped() }

func (k stKey) kind() string {
	switch {
	case !k.alloc:
		return "empty: zero value (unallocated)"
	case k.cap == 0:
		return "empty: cap == 0 but allocated"
	case k.n == 0:
		return "empty: allocated (back == -1)"
	case k.full() && k.wrapped():
		return "full and wrapped"
	case k.full():
		return "full, contiguous (exactly fitting)"
	case k.wrapped():
		return "wrapped, not full"
	default:
		return "contiguous, not full"
	}
}

func (k stKey) layout() string {
	switch {
	case !k.alloc:
		return "unallocated"
	case k.n == 0:
		return "empty"
	case k.wrapped():
		return "wrapped"
	default:
		return "contiguous"
	}
}

func capBucket(c int) string {
	switch {
	case c <= 8:
		return "cap 0..8"
	case c <= 16:
		return "cap 9..16"
	case c <= 64:
		return "cap 17..64"
	case !astronomic(c):
		return "cap > 64"
	default:
		return "cap astronomic (zero-size elements)"
	}
}

// shared holds what all cases contribute to: the set of abstract states visited.
type shared struct {
	r    *vkit.Report
	mu   sync.Mutex
	seen map[stKey]struct{}
}

func newShared(r *vkit.Report) *shared { return &shared{r: r, seen: make(map[stKey]struct{})} }

func (s *shared) seeAll(ks map[stKey]struct{}) {
	s.mu.Lock()
	for k := range ks {
		s.seen[k] = struct{}{}
	}
	s.mu.Unlock()
}

func (s *shared) finish() {
	r := s.r
	s.mu.Lock()
	for k := range s.seen {
		r.Count("distinct abstract states visited, by capacity", capBucket(k.cap), 1)
		r.Count("distinct abstract states visited, by kind", k.kind(), 1)
	}
	s.mu.Unlock()
	if r.Replaying() {
		return
	}
	for _, kind := range []string{
		"empty: zero value (unallocated)", "empty: cap == 0 but allocated", "empty: allocated (back == -1)",
		"full and wrapped", "full, contiguous (exactly fitting)", "wrapped, not full", "contiguous, not full",
	} {
		r.Floor("operations executed from a state that is "+kind, r.Table("operations executed, by kind of the state before", kind), 200)
	}
	for _, k := range []string{
		"PushFront:unallocated", "PushBack:unallocated", "PushFront:empty", "PushBack:empty",
		"PushFront:wrapped", "PushFront:contiguous", "PushBack:wrapped", "PushBack:contiguous",
		"Grow:unallocated", "Grow:empty", "Grow:wrapped", "Grow:contiguous",
		"Shrink:empty", "Shrink:wrapped", "Shrink:contiguous",
	} {
		r.Floor("reallocations of kind "+k, r.Table("reallocations, by operation and layout before", k), 10)
	}
	for _, k := range []string{
		"PopFront on empty", "PopBack on empty", "Front on empty", "Back on empty",
		"Item:neg", "Item:len", "Item:beyond", "Set:neg", "Set:len", "Set:beyond", "Shrink:neg",
	} {
		r.Floor("expected panics observed for "+k, r.Table("panics that the model expects, observed", k), 20)
	}
}

// ---------------------------------------------------------------------------------------------
// try is vkit.Try, except that the stack of the panic is only rendered when the model does not
// expect the call to panic. (Half of all read-backs on an empty deque are expected panics of
// Front/Back; debug.Stack takes a process-wide lock and was 90% of the run time.)
func try(expectPanic bool, f func()) (p *vkit.Panic) {
	defer func() {
		if v := recover(); v != nil {
			p = &vkit.Panic{Value: v, Msg: fmt.Sprint(v)}
			if !expectPanic {
				p.Stack = string(debug.Stack())
			}
		}
	}()
	f()
	return nil
}

// ---------------------------------------------------------------------------------------------
// The runner: one deque, one model, every call compared.

type runner[T comparable] struct {
	c  *vkit.Case
	r  *vkit.Report
	sh *shared
	ek elemKind[T]

	d      *deque.Deque[T]
	model  []T
	nextID int

	log    []string
	nops   int
	failed bool
	quiet  bool // replaying an already-checked prefix: compare outcomes, count nothing
	thor   bool // force the complete read-back including Iterate after every call
	evals  int
	rnd    *vkit.Rand // only for choosing sampled read-back indexes on long deques

	// local accumulators, flushed into the report once per run (the report's lock is global)
	counts   map[[2]string]int
	maxes    map[[2]string]int
	distinct map[string]struct{}
	seen     map[stKey]struct{}
}

func newRunner[T comparable](c *vkit.Case, sh *shared, ek elemKind[T]) *runner[T] {
	return &runner[T]{c: c, r: c.R, sh: sh, ek: ek, d: new(deque.Deque[T]), rnd: c.Rand.Split(),
		counts: make(map[[2]string]int), maxes: make(map[[2]string]int),
		distinct: make(map[string]struct{}), seen: make(map[stKey]struct{})}
}

func (x *runner[T]) flush() {
	x.r.Eval(x.evals)
	x.evals = 0
	for k, v := range x.counts {
		x.r.Count(k[0], k[1], v)
	}
	for k, v := range x.maxes {
		x.r.Max(k[0], k[1], v)
	}
	for k := range x.distinct {
		x.r.Distinct(k)
	}
	x.sh.seeAll(x.seen)
	x.counts = make(map[[2]string]int)
	x.maxes = make(map[[2]string]int)
	x.distinct = make(map[string]struct{})
	x.seen = make(map[stKey]struct{})
}

func (x *runner[T]) max(table, key string, v int) {
	k := [2]string{table, key}
	if cur, ok := x.maxes[k]; !ok || v > cur {
		x.maxes[k] = v
	}
}

func (x *runner[T]) hook() (stKey, int) {
	st := x.d.VerifState()
	n := 0
	switch {
	case !st.Allocated || st.Back == -1:
		n = 0
	case st.Front <= st.Back:
		n = st.Back - st.Front + 1
	default:
		n = st.Cap - st.Front + st.Back + 1
	}
	return stKey{cap: st.Cap, front: st.Front, n: n, alloc: st.Allocated}, st.Gen
}

func (x *runner[T]) state() stKey {
	k, _ := x.hook()
	return k
}

func (x *runner[T]) opsForWitness() []string {
	if len(x.log) <= 320 {
		return x.log
	}
	out := append([]string{}, x.log[:20]...)
	out = append(out, fmt.Sprintf("... %d operations omitted (replay the case to get them) ...", len(x.log)-300))
	return append(out, x.log[len(x.log)-280:]...)
}

func (x *runner[T]) showModel() string {
	var b strings.Builder
	b.WriteByte('[')
	for i, v := range x.model {
		if i == 24 {
			fmt.Fprintf(&b, " ... (%d items)", len(x.model))
			break
		}
		if i > 0 {
			b.WriteByte(' ')
		}
		b.WriteString(x.ek.show(v))
	}
	b.WriteByte(']')
	return b.String()
}

func (x *runner[T]) fail(sig, what string) {
	if x.failed {
		return
	}
	x.failed = true
	tail := x.log
	if len(tail) > 12 {
		tail = tail[len(tail)-12:]
	}
	st := x.d.VerifState()
	x.c.Violation(sig,
		fmt.Sprintf("Deque[%s] after %d calls ending in %s: %s (ideal sequence now %s; raw cap=%d front=%d back=%d)",
			x.ek.name, len(x.log), strings.Join(tail, " "), what, x.showModel(), st.Cap, st.Front, st.Back),
		map[string]any{
			"elem": x.ek.name, "ops_from_zero_value": x.opsForWitness(), "n_ops": len(x.log),
			"note":  "push and Set values are fresh tokens numbered 1, 2, ... in call order",
			"model": x.showModel(),
		})
}

func (x *runner[T]) token() T {
	x.nextID++
	return x.ek.mk(x.nextID)
}

func (x *runner[T]) count(table, key string) {
	if !x.quiet {
		x.counts[[2]string{table, key}]++
	}
}

// expectPanic compares a refused call: it must have panicked.
func (x *runner[T]) expectPanic(p *vkit.Panic, sig, key, what string) {
	x.evals++
	if p == nil {
		x.fail(sig+"-no-panic", what+" did not panic")
		return
	}
	x.count("panics that the model expects, observed", key)
}

func (x *runner[T]) noPanic(p *vkit.Panic, sig, what string) bool {
	if p != nil {
		x.fail(sig+"-panic", fmt.Sprintf("%s panicked: %s (at %s)", what, p.Msg, p.JuniperFrame()))
		return false
	}
	return true
}

// step executes one operation on the deque and on the model and compares.
func (x *runner[T]) step(o op) {
	if x.failed {
		return
	}
	pre, preGen := x.hook()
	n := len(x.model)
	cls := o.class(n, pre.cap)
	x.log = append(x.log, o.String())
	if !x.quiet {
		x.count("operations, by class", cls)
		x.count("operations executed, by kind of the state before", pre.kind())
		x.seen[pre] = struct{}{}
		if pre.interesting() {
			x.distinct[pre.String()+"|"+cls] = struct{}{}
		}
	}
	d := x.d
	switch o.k {
	case opPushFront:
		v := x.token()
		p := try(false, func() { d.PushFront(v) })
		x.evals++
		if !x.noPanic(p, "pushfront", "PushFront") {
			return
		}
		x.model = append([]T{v}, x.model...)
	case opPushBack:
		v := x.token()
		p := try(false, func() { d.PushBack(v) })
		x.evals++
		if !x.noPanic(p, "pushback", "PushBack") {
			return
		}
		x.model = append(x.model, v)
	case opPopFront:
		var got T
		p := try(n == 0, func() { got = d.PopFront() })
		if n == 0 {
			x.expectPanic(p, "popfront-empty", "PopFront on empty", "PopFront on an empty deque")
			break
		}
		x.evals++
		if !x.noPanic(p, "popfront", "PopFront") {
			return
		}
		want := x.model[0]
		x.model = x.model[1:]
		if got != want {
			x.fail("popfront-value", fmt.Sprintf("PopFront() = %s, ideal sequence gives %s", x.ek.show(got), x.ek.show(want)))
		}
	case opPopBack:
		var got T
		p := try(n == 0, func() { got = d.PopBack() })
		if n == 0 {
			x.expectPanic(p, "popback-empty", "PopBack on empty", "PopBack on an empty deque")
			break
		}
		x.evals++
		if !x.noPanic(p, "popback", "PopBack") {
			return
		}
		want := x.model[n-1]
		x.model = x.model[:n-1]
		if got != want {
			x.fail("popback-value", fmt.Sprintf("PopBack() = %s, ideal sequence gives %s", x.ek.show(got), x.ek.show(want)))
		}
	case opFront:
		x.checkFront(true)
	case opBack:
		x.checkBack(true)
	case opLen:
		x.checkLen()
	case opItem:
		x.checkItem(o.arg, true)
	case opSet:
		v := x.token()
		p := try(o.arg < 0 || o.arg >= n, func() { d.Set(o.arg, v) })
		if o.arg < 0 || o.arg >= n {
			x.expectPanic(p, "set-range", cls, fmt.Sprintf("Set(%d, x) with Len() == %d", o.arg, n))
			break
		}
		x.evals++
		if !x.noPanic(p, "set", o.String()) {
			return
		}
		x.model[o.arg] = v
	case opGrow:
		// Either outcome is accepted only where an astronomic buffer would have to be allocated.
		lenient := astronomic(o.arg) && o.arg > pre.cap-n
		p := try(lenient, func() { d.Grow(o.arg) })
		x.evals++
		if lenient {
			if p != nil {
				x.count("astronomic arguments (either outcome accepted, contents compared)", "Grow panicked")
			} else {
				x.count("astronomic arguments (either outcome accepted, contents compared)", "Grow returned")
			}
		} else if !x.noPanic(p, "grow", o.String()) {
			return
		}
	case opShrink:
		lenient := astronomic(o.arg) && o.arg < pre.cap-n
		p := try(o.arg < 0 || lenient, func() { d.Shrink(o.arg) })
		if o.arg < 0 {
			x.expectPanic(p, "shrink-negative", "Shrink:neg", o.String())
			break
		}
		x.evals++
		if lenient {
			if p != nil {
				x.count("astronomic arguments (either outcome accepted, contents compared)", "Shrink panicked")
			} else {
				x.count("astronomic arguments (either outcome accepted, contents compared)", "Shrink returned")
			}
		} else if !x.noPanic(p, "shrink", o.String()) {
			return
		}
	case opIterate:
		x.checkIterate()
	}
	if x.failed {
		return
	}
	x.nops++
	post, postGen := x.hook()
	if !x.quiet {
		x.seen[post] = struct{}{}
		if !astronomic(post.cap) {
			x.max("deque", "capacity", post.cap)
		}
		x.max("deque", "items", len(x.model))
		realloc := post.cap != pre.cap || post.alloc != pre.alloc
		if (o.k == opGrow || o.k == opShrink) && postGen != preGen {
			realloc = true
		}
		if realloc {
			x.count("reallocations, by operation and layout before", opNames[o.k]+":"+pre.layout())
		}
		// Recorded, never judged (the statement only says that Grow/Shrink keep the contents).
		if o.k == opShrink && o.arg >= 0 && !astronomic(o.arg) {
			if post.cap-post.n > o.arg && post.cap-post.n > 0 {
				x.count("not judged", "Shrink(n) left more than n spare slots")
			}
			if realloc && pre.cap-pre.n <= o.arg {
				x.count("not judged", "Shrink(n) reallocated although spare <= n")
			}
		}
		if o.k == opGrow && !astronomic(o.arg) && post.cap-post.n < o.arg {
			x.count("not judged", "Grow(n) left fewer than n spare slots")
		}
	}
	x.readBack(o)
}

func (x *runner[T]) checkLen() {
	var got int
	p := try(false, func() { got = x.d.Len() })
	x.evals++
	if !x.noPanic(p, "len", "Len") {
		return
	}
	if got != len(x.model) {
		x.fail("len", fmt.Sprintf("Len() = %d, ideal sequence has %d items", got, len(x.model)))
	}
}

func (x *runner[T]) checkFront(asOp bool) {
	var got T
	p := try(len(x.model) == 0, func() { got = x.d.Front() })
	if len(x.model) == 0 {
		x.expectPanicRB(p, "front-empty", "Front on empty", "Front on an empty deque", asOp)
		return
	}
	x.evals++
	if !x.noPanic(p, "front", "Front") {
		return
	}
	if want := x.model[0]; got != want {
		x.fail("front-value", fmt.Sprintf("Front() = %s, ideal sequence has %s", x.ek.show(got), x.ek.show(want)))
	}
}

func (x *runner[T]) checkBack(asOp bool) {
	var got T
	p := try(len(x.model) == 0, func() { got = x.d.Back() })
	if len(x.model) == 0 {
		x.expectPanicRB(p, "back-empty", "Back on empty", "Back on an empty deque", asOp)
		return
	}
	x.evals++
	if !x.noPanic(p, "back", "Back") {
		return
	}
	if want := x.model[len(x.model)-1]; got != want {
		x.fail("back-value", fmt.Sprintf("Back() = %s, ideal sequence has %s", x.ek.show(got), x.ek.show(want)))
	}
}

// expectPanicRB is expectPanic for calls that are also made by the read-back; those are counted in
// the panic table only when they are the operation itself.
func (x *runner[T]) expectPanicRB(p *vkit.Panic, sig, key, what string, asOp bool) {
	if asOp {
		x.expectPanic(p, sig, key, what)
		return
	}
	x.evals++
	if p == nil {
		x.fail(sig+"-no-panic", what+" did not panic")
	}
}

func (x *runner[T]) checkItem(i int, asOp bool) {
	var got T
	p := try(i < 0 || i >= len(x.model), func() { got = x.d.Item(i) })
	n := len(x.model)
	if i < 0 || i >= n {
		x.expectPanic(p, "item-range", op{opItem, i}.class(n, 0), fmt.Sprintf("Item(%d) with Len() == %d", i, n))
		return
	}
	x.evals++
	if !x.noPanic(p, "item", fmt.Sprintf("Item(%d)", i)) {
		return
	}
	if want := x.model[i]; got != want {
		x.fail("item-value", fmt.Sprintf("Item(%d) = %s, ideal sequence has %s", i, x.ek.show(got), x.ek.show(want)))
	}
}

func (x *runner[T]) checkIterate() {
	n := len(x.model)
	var it interface{ Next() (T, bool) }
	p := try(false, func() { it = x.d.Iterate() })
	x.evals++
	if !x.noPanic(p, "iterate", "Iterate") {
		return
	}
	var got []T
	ended := false
	p = try(false, func() {
		for i := 0; i < n+3; i++ {
			v, ok := it.Next()
			if !ok {
				ended = true
				return
			}
			got = append(got, v)
		}
	})
	if !x.noPanic(p, "iterate-next", fmt.Sprintf("Next of a fresh iterator (no call in between) after %d items", len(got))) {
		return
	}
	ok := ended && len(got) == n
	if ok {
		for i := range got {
			if got[i] != x.model[i] {
				ok = false
				break
			}
		}
	}
	if !ok {
		var b strings.Builder
		for i, v := range got {
			if i == 24 {
				b.WriteString(" ...")
				break
			}
			if i > 0 {
				b.WriteByte(' ')
			}
			b.WriteString(x.ek.show(v))
		}
		x.fail("iterate", fmt.Sprintf("a fresh Iterate() yielded [%s] (%d items, ended=%v), ideal sequence has %d items", b.String(), len(got), ended, n))
		return
	}
	// A finished iterator stays finished.
	var more bool
	p = try(false, func() { _, more = it.Next() })
	if !x.noPanic(p, "iterate-next", "Next after the end of a fresh iterator") {
		return
	}
	if more {
		x.fail("iterate-after-end", "iterator yielded an item after it had reported the end")
	}
}

// ring checks the retention clause on the raw buffer.
func (x *runner[T]) ring() {
	if x.ek.noTokens {
		return
	}
	st := x.d.VerifState()
	if !st.Allocated || st.Cap == 0 || st.Cap > 1<<20 {
		return // (VerifSlots copies the whole buffer; the astro-real buffers are gigabytes of address space)
	}
	n := len(x.model)
	if st.Front < 0 || st.Front >= st.Cap || n > st.Cap {
		return // the API comparison reports this; the window is not defined
	}
	slots := x.d.VerifSlots()
	var zero T
	x.evals++
	for j, s := range slots {
		off := j - st.Front
		if off < 0 {
			off += st.Cap
		}
		if off < n {
			continue
		}
		if s != zero {
			x.fail("retained", fmt.Sprintf("raw slot %d (outside the live window front=%d len=%d cap=%d) still holds %s", j, st.Front, n, st.Cap, x.ek.show(s)))
			return
		}
	}
}

// readBack reads the whole deque back after an operation.
func (x *runner[T]) readBack(last op) {
	if x.quiet {
		x.checkLen()
		return
	}
	n := len(x.model)
	x.checkLen()
	if x.failed {
		return
	}
	x.checkFront(false)
	if x.failed {
		return
	}
	x.checkBack(false)
	if x.failed {
		return
	}
	eighth := x.nops%8 == 0
	if n <= 64 || eighth || x.thor {
		for i := 0; i < n && !x.failed; i++ {
			x.checkItem(i, false)
		}
	} else {
		// long deque: both ends, around the wrap point of the ring, and a few random positions
		st := x.d.VerifState()
		probe := []int{0, 1, n - 2, n - 1, st.Cap - st.Front - 1, st.Cap - st.Front}
		for i := 0; i < 6; i++ {
			probe = append(probe, x.rnd.Intn(n))
		}
		for _, i := range probe {
			if i >= 0 && i < n && !x.failed {
				x.checkItem(i, false)
			}
		}
	}
	if x.failed {
		return
	}
	if (eighth || x.thor) && last.k != opIterate {
		x.checkIterate()
		if x.failed {
			return
		}
	}
	st := x.d.VerifState()
	if st.Cap <= 256 || eighth || x.thor {
		x.ring()
	}
}

// ---------------------------------------------------------------------------------------------
// (b) State cover: closure of the abstract state graph under every operation class.

func coverCaps(r *vkit.Report, light int) (bound int, extra []int) {
	if light > 0 {
		return light, nil
	}
	if r.Thorough() {
		return 12, []int{16, 32}
	}
	return 8, []int{16}
}

func coverable(r *vkit.Report, light int, k stKey) bool {
	bound, extra := coverCaps(r, light)
	if k.cap <= bound {
		return true
	}
	for _, c := range extra {
		if k.cap == c {
			return true
		}
	}
	return false
}

func dedupe(xs []int, keep func(int) bool) []int {
	seen := make(map[int]bool)
	var out []int
	for _, v := range xs {
		if !seen[v] && keep(v) {
			seen[v] = true
			out = append(out, v)
		}
	}
	return out
}

// classOps lists one operation per (operation, argument class) — several per class where the
// class has distinguished members — for a state with n items and capacity c.
func classOps(n, c int) []op {
	free := c - n
	any := func(int) bool { return true }
	ops := []op{{k: opPushFront}, {k: opPushBack}, {k: opPopFront}, {k: opPopBack}, {k: opFront}, {k: opBack}, {k: opLen}, {k: opIterate}}
	idx := dedupe([]int{-1, math.MinInt, 0, 1, n / 2, n - 2, n - 1, n, n + 1, c, c + 1, math.MaxInt}, any)
	for _, i := range idx {
		ops = append(ops, op{opItem, i})
	}
	for _, i := range idx {
		ops = append(ops, op{opSet, i})
	}
	for _, a := range dedupe([]int{0, 1, 2, free, free + 1, n, c, 40}, func(v int) bool { return v >= 0 }) {
		ops = append(ops, op{opGrow, a})
	}
	for _, a := range dedupe([]int{-1, math.MinInt, 0, 1, 2, free - 1, free, free + 1, n, c, 1000}, any) {
		ops = append(ops, op{opShrink, a})
	}
	return ops
}

var tailMix = []int{14, 14, 12, 12, 3, 3, 8, 8, 2, 8, 10, 6}

func cover(r *vkit.Report, sh *shared) {
	r.Cases("cover", 8, 8, func(c *vkit.Case) {
		switch c.Index {
		case 0:
			coverT(c, sh, ptrKind)
		case 1:
			coverT(c, sh, intKind)
		case 2:
			coverT(c, sh, strKind)
		case 3:
			coverT(c, sh, byteKind)
		case 4:
			coverT(c, sh, unitKind)
		case 5:
			coverT(c, sh, anyKind)
		case 6:
			coverT(c, sh, midKind)
		default:
			coverT(c, sh, bigKind)
		}
	})
	if r.Replaying() {
		return
	}
	// Every (cap, front, len) with cap in the covered set is reachable; the closure must find all.
	var descr []string
	for _, k := range []struct {
		name  string
		light int
	}{
		{ptrKind.name, 0}, {intKind.name, 0}, {strKind.name, 0}, {byteKind.name, 0}, {unitKind.name, 0}, {anyKind.name, 0},
		{midKind.name, midKind.light}, {bigKind.name, bigKind.light},
	} {
		bound, extra := coverCaps(r, k.light)
		want := int64(2) // zero value; cap == 0 allocated
		for cp := 1; cp <= bound; cp++ {
			want += int64(cp*cp + 1)
		}
		for _, cp := range extra {
			want += int64(cp*cp + 1)
		}
		r.Floor("abstract states expanded by the state cover for Deque["+k.name+"]", r.Table("state cover: abstract states expanded", k.name), want)
		descr = append(descr, fmt.Sprintf("Deque[%s]: cap <= %d or cap in %v, %d states", k.name, bound, extra, want))
	}
	r.SetExtra("state_cover", "closure under every operation/argument class of all abstract states (cap, front, len, allocated?), all reached and expanded: "+strings.Join(descr, "; "))
}

type coverNode struct {
	key    stKey
	prefix []op
}

func coverT[T comparable](c *vkit.Case, sh *shared, ek elemKind[T]) {
	r := c.R
	rnd := c.Rand
	bound, extra := coverCaps(r, ek.light)
	queued := make(map[stKey]bool)
	var queue []coverNode
	push := func(k stKey, prefix []op) {
		if queued[k] || !coverable(r, ek.light, k) {
			return
		}
		queued[k] = true
		queue = append(queue, coverNode{k, prefix})
	}
	// Roots: the zero value, and Grow(k) on the zero value (cap = k).
	push(stKey{}, nil)
	roots := []int{}
	for k := 1; k <= bound; k++ {
		roots = append(roots, k)
	}
	roots = append(roots, extra...)
	for _, k := range roots {
		x := newRunner(c, sh, ek)
		x.thor = true
		x.step(op{opGrow, k})
		x.flush()
		if x.failed {
			return
		}
		push(x.state(), []op{{opGrow, k}})
	}
	subruns, samples := 0, 0
	for len(queue) > 0 {
		nd := queue[0]
		queue = queue[1:]
		r.Count("state cover: abstract states expanded", ek.name, 1)
		for _, o := range classOps(nd.key.n, nd.key.cap) {
			x := newRunner(c, sh, ek)
			x.quiet = true
			for _, po := range nd.prefix {
				x.step(po)
			}
			if x.failed {
				x.flush()
				return
			}
			if got := x.state(); got != nd.key {
				r.Inconclusive(fmt.Sprintf("state cover: replaying %v reached %v instead of %v (the deque is not deterministic?)", nd.prefix, got, nd.key))
				x.flush()
				return
			}
			x.quiet = false
			x.thor = true
			x.step(o)
			if x.failed {
				x.flush()
				return
			}
			post := x.state()
			if !queued[post] && coverable(r, ek.light, post) {
				pp := append(append([]op{}, nd.prefix...), o)
				push(post, pp)
			}
			// A short seeded tail, so that a state that is not expanded itself (capacity beyond the
			// bound) is still used, and latent damage shows.
			tail := rnd.Range(2, 5)
			for i := 0; i < tail && !x.failed; i++ {
				x.step(ek.clamp(randomOp(rnd, tailMix, len(x.model), x.state().cap)))
			}
			x.flush()
			if x.failed {
				return
			}
			subruns++
			if c.Index == 0 && (nd.key.wrapped() || nd.key.full()) && subruns%2503 == 0 && samples < 3 {
				samples++
				r.Sample(map[string]any{
					"kind": "state cover", "elem": ek.name, "state": nd.key.String(), "state_kind": nd.key.kind(),
					"prefix_from_zero_value": fmt.Sprint(nd.prefix), "operation_under_test": o.String(), "then": x.log[len(nd.prefix)+1:],
				})
			}
		}
	}
	r.Count("state cover: sub-runs (prefix replay + one operation class + tail)", ek.name, subruns)
}

// ---------------------------------------------------------------------------------------------
// (a) Random walks

func randIndex(rnd *vkit.Rand, n, c int) int {
	if n > 0 && rnd.Bool(0.7) {
		switch rnd.Intn(6) {
		case 0:
			return 0
		case 1:
			return n - 1
		default:
			return rnd.Intn(n)
		}
	}
	return vkit.Pick(rnd, []int{-1, n, n + 1, c, c + 1, -1 - rnd.Intn(1000), n + rnd.Intn(1000), math.MaxInt, math.MinInt, -n})
}

func randGrow(rnd *vkit.Rand, n, c int) int {
	free := c - n
	var a int
	switch x := rnd.Intn(20); {
	case x == 0:
		a = rnd.Range(1000, 4096)
	case x < 3:
		a = rnd.Range(17, 300)
	default:
		a = vkit.Pick(rnd, []int{0, 1, 2, n, c, free, free + 1, n + 1, rnd.Intn(12)})
	}
	// Keep the buffers of long walks small: Grow(cap) doubles the buffer every time it is drawn.
	if a > 4096 {
		a = 4096
	}
	if c > 16384 && a > free {
		a = rnd.Intn(3)
	}
	return a
}

func randShrink(rnd *vkit.Rand, n, c int) int {
	free := c - n
	if rnd.Bool(0.1) {
		return vkit.Pick(rnd, []int{-1, -2, -n - 1, math.MinInt, -1 - rnd.Intn(100)})
	}
	v := vkit.Pick(rnd, []int{0, 0, 1, 2, n, c, free - 1, free, free + 1, rnd.Intn(12), 1000 + rnd.Intn(1000), math.MaxInt})
	if v < 0 {
		v = 0
	}
	return v
}

// clamp keeps the buffers of expensive element types small.
func (ek elemKind[T]) clamp(o op) op {
	if o.k == opGrow && ek.maxGrow > 0 && o.arg > ek.maxGrow {
		o.arg = ek.maxGrow
	}
	return o
}

func randomOp(rnd *vkit.Rand, mix []int, n, c int) op {
	k := opKind(rnd.Weighted(mix))
	switch k {
	case opItem, opSet:
		return op{k, randIndex(rnd, n, c)}
	case opGrow:
		return op{k, randGrow(rnd, n, c)}
	case opShrink:
		return op{k, randShrink(rnd, n, c)}
	}
	return op{k: k}
}

type mix struct {
	name string
	w    []int // weights in opKind order
}

// PuF PuB PoF PoB Fr  Ba  It  Set Len Gr  Sh  Iter
var mixes = []mix{
	{"grow phase", []int{30, 30, 5, 5, 1, 1, 5, 5, 1, 3, 2, 2}},
	{"drain phase", []int{5, 5, 35, 35, 2, 2, 4, 3, 1, 1, 3, 2}},
	{"front-heavy", []int{42, 4, 26, 4, 3, 1, 5, 5, 1, 2, 3, 2}},
	{"back-heavy", []int{4, 42, 4, 26, 1, 3, 5, 5, 1, 2, 3, 2}},
	{"queue (front marches forward)", []int{1, 38, 36, 1, 2, 2, 5, 5, 1, 2, 3, 2}},
	{"queue (front marches backward)", []int{38, 1, 1, 36, 2, 2, 5, 5, 1, 2, 3, 2}},
	{"resize-heavy", []int{12, 12, 10, 10, 1, 1, 4, 4, 1, 20, 22, 3}},
	{"probe-heavy", []int{8, 8, 7, 7, 8, 8, 20, 20, 4, 2, 3, 5}},
	{"uniform", []int{1, 1, 1, 1, 1, 1, 1, 1, 1, 1, 1, 1}},
}

func walks(r *vkit.Report, sh *shared) {
	n := r.Scale(3000, 60000)
	r.Cases("walk", n, runtime.GOMAXPROCS(0), func(c *vkit.Case) {
		switch c.Index % 3 {
		case 0:
			walkT(c, sh, ptrKind)
		case 1:
			walkT(c, sh, intKind)
		default:
			walkT(c, sh, strKind)
		}
	})
	// A reduced number of walks over the element types that differ in size and layout.
	r.Cases("walkx", r.Scale(400, 6000), runtime.GOMAXPROCS(0), func(c *vkit.Case) {
		switch c.Index % 8 {
		case 0, 1:
			walkT(c, sh, byteKind)
		case 2, 3:
			walkT(c, sh, unitKind)
		case 4, 5:
			walkT(c, sh, anyKind)
		case 6:
			walkT(c, sh, midKind)
		default:
			walkT(c, sh, bigKind)
		}
	})
}

func walkT[T comparable](c *vkit.Case, sh *shared, ek elemKind[T]) {
	r := c.R
	rnd := c.Rand
	x := newRunner(c, sh, ek)
	defer x.flush()

	// How the walk starts: from the zero value, from a small capacity, or from a shrunk buffer.
	switch s := rnd.Intn(10); {
	case s < 4:
		r.Count("walk starts", "zero value", 1)
	case s < 8:
		r.Count("walk starts", "Grow(k) on the zero value, k in 0..12", 1)
		x.step(op{opGrow, rnd.Intn(13)})
	default:
		r.Count("walk starts", "Grow(k), pushes, Shrink(j)", 1)
		x.step(op{opGrow, rnd.Intn(13)})
		m := rnd.Intn(10)
		for i := 0; i < m; i++ {
			x.step(op{k: opKind(rnd.Intn(2))})
		}
		x.step(op{opShrink, rnd.Intn(4)})
	}

	total := rnd.Range(30, r.Scale(400, 1500))
	if r.Thorough() && rnd.Intn(40) == 0 {
		total = rnd.Range(3000, 5000)
	}
	if ek.maxOps > 0 && total > ek.maxOps {
		total = rnd.Range(30, ek.maxOps)
	}
	var phases []string
	for x.nops < total && !x.failed {
		plen := rnd.Range(5, 120)
		if rnd.Intn(5) == 0 {
			// Oscillation at the reallocation boundary.
			phases = append(phases, "boundary oscillation")
			r.Count("walk phases", "oscillation at the reallocation boundary", 1)
			for i := 0; i < plen && !x.failed; i++ {
				st := x.state()
				nn := len(x.model)
				free := st.cap - nn
				switch {
				case free > 40:
					x.step(op{opShrink, rnd.Intn(4)})
				case free > 1 && rnd.Bool(0.85):
					x.step(op{k: opKind(rnd.Intn(2))})
				default:
					switch y := rnd.Intn(100); {
					case y < 36:
						x.step(op{k: opKind(rnd.Intn(2))})
					case y < 70:
						x.step(op{k: opPopFront + opKind(rnd.Intn(2))})
					case y < 80:
						x.step(op{opShrink, rnd.Intn(3)})
					case y < 86:
						x.step(op{opGrow, rnd.Intn(3)})
					case y < 91:
						x.step(op{opItem, randIndex(rnd, nn, st.cap)})
					case y < 96:
						x.step(op{opSet, randIndex(rnd, nn, st.cap)})
					default:
						x.step(op{k: opIterate})
					}
				}
			}
			continue
		}
		m := vkit.Pick(rnd, mixes)
		phases = append(phases, m.name)
		r.Count("walk phases", m.name, 1)
		for i := 0; i < plen && !x.failed; i++ {
			x.step(ek.clamp(randomOp(rnd, m.w, len(x.model), x.state().cap)))
		}
	}
	if !x.failed {
		// Final complete read-back.
		x.thor = true
		x.step(op{k: opLen})
	}
	r.Count("walks", ek.name, 1)
	if r.WantSample() && c.Index < 64 && len(x.log) >= 40 && len(x.log) <= 160 {
		r.Sample(map[string]any{"kind": "random walk", "elem": ek.name, "phases": phases, "ops_from_zero_value": x.log})
	}
}

// ---------------------------------------------------------------------------------------------
// (c) Arithmetic bands: Grow/Shrink arguments at which a size computation of the form
// (Len()+n)*k/m or (cap+n)*k/m would wrap around 2^64 to a small number.

// bandArgs returns, for a deque with `base` items (or slots), the arguments n >= 0 that put
// base+n within [-4, +48] of ceil(k*2^64/m) for m in 2..9, 1 <= k < m, plus 2/3 of MaxInt +- base.
func bandArgs(base int) []int {
	seen := make(map[int]bool)
	var out []int
	add := func(v uint64) {
		if v > math.MaxInt {
			return
		}
		n := int(v)
		if !astronomic(n) || seen[n] {
			return
		}
		seen[n] = true
		out = append(out, n)
	}
	for m := uint64(2); m <= 9; m++ {
		for k := uint64(1); k < m; k++ {
			q, rem := bits.Div64(k, 0, m) // floor(k*2^64/m)
			if rem != 0 {
				q++
			}
			if q > math.MaxInt+uint64(base)+64 {
				continue
			}
			for delta := -4; delta <= 48; delta++ {
				add(q - uint64(base) + uint64(int64(delta))) // wraps correctly for negative delta
			}
		}
	}
	for delta := -2; delta <= 2; delta++ {
		add(uint64(math.MaxInt/3*2 + base + delta))
		add(uint64(math.MaxInt/3*2 - base + delta))
	}
	return out
}

type bandState struct {
	name     string
	prefix   []op
	unitOnly bool // needs an astronomic capacity
}

func rep(o op, n int) []op {
	out := make([]op, n)
	for i := range out {
		out[i] = o
	}
	return out
}

func cat(parts ...[]op) []op {
	var out []op
	for _, p := range parts {
		out = append(out, p...)
	}
	return out
}

var bandStates = []bandState{
	{"40 items, contiguous, cap 64", rep(op{k: opPushBack}, 40), false},
	{"21 items, wrapped, cap 32", cat(rep(op{k: opPushBack}, 12), rep(op{k: opPushFront}, 9)), false},
	{"1 item", []op{{k: opPushFront}}, false},
	{"5 items, full and wrapped, cap 5", cat([]op{{opGrow, 5}}, rep(op{k: opPushFront}, 2), rep(op{k: opPushBack}, 3)), false},
	{"3 items, exactly fitting after Shrink(0)", cat(rep(op{k: opPushBack}, 3), []op{{opShrink, 0}}), false},
	{"cap MaxInt, 3 items wrapped", cat([]op{{opGrow, math.MaxInt}}, []op{{k: opPushFront}, {k: opPushBack}, {k: opPushBack}}), true},
	{"cap MaxInt/2+7, 40 items", cat([]op{{opGrow, math.MaxInt/2 + 7}}, rep(op{k: opPushBack}, 40)), true},
	{"cap MaxInt-5, 17 items wrapped", cat([]op{{opGrow, math.MaxInt - 5}}, rep(op{k: opPushFront}, 9), rep(op{k: opPushBack}, 8)), true},
}

func band(r *vkit.Report, sh *shared) {
	const nTypes = 3
	r.Cases("band", nTypes*len(bandStates), runtime.GOMAXPROCS(0), func(c *vkit.Case) {
		bs := bandStates[c.Index/nTypes]
		switch c.Index % nTypes {
		case 0:
			bandT(c, sh, unitKind, bs)
		case 1:
			if !bs.unitOnly {
				bandT(c, sh, intKind, bs)
			}
		default:
			if !bs.unitOnly {
				bandT(c, sh, byteKind, bs)
			}
		}
	})
	if r.Replaying() {
		return
	}
	tbl := "astronomic arguments (either outcome accepted, contents compared)"
	r.Floor("astronomic Grow calls that panicked (allocation impossible)", r.Table(tbl, "Grow panicked"), 1000)
	r.Floor("astronomic Grow calls that returned (zero-size elements)", r.Table(tbl, "Grow returned"), 1000)
	r.Floor("astronomic Shrink calls that had to reallocate (zero-size elements, astronomic capacity)", r.Table(tbl, "Shrink returned")+r.Table(tbl, "Shrink panicked"), 100)
	r.Floor("arithmetic-band states completed", r.Table("arithmetic band: (element type, state) pairs completed", "all"), int64(len(bandStates)+2*5))
}

func bandT[T comparable](c *vkit.Case, sh *shared, ek elemKind[T], bs bandState) {
	var x *runner[T]
	var key stKey
	build := func() bool {
		if x != nil {
			x.flush()
		}
		x = newRunner(c, sh, ek)
		x.quiet = true
		for _, o := range bs.prefix {
			x.step(o)
		}
		x.quiet = false
		x.thor = true
		if x.failed {
			x.flush()
			return false
		}
		key = x.state()
		return true
	}
	if !build() {
		return
	}
	if bs.unitOnly && !astronomic(key.cap) {
		// Grow(astronomic) on the zero value was refused: nothing to examine from this state.
		c.R.Count("arithmetic band: states skipped because the astronomic Grow did not succeed", bs.name, 1)
		x.flush()
		return
	}
	n := len(x.model)
	args := bandArgs(n)
	if key.cap != n {
		args = append(args, bandArgs(key.cap)...)
	}
	if astronomic(key.cap) {
		// arguments relative to the spare capacity: Shrink(n) reallocates iff n < spare
		free := key.cap - n
		for _, a := range bandArgs(0) {
			if a < free {
				args = append(args, a)
			}
		}
		for d := -3; d <= 3; d++ {
			if v := free + d; v >= 0 && v >= free-3 {
				args = append(args, v)
			}
		}
	}
	for _, k := range []opKind{opGrow, opShrink} {
		for _, a := range args {
			x.step(op{k, a})
			if x.failed {
				x.flush()
				return
			}
			if x.state() != key {
				// the call succeeded and reallocated (zero-size elements): start again from the state
				if !build() {
					return
				}
				if x.state() != key {
					c.R.Inconclusive(fmt.Sprintf("arithmetic band: rebuilding %q reached %v instead of %v", bs.name, x.state(), key))
					x.flush()
					return
				}
			}
		}
	}
	x.flush()
	c.R.Count("arithmetic band: (element type, state) pairs completed", "all", 1)
	c.R.Count("arithmetic band: arguments per state", ek.name+" / "+bs.name, 2*len(args))
}

// ---------------------------------------------------------------------------------------------
// (d) Regression scenario for /repo commit df3d494 (Item/Set computed front+i in int, which
// overflows on an enormous deque of zero-size elements), and walks on enormous deques.

func regress(r *vkit.Report, sh *shared) {
	r.Cases("regress-df3d494", 1, 1, func(c *vkit.Case) {
		x := newRunner(c, sh, unitKind)
		defer x.flush()
		x.thor = true // complete read-back (Len, Front, Back, every Item, Iterate) after every call
		x.step(op{opGrow, math.MaxInt})
		if !astronomic(x.state().cap) {
			r.Count("regression df3d494", "Grow(MaxInt) was refused; scenario not applicable", 1)
			return
		}
		for _, o := range []op{{k: opPushFront}, {k: opPushBack}, {k: opPushBack}} {
			x.step(o)
		}
		// front == MaxInt-1, three items: Item(2) is slot 1 and front+2 overflows int
		for _, o := range []op{{opItem, 2}, {opSet, 2}, {opSet, 1}, {opSet, 0}, {opItem, 1}, {opItem, 0}, {opItem, 3}, {opSet, 3},
			{k: opFront}, {k: opBack}, {k: opIterate}, {k: opLen}, {k: opPushBack}, {opItem, 3}, {opSet, 3}, {k: opPopFront}, {opItem, 2}, {k: opPopBack}, {k: opPopBack}, {opItem, 0}} {
			x.step(o)
		}
		if !x.failed {
			r.Count("regression df3d494", "executed on a deque with cap == MaxInt, front == MaxInt-1", 1)
		}
	})
	if !r.Replaying() {
		r.Floor("regression scenario df3d494 executed", r.Table("regression df3d494", "executed on a deque with cap == MaxInt, front == MaxInt-1")+r.Table("regression df3d494", "Grow(MaxInt) was refused; scenario not applicable"), 1)
	}
}

func hugeWalks(r *vkit.Report, sh *shared) {
	r.Cases("huge", r.Scale(200, 3000), runtime.GOMAXPROCS(0), func(c *vkit.Case) {
		rnd := c.Rand
		x := newRunner(c, sh, unitKind)
		defer x.flush()
		switch rnd.Intn(5) {
		case 0:
			x.step(op{opGrow, math.MaxInt})
		case 1:
			x.step(op{opGrow, math.MaxInt - rnd.Intn(40)})
		case 2:
			x.step(op{opGrow, math.MaxInt/2 + rnd.Intn(41)})
		case 3:
			x.step(op{opGrow, math.MaxInt/2 + 1 + rnd.Intn(5)})
			x.step(op{opGrow, math.MaxInt/2 - rnd.Intn(4)}) // cap + n lands at or just beyond MaxInt
		default:
			m := rnd.Intn(6)
			for i := 0; i < m; i++ {
				x.step(op{k: opKind(rnd.Intn(2))})
			}
			x.step(op{opGrow, math.MaxInt - rnd.Intn(60)})
		}
		if astronomic(x.state().cap) {
			r.Count("walks on enormous deques", "started with an astronomic capacity", 1)
		}
		total := rnd.Range(40, 150)
		for x.nops < total && !x.failed {
			m := vkit.Pick(rnd, mixes)
			plen := rnd.Range(5, 40)
			for i := 0; i < plen && !x.failed; i++ {
				st := x.state()
				n := len(x.model)
				if rnd.Intn(12) == 0 {
					free := st.cap - n
					a := vkit.Pick(rnd, []int{math.MaxInt, math.MaxInt - n, math.MaxInt - st.cap, free, free - 1, free + 1, st.cap, math.MaxInt / 2, math.MaxInt/2 + 1, vkit.Pick(rnd, bandArgs(n))})
					if a < 0 || (a > 4096 && !astronomic(a)) {
						a = math.MaxInt
					}
					x.step(op{opGrow + opKind(rnd.Intn(2)), a})
					continue
				}
				x.step(randomOp(rnd, m.w, n, st.cap))
			}
		}
		if !x.failed {
			x.thor = true
			x.step(op{k: opLen})
		}
		r.Count("walks", "struct{} on enormous deques", 1)
	})
	if !r.Replaying() {
		r.Floor("walks on enormous deques that started with an astronomic capacity", r.Table("walks on enormous deques", "started with an astronomic capacity"), 50)
	}
}
