package main

// Element types whose SIZE IN BYTES crosses thresholds an implementation might size buffers by
// (64 KiB, 350 KiB = just over 1 MiB / 3, 1 MiB, 4 MiB). Every read of such an element copies it,
// so these types get their own small runner: the model holds only the ids, elements are compared
// by a few markers inside them, and the workloads are a reduced version of the small-capacity state
// cover: buffers of 1..4 slots obtained through Grow(k) on the zero value and through Shrink(k)
// after growth, pushes at both ends while full, pops, wrap-around; at most 9 items, short histories.
// The groups for elements >= 1 MiB run on one goroutine and collect garbage after every history,
// so that at most one 16-slot buffer (64 MiB for the 4 MiB type) is live at a time.

import (
	"fmt"
	"runtime"
	"runtime/debug"
	"strconv"
	"strings"

	"github.com/bradenaw/juniper/container/deque"

	"verif/vkit"
)

type e64k struct {
	head int
	pad  [64 << 10]byte
	tail int
}
type e350k struct {
	head int
	pad  [350 << 10]byte
	tail int
}
type e1m struct {
	head int
	pad  [1 << 20]byte
	tail int
}
type e4m struct {
	head int
	pad  [4 << 20]byte
	tail int
}

func setMarks(head, tail *int, pad []byte, id int) {
	*head, *tail = id, -id
	b := byte(id%251) + 1
	pad[0], pad[len(pad)/2], pad[len(pad)-1] = b, b, b
}

// marks returns the id of a consistent element, 0 for the zero value, -1 for anything else.
func marks(head, tail int, pad []byte) int {
	a, b, c := pad[0], pad[len(pad)/2], pad[len(pad)-1]
	if head == 0 && tail == 0 && a == 0 && b == 0 && c == 0 {
		return 0
	}
	w := byte(head%251) + 1
	if head > 0 && tail == -head && a == w && b == w && c == w {
		return head
	}
	return -1
}

func (e *e64k) setID(id int)  { setMarks(&e.head, &e.tail, e.pad[:], id) }
func (e *e64k) getID() int    { return marks(e.head, e.tail, e.pad[:]) }
func (e *e350k) setID(id int) { setMarks(&e.head, &e.tail, e.pad[:], id) }
func (e *e350k) getID() int   { return marks(e.head, e.tail, e.pad[:]) }
func (e *e1m) setID(id int)   { setMarks(&e.head, &e.tail, e.pad[:], id) }
func (e *e1m) getID() int     { return marks(e.head, e.tail, e.pad[:]) }
func (e *e4m) setID(id int)   { setMarks(&e.head, &e.tail, e.pad[:], id) }
func (e *e4m) getID() int     { return marks(e.head, e.tail, e.pad[:]) }

type hugePtr[T any] interface {
	*T
	setID(id int)
	getID() int
}

func showID(id int) string {
	switch {
	case id == 0:
		return "<zero value>"
	case id < 0:
		return "<torn element>"
	}
	return "#" + strconv.Itoa(id)
}

// hrun is the runner for one deque of huge elements.
type hrun[T any, PT hugePtr[T]] struct {
	c    *vkit.Case
	r    *vkit.Report
	name string

	d       *deque.Deque[T]
	model   []int
	nextID  int
	in, out *T // scratch elements, reused
	log     []string
	failed  bool
	quiet   bool
	evals   int
	counts  map[[2]string]int
	dist    map[string]struct{}
	bigTook bool // a buffer of more than 4 slots was allocated
	serial  bool // elements >= 1 MiB: collect a dropped 16-slot buffer at once
}

// scratch holds the two elements a runner needs; allocated once per task, not per history.
type scratch[T any] struct{ in, out *T }

func newScratch[T any]() *scratch[T] { return &scratch[T]{new(T), new(T)} }

func newHrun[T any, PT hugePtr[T]](c *vkit.Case, name string, sc *scratch[T], serial bool) *hrun[T, PT] {
	return &hrun[T, PT]{c: c, r: c.R, name: name, d: new(deque.Deque[T]), in: sc.in, out: sc.out, serial: serial,
		counts: make(map[[2]string]int), dist: make(map[string]struct{})}
}

func (x *hrun[T, PT]) flush() {
	x.r.Eval(x.evals)
	x.evals = 0
	for k, v := range x.counts {
		x.r.Count(k[0], k[1], v)
	}
	for k := range x.dist {
		x.r.Distinct(k)
	}
	x.counts = make(map[[2]string]int)
	x.dist = make(map[string]struct{})
}

func (x *hrun[T, PT]) count(table, key string) {
	if !x.quiet {
		x.counts[[2]string{table, key}]++
	}
}

func (x *hrun[T, PT]) state() stKey {
	st := x.d.VerifState()
	n := 0
	switch {
	case !st.Allocated || st.Back == -1:
	case st.Front <= st.Back:
		n = st.Back - st.Front + 1
	default:
		n = st.Cap - st.Front + st.Back + 1
	}
	return stKey{cap: st.Cap, front: st.Front, n: n, alloc: st.Allocated}
}

func (x *hrun[T, PT]) showModel() string {
	var b strings.Builder
	b.WriteByte('[')
	for i, id := range x.model {
		if i > 0 {
			b.WriteByte(' ')
		}
		b.WriteString(showID(id))
	}
	b.WriteByte(']')
	return b.String()
}

func (x *hrun[T, PT]) fail(sig, what string) {
	if x.failed {
		return
	}
	x.failed = true
	tail := x.log
	if len(tail) > 14 {
		tail = tail[len(tail)-14:]
	}
	st := x.d.VerifState()
	x.c.Violation(sig,
		fmt.Sprintf("Deque[%s] after %d calls ending in %s: %s (ideal sequence now %s; raw cap=%d front=%d back=%d)",
			x.name, len(x.log), strings.Join(tail, " "), what, x.showModel(), st.Cap, st.Front, st.Back),
		map[string]any{"elem": x.name, "ops_from_zero_value": x.log, "n_ops": len(x.log), "model": x.showModel(),
			"note": "push and Set values are fresh elements numbered 1, 2, ... in call order"})
}

func (x *hrun[T, PT]) noPanic(p *vkit.Panic, sig, what string) bool {
	x.evals++
	if p != nil {
		x.fail(sig+"-panic", fmt.Sprintf("%s panicked: %s (at %s)", what, p.Msg, p.JuniperFrame()))
		return false
	}
	return true
}

func (x *hrun[T, PT]) mustPanic(p *vkit.Panic, sig, key, what string) {
	x.evals++
	if p == nil {
		x.fail(sig+"-no-panic", what+" did not panic")
		return
	}
	x.count("panics that the model expects, observed", key)
}

func (x *hrun[T, PT]) fresh() int {
	x.nextID++
	PT(x.in).setID(x.nextID)
	return x.nextID
}

func (x *hrun[T, PT]) value(sig, what string, want int) {
	if got := PT(x.out).getID(); got != want {
		x.fail(sig, fmt.Sprintf("%s = %s, ideal sequence has %s", what, showID(got), showID(want)))
	}
}

// Read-back levels of step.
const (
	rbNone  = 0 // (replaying a prefix)
	rbEnds  = 1 // Len, Front, Back
	rbItems = 2 // ... and every Item
	rbFull  = 3 // ... and a fresh Iterate and the raw-ring inspection
)

// step executes one operation and reads the deque back at the given level.
func (x *hrun[T, PT]) step(o op, rb int) {
	if x.failed {
		return
	}
	pre := x.state()
	n := len(x.model)
	cls := o.class(n, pre.cap)
	x.log = append(x.log, o.String())
	if !x.quiet {
		x.count("huge elements: operations, by element type", x.name)
		x.count("operations, by class", cls)
		x.count("operations executed, by kind of the state before", pre.kind())
		if pre.interesting() {
			x.dist[pre.String()+"|"+cls] = struct{}{}
		}
		if (o.k == opPushFront || o.k == opPushBack) && pre.full() && pre.cap <= 4 {
			x.count("huge elements: pushes while full on a buffer of 1..4 slots", fmt.Sprintf("%s, %d slots", x.name, pre.cap))
		}
	}
	d := x.d
	switch o.k {
	case opPushFront:
		id := x.fresh()
		if !x.noPanic(try(false, func() { d.PushFront(*x.in) }), "pushfront", "PushFront") {
			return
		}
		x.model = append([]int{id}, x.model...)
	case opPushBack:
		id := x.fresh()
		if !x.noPanic(try(false, func() { d.PushBack(*x.in) }), "pushback", "PushBack") {
			return
		}
		x.model = append(x.model, id)
	case opPopFront:
		p := try(n == 0, func() { *x.out = d.PopFront() })
		if n == 0 {
			x.mustPanic(p, "popfront-empty", "PopFront on empty", "PopFront on an empty deque")
			break
		}
		if !x.noPanic(p, "popfront", "PopFront") {
			return
		}
		x.value("popfront-value", "PopFront()", x.model[0])
		x.model = x.model[1:]
	case opPopBack:
		p := try(n == 0, func() { *x.out = d.PopBack() })
		if n == 0 {
			x.mustPanic(p, "popback-empty", "PopBack on empty", "PopBack on an empty deque")
			break
		}
		if !x.noPanic(p, "popback", "PopBack") {
			return
		}
		x.value("popback-value", "PopBack()", x.model[n-1])
		x.model = x.model[:n-1]
	case opFront:
		x.checkEnd(true)
	case opBack:
		x.checkEnd(false)
	case opLen:
		x.checkLen()
	case opItem:
		x.checkItem(o.arg)
	case opSet:
		id := x.fresh()
		p := try(o.arg < 0 || o.arg >= n, func() { d.Set(o.arg, *x.in) })
		if o.arg < 0 || o.arg >= n {
			x.mustPanic(p, "set-range", cls, fmt.Sprintf("Set(%d, x) with Len() == %d", o.arg, n))
			break
		}
		if !x.noPanic(p, "set", o.String()) {
			return
		}
		x.model[o.arg] = id
	case opGrow:
		if !x.noPanic(try(false, func() { d.Grow(o.arg) }), "grow", o.String()) {
			return
		}
	case opShrink:
		p := try(o.arg < 0, func() { d.Shrink(o.arg) })
		if o.arg < 0 {
			x.mustPanic(p, "shrink-negative", "Shrink:neg", o.String())
			break
		}
		if !x.noPanic(p, "shrink", o.String()) {
			return
		}
	case opIterate:
		x.checkIterate()
	}
	if x.failed {
		return
	}
	post := x.state()
	if post.cap > 4 {
		x.bigTook = true
	}
	if x.serial && pre.cap > 4 && post.cap != pre.cap {
		runtime.GC() // the dropped buffer is 16+ elements of >= 1 MiB
	}
	if !x.quiet && (post.cap != pre.cap || post.alloc != pre.alloc) {
		x.count("reallocations, by operation and layout before", opNames[o.k]+":"+pre.layout())
		x.count("huge elements: reallocations", fmt.Sprintf("%s: %d -> %d slots", x.name, pre.cap, post.cap))
	}
	if rb == rbNone {
		if !x.quiet {
			x.checkLen()
		}
		return
	}
	x.checkLen()
	x.checkEnd(true)
	x.checkEnd(false)
	for i := 0; rb >= rbItems && i < len(x.model) && !x.failed; i++ {
		x.checkItem(i)
	}
	if rb == rbFull && o.k != opIterate {
		x.checkIterate()
	}
	if rb == rbFull || (!x.serial && (o.k == opPopFront || o.k == opPopBack)) {
		x.ring()
	}
}

func (x *hrun[T, PT]) checkLen() {
	if x.failed {
		return
	}
	var got int
	if !x.noPanic(try(false, func() { got = x.d.Len() }), "len", "Len") {
		return
	}
	if got != len(x.model) {
		x.fail("len", fmt.Sprintf("Len() = %d, ideal sequence has %d items", got, len(x.model)))
	}
}

func (x *hrun[T, PT]) checkEnd(front bool) {
	if x.failed {
		return
	}
	name, sig := "Back", "back"
	if front {
		name, sig = "Front", "front"
	}
	n := len(x.model)
	p := try(n == 0, func() {
		if front {
			*x.out = x.d.Front()
		} else {
			*x.out = x.d.Back()
		}
	})
	if n == 0 {
		x.evals++
		if p == nil {
			x.fail(sig+"-empty-no-panic", name+" on an empty deque did not panic")
		}
		return
	}
	if !x.noPanic(p, sig, name) {
		return
	}
	want := x.model[n-1]
	if front {
		want = x.model[0]
	}
	x.value(sig+"-value", name+"()", want)
}

func (x *hrun[T, PT]) checkItem(i int) {
	if x.failed {
		return
	}
	n := len(x.model)
	p := try(i < 0 || i >= n, func() { *x.out = x.d.Item(i) })
	if i < 0 || i >= n {
		x.mustPanic(p, "item-range", op{opItem, i}.class(n, 0), fmt.Sprintf("Item(%d) with Len() == %d", i, n))
		return
	}
	if !x.noPanic(p, "item", fmt.Sprintf("Item(%d)", i)) {
		return
	}
	x.value("item-value", fmt.Sprintf("Item(%d)", i), x.model[i])
}

func (x *hrun[T, PT]) checkIterate() {
	if x.failed {
		return
	}
	n := len(x.model)
	var it interface{ Next() (T, bool) }
	if !x.noPanic(try(false, func() { it = x.d.Iterate() }), "iterate", "Iterate") {
		return
	}
	count, ended, bad := 0, false, ""
	p := try(false, func() {
		for i := 0; i < n+3; i++ {
			var ok bool
			*x.out, ok = it.Next()
			if !ok {
				ended = true
				return
			}
			if got := PT(x.out).getID(); bad == "" && (i >= n || got != x.model[i]) {
				bad = fmt.Sprintf("item %d is %s", i, showID(got))
			}
			count++
		}
	})
	if !x.noPanic(p, "iterate-next", fmt.Sprintf("Next of a fresh iterator after %d items", count)) {
		return
	}
	if !ended || count != n || bad != "" {
		x.fail("iterate", fmt.Sprintf("a fresh Iterate() yielded %d items (ended=%v) %s, ideal sequence has %d items", count, ended, bad, n))
		return
	}
	var more bool
	if !x.noPanic(try(false, func() { _, more = it.Next() }), "iterate-next", "Next after the end of a fresh iterator") {
		return
	}
	if more {
		x.fail("iterate-after-end", "iterator yielded an item after it had reported the end")
	}
}

// ring: the retention clause, on buffers of at most 4 slots (VerifSlots copies the whole buffer).
func (x *hrun[T, PT]) ring() {
	if x.failed {
		return
	}
	st := x.d.VerifState()
	n := len(x.model)
	if !st.Allocated || st.Cap == 0 || st.Cap > 4 || st.Front < 0 || st.Front >= st.Cap || n > st.Cap {
		return
	}
	slots := x.d.VerifSlots()
	x.evals++
	for j := range slots {
		off := j - st.Front
		if off < 0 {
			off += st.Cap
		}
		if off < n {
			continue
		}
		if id := PT(&slots[j]).getID(); id != 0 {
			x.fail("retained", fmt.Sprintf("raw slot %d (outside the live window front=%d len=%d cap=%d) still holds %s", j, st.Front, n, st.Cap, showID(id)))
			return
		}
	}
}

// collect drops the garbage of a history that allocated a buffer of more than 4 slots.
func (x *hrun[T, PT]) collect() {
	x.flush()
	x.d = nil
	if x.serial && x.bigTook {
		runtime.GC()
	}
}

// ---------------------------------------------------------------------------------------------

// hugeClassOps: the reduced list of operation classes applied from every state of the cover.
func hugeClassOps(n, c int) []op {
	free := c - n
	ops := []op{{k: opPushFront}, {k: opPushBack}, {k: opPopFront}, {k: opPopBack},
		{opItem, n}, {opItem, -1}, {opSet, n / 2}, {opSet, n}, {opSet, n - 1},
		{opGrow, 0}, {opGrow, 1}, {opGrow, free + 1}, {opShrink, 0}, {opShrink, 1}, {opShrink, free}, {opShrink, -1}, {k: opIterate}}
	seen := make(map[op]bool)
	var out []op
	for _, o := range ops {
		if !seen[o] {
			seen[o] = true
			out = append(out, o)
		}
	}
	return out
}

// hugeCover: closure over the abstract states with cap <= bound under hugeClassOps; each
// (state, class) runs on a fresh deque: prefix, the operation, a push, a pop at the other end.
func hugeCover[T any, PT hugePtr[T]](c *vkit.Case, name string, bound int, serial bool) {
	r := c.R
	sc := newScratch[T]()
	type node struct {
		key    stKey
		prefix []op
	}
	queued := map[stKey]bool{}
	var queue []node
	push := func(k stKey, prefix []op) {
		if !queued[k] && k.cap <= bound {
			queued[k] = true
			queue = append(queue, node{k, prefix})
		}
	}
	push(stKey{}, nil)
	for k := 1; k <= bound; k++ {
		x := newHrun[T, PT](c, name, sc, serial)
		x.step(op{opGrow, k}, rbFull)
		st := x.state()
		failed := x.failed
		x.collect()
		if failed {
			return
		}
		push(st, []op{{opGrow, k}})
	}
	sub := 0
	for len(queue) > 0 {
		nd := queue[0]
		queue = queue[1:]
		r.Count("huge elements: abstract states expanded by the reduced cover", name, 1)
		for _, o := range hugeClassOps(nd.key.n, nd.key.cap) {
			x := newHrun[T, PT](c, name, sc, serial)
			x.quiet = true
			for _, po := range nd.prefix {
				x.step(po, rbNone)
			}
			if !x.failed && x.state() != nd.key {
				r.Inconclusive(fmt.Sprintf("huge-element cover: replaying %v reached %v instead of %v", nd.prefix, x.state(), nd.key))
				x.collect()
				return
			}
			x.quiet = false
			x.step(o, rbItems)
			if !x.failed {
				if post := x.state(); !queued[post] && post.cap <= bound {
					push(post, append(append([]op{}, nd.prefix...), o))
				}
				// then a push at one end and a pop at the other (wrap-around, push while full)
				a, b := op{k: opPushFront}, op{k: opPopBack}
				if sub%2 == 1 {
					a, b = op{k: opPushBack}, op{k: opPopFront}
				}
				if serial {
					x.step(a, rbEnds)
				} else {
					x.step(a, rbItems)
				}
				x.step(b, rbFull)
			}
			sub++
			failed := x.failed
			x.collect()
			if failed {
				return
			}
		}
	}
	r.Count("huge elements: cover sub-runs", name, sub)
}

// hugeTargeted: buffers of 1..4 slots through Grow(k) on the zero value and through Shrink(s)
// after normal growth; filled up with the given pattern of pushes, then pushes while full, pops and
// pushes again.
func hugeTargeted[T any, PT hugePtr[T]](c *vkit.Case, name string, patterns int, long, serial bool) {
	r := c.R
	sc := newScratch[T]()
	type route struct {
		ops   []op
		slots int
		items int
	}
	var routes []route
	for k := 1; k <= 4; k++ {
		routes = append(routes, route{[]op{{opGrow, k}}, k, 0})
	}
	for j := 1; j <= 4; j++ {
		for s := 0; j+s <= 4; s++ {
			routes = append(routes, route{cat(rep(op{k: opPushBack}, j), []op{{opShrink, s}}), j + s, j})
		}
	}
	for _, rt := range routes {
		for pat := 0; pat < patterns; pat++ {
			for last := 0; last < 2; last++ {
				if !long && last != (len(rt.ops)+rt.slots+pat)%2 {
					continue // quick tier, elements >= 1 MiB: one of the two push sides per route
				}
				x := newHrun[T, PT](c, name, sc, serial)
				light := rbItems
				if serial {
					light = rbEnds
				}
				for _, o := range rt.ops {
					x.step(o, light)
				}
				if !x.failed && x.state().cap != rt.slots {
					r.Count("not judged", fmt.Sprintf("exact sizing did not give the expected buffer (%d slots wanted)", rt.slots), 1)
				}
				side := func(i int) opKind {
					switch pat {
					case 0:
						return opKind((i + last) % 2) // alternating
					case 1:
						return opPushBack
					}
					return opPushFront
				}
				for i := rt.items; i < rt.slots; i++ { // fill up
					x.step(op{k: side(i)}, light)
				}
				// pushes while full, pops, pushes again, shrink back to an exact fit, push again
				tailOps := []op{{k: opKind(last)}, {k: opKind(1 - last)}, {k: opPopFront}, {k: opPopBack}, {opShrink, 0}, {k: opKind(1 - last)}, {k: opPopFront}}
				if !long {
					tailOps = []op{{k: opKind(last)}, {k: opPopFront + opKind(last)}, {k: opKind(1 - last)}}
				}
				for i, o := range tailOps {
					rb := light
					switch i {
					case 0:
						rb = rbItems // the push while full
					case len(tailOps) - 1:
						rb = rbFull
					}
					x.step(o, rb)
				}
				failed := x.failed
				x.collect()
				r.Count("huge elements: targeted histories", name, 1)
				if failed {
					return
				}
			}
		}
	}
}

// hugeRandom: short random histories on at most 8 items.
func hugeRandom[T any, PT hugePtr[T]](c *vkit.Case, name string, histories, maxSteps int, serial bool) {
	r := c.R
	sc := newScratch[T]()
	rnd := c.Rand
	for h := 0; h < histories; h++ {
		x := newHrun[T, PT](c, name, sc, serial)
		if rnd.Bool(0.7) {
			x.step(op{opGrow, rnd.Intn(5)}, rbItems)
		}
		steps := rnd.Range(10, maxSteps)
		for i := 0; i < steps && !x.failed; i++ {
			n := len(x.model)
			var o op
			switch y := rnd.Intn(100); {
			case n >= 8:
				o = op{k: opPopFront + opKind(rnd.Intn(2))}
			case y < 42:
				o = op{k: opKind(rnd.Intn(2))}
			case y < 68:
				o = op{k: opPopFront + opKind(rnd.Intn(2))}
			case y < 82:
				o = op{opShrink, rnd.Intn(3)}
			case y < 87:
				o = op{opGrow, rnd.Intn(3)}
			case y < 91:
				o = op{opSet, rnd.Range(-1, n)}
			case y < 95:
				o = op{opItem, rnd.Range(-1, n)}
			case y < 97:
				o = op{opShrink, -1 - rnd.Intn(3)}
			default:
				o = op{k: opIterate}
			}
			x.step(o, rbItems)
		}
		x.step(op{k: opLen}, rbFull)
		failed := x.failed
		x.collect()
		r.Count("huge elements: random histories", name, 1)
		if failed {
			return
		}
	}
}

const (
	n64k  = "struct{int;[64KiB]byte;int}"
	n350k = "struct{int;[350KiB]byte;int}"
	n1m   = "struct{int;[1MiB]byte;int}"
	n4m   = "struct{int;[4MiB]byte;int}"
)

func hugeElems(r *vkit.Report) {
	// Start from a small heap and keep the collector eager while 16-slot buffers of huge elements
	// come and go (live data here never exceeds one such buffer, 64 MiB, plus the stack).
	runtime.GC()
	debug.FreeOSMemory()
	defer debug.SetGCPercent(debug.SetGCPercent(20))
	// 64 KiB and 350 KiB: a 16-slot buffer is 1 MiB / 5.6 MiB; several goroutines.
	r.Cases("huge-elem", 6, 3, func(c *vkit.Case) {
		switch c.Index {
		case 0:
			hugeCover[e64k](c, n64k, 4, false)
		case 1:
			hugeTargeted[e64k](c, n64k, 3, true, false)
			hugeRandom[e64k](c, n64k, r.Scale(40, 1500), 40, false)
		case 2:
			hugeCover[e350k](c, n350k, r.Scale(3, 4), false)
		case 3:
			hugeTargeted[e350k](c, n350k, r.Scale(1, 3), true, false)
		case 4:
			hugeRandom[e350k](c, n350k, r.Scale(10, 600), 40, false)
		case 5:
			hugeRandom[e350k](c, n350k, r.Scale(10, 600), 40, false)
		}
	})
	// 1 MiB and 4 MiB: one goroutine, a dropped 16-slot buffer (16 MiB / 64 MiB) is collected at
	// once. The 4 MiB type is skipped on 32-bit targets.
	wide := strconv.IntSize >= 64
	r.Cases("huge-elem-serial", 5, 1, func(c *vkit.Case) {
		debug.FreeOSMemory() // give back what the earlier groups left behind before taking 64 MiB buffers
		switch c.Index {
		case 0:
			hugeTargeted[e1m](c, n1m, r.Scale(2, 3), r.Thorough(), true)
		case 1:
			if r.Thorough() {
				hugeCover[e1m](c, n1m, 4, true)
			} else {
				hugeCover[e1m](c, n1m, 1, true)
			}
		case 2:
			hugeRandom[e1m](c, n1m, r.Scale(6, 200), 25, true)
		case 3:
			if wide {
				hugeTargeted[e4m](c, n4m, r.Scale(1, 3), r.Thorough(), true)
			}
		case 4:
			if wide && r.Thorough() {
				hugeCover[e4m](c, n4m, 3, true)
				hugeRandom[e4m](c, n4m, 30, 15, true)
			}
		}
		runtime.GC()
		debug.FreeOSMemory()
	})
	if r.Replaying() {
		return
	}
	names := []string{n64k, n350k, n1m}
	if wide {
		names = append(names, n4m)
	}
	for _, nm := range names {
		for slots := 1; slots <= 4; slots++ {
			k := fmt.Sprintf("%s, %d slots", nm, slots)
			r.Floor("pushes while full on a buffer of huge elements: "+k, r.Table("huge elements: pushes while full on a buffer of 1..4 slots", k), 2)
		}
	}
}
