package main

// (f) astro-real: REAL one-byte elements on buffers of about 2^31 .. 3*2^31 slots (64-bit only).
//
// Grow(n) on the zero value of a Deque[uint8] reserves n bytes of address space; the Go runtime maps
// fresh memory lazily, so only the handful of pages that are written cost RAM. That is only true for
// the FIRST such allocation of a process (a re-used address range is cleared explicitly, which
// commits all of it), so every deque is examined in a child process of its own: the monitor binary
// re-executes itself with C04_ASTRO_SLOTS=n, the child runs the one scenario under the ordinary
// runner and writes its part file, and the parent folds evaluations, tables and violations into its
// own report. The children run one at a time.
//
// Scenario: Grow(n); pushes at both ends so that front sits a few slots before the end of the
// buffer and the window wraps (front+i crosses n, and with it 2^31 or 2^32, inside the window);
// Set on every index; complete read-back (Len, Front, Back, every Item, Iterate) after every call;
// pops and pushes at both ends; finally Shrink (a reallocation out of the enormous wrapped buffer).
// The model holds only the few live items.

import (
	"context"
	"encoding/json"
	"fmt"
	"os"
	"os/exec"
	"strconv"
	"strings"
	"time"

	"verif/vkit"
)

const astroEnv = "C04_ASTRO_SLOTS"

// astroSizes are kept as uint64 so that the file compiles with 32-bit ints (the group is not run there).
func astroSizes(thorough bool) []uint64 {
	if thorough {
		return []uint64{1<<32 - 1, 1<<31 + 1, 1<<32 + 1, 1<<31 - 1, 3 << 31, 1<<32 - 7}
	}
	return []uint64{1<<32 - 1, 1<<31 + 1, 1<<32 + 1}
}

func vmHWMMiB() int {
	b, err := os.ReadFile("/proc/self/status")
	if err != nil {
		return -1
	}
	for _, l := range strings.Split(string(b), "\n") {
		if strings.HasPrefix(l, "VmHWM:") {
			f := strings.Fields(l)
			if len(f) >= 2 {
				kb, _ := strconv.Atoi(f[1])
				return kb / 1024
			}
		}
	}
	return -1
}

// astroChildMain is the whole program of a child process.
func astroChildMain(slotsArg string) {
	vkit.Main("C04", "exploration", func(r *vkit.Report) {
		slots, err := strconv.ParseUint(slotsArg, 10, 64)
		if err != nil || strconv.IntSize < 64 {
			r.Inconclusive("astro-real child: bad arguments")
			return
		}
		sh := newShared(r)
		r.Cases(fmt.Sprintf("astro-child-%d", slots), 1, 1, func(c *vkit.Case) {
			astroScenario(c, sh, int(slots))
		})
		r.Max("astro-real", "peak resident set of a child process, MiB", vmHWMMiB())
	})
}

func astroScenario(c *vkit.Case, sh *shared, slots int) {
	r := c.R
	rnd := c.Rand
	x := newRunner(c, sh, byteKind)
	defer x.flush()
	x.thor = true // complete read-back after every call (the window is tiny)
	x.step(op{opGrow, slots})
	if x.failed {
		return
	}
	if st := x.state(); st.cap != slots {
		r.Count("not judged", "Grow(n) on the zero value did not give exactly n slots", 1)
	}
	// front a few slots before the end of the buffer, window wrapped
	k := rnd.Range(2, 30)
	m := rnd.Range(k+3, k+40)
	nf, nb := 0, 0
	for (nf < k || nb < m) && !x.failed {
		if nf < k && (nb >= m || rnd.Bool(0.4)) {
			x.step(op{k: opPushFront})
			nf++
		} else {
			x.step(op{k: opPushBack})
			nb++
		}
	}
	if st := x.state(); !x.failed && st.wrapped() && st.cap == slots {
		r.Count("astro-real: wrapped windows examined, by buffer size", strconv.Itoa(slots), 1)
	}
	// Set every index (in a seeded order), each followed by the complete read-back
	for _, i := range rnd.Perm(len(x.model)) {
		x.step(op{opSet, i})
	}
	// probes outside the window
	for _, i := range []int{-1, len(x.model), slots - 1, slots, slots + 1} {
		x.step(op{opItem, i})
		x.step(op{opSet, i})
	}
	// pops and pushes at both ends; the window keeps straddling the end of the buffer most of the time
	steps := rnd.Range(30, 70)
	mixW := []int{20, 20, 14, 14, 3, 3, 10, 10, 1, 2, 0, 3}
	for i := 0; i < steps && !x.failed; i++ {
		o := randomOp(rnd, mixW, len(x.model), x.state().cap)
		if o.k == opGrow {
			o.arg = rnd.Intn(3) // never a second enormous buffer
		}
		if len(x.model) > 120 {
			o = op{k: opPopFront + opKind(rnd.Intn(2))}
		}
		x.step(o)
	}
	// out of the enormous buffer again: the reallocation copies a wrapped window
	x.step(op{opShrink, rnd.Intn(4)})
	for i := 0; i < 6 && !x.failed; i++ {
		x.step(randomOp(rnd, mixW, len(x.model), x.state().cap))
	}
	if !x.failed {
		r.Count("astro-real: scenarios completed, by buffer size", strconv.Itoa(slots), 1)
	}
}

// childPart is what the parent reads of a child's part file.
type childPart struct {
	Evals      int64 `json:"evals"`
	Violations []struct {
		Sig     string `json:"sig"`
		What    string `json:"what"`
		Witness any    `json:"witness"`
	} `json:"violations"`
	NViolations  int                         `json:"n_violations"`
	Tables       map[string]map[string]int64 `json:"tables"`
	Inconclusive []string                    `json:"inconclusive"`
}

func astroReal(r *vkit.Report) {
	if strconv.IntSize < 64 {
		return
	}
	sizes := astroSizes(r.Thorough())
	r.Cases("astro-real", len(sizes), 1, func(c *vkit.Case) {
		slots := sizes[c.Index]
		exe, err := os.Executable()
		if err != nil {
			r.Inconclusive("astro-real: cannot find the monitor binary: " + err.Error())
			return
		}
		tmp, err := os.CreateTemp("", "c04-astro-*.json")
		if err != nil {
			r.Inconclusive("astro-real: cannot create a temporary file: " + err.Error())
			return
		}
		tmp.Close()
		defer os.Remove(tmp.Name())
		// The deadline is a safety valve only (the scenario takes milliseconds); hitting it is inconclusive.
		ctx, cancel := context.WithTimeout(context.Background(), 10*time.Minute)
		defer cancel()
		cmd := exec.CommandContext(ctx, exe)
		var env []string
		for _, e := range os.Environ() {
			if strings.HasPrefix(e, "VERIF_CASE=") || strings.HasPrefix(e, "VERIF_PART_OUT=") || strings.HasPrefix(e, astroEnv+"=") {
				continue
			}
			env = append(env, e)
		}
		cmd.Env = append(env, astroEnv+"="+strconv.FormatUint(slots, 10), "VERIF_PART_OUT="+tmp.Name())
		out, runErr := cmd.CombinedOutput()
		b, readErr := os.ReadFile(tmp.Name())
		var p childPart
		if runErr != nil || readErr != nil || len(b) == 0 || json.Unmarshal(b, &p) != nil {
			tail := string(out)
			if len(tail) > 600 {
				tail = tail[len(tail)-600:]
			}
			r.Inconclusive(fmt.Sprintf("astro-real: the child process for %d slots gave no result (%v): %s", slots, runErr, strings.TrimSpace(tail)))
			return
		}
		r.Eval(int(p.Evals))
		for tn, t := range p.Tables {
			for k, v := range t {
				switch {
				case tn == "max:deque":
				case strings.HasPrefix(tn, "max:"):
					r.Max(tn[4:], k, int(v))
				default:
					r.Count(tn, k, int(v))
				}
			}
		}
		for _, s := range p.Inconclusive {
			r.Inconclusive("astro-real child: " + s)
		}
		for _, v := range p.Violations {
			c.Violation(v.Sig, v.What, v.Witness)
		}
	})
	if r.Replaying() {
		return
	}
	done := int64(0)
	for _, s := range sizes {
		done += r.Table("astro-real: wrapped windows examined, by buffer size", strconv.FormatUint(s, 10))
	}
	r.Floor("astro-real: wrapped windows examined on real one-byte buffers of 2^31..3*2^31 slots", done, int64(len(sizes)))
}
