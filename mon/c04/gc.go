package main

// (g) Real collectability: "elements that have been popped are not retained by the deque", decided
// by the garbage collector itself rather than by looking at the raw ring (a buffer cut with a
// three-index slice, or any other place the hook does not show, could still pin popped elements).
//
// Elements are pointers to small structs with a pointer field (so they are not tiny-allocated), each
// with a finalizer that records its id. The harness keeps only ids. Finalizers run asynchronously,
// so the probe repeats GC cycles, and only a shortfall that persists after 40 cycles and is far
// above the handful of objects a dead stack slot or register can pin is a verdict. Elements still
// in the deque must not be finalized.

import (
	"fmt"
	"runtime"
	"sync/atomic"
	"time"

	"github.com/bradenaw/juniper/container/deque"

	"verif/vkit"
)

type gcElem struct {
	id   int
	self *gcElem // stays nil: only makes the object a pointerful one (no tiny allocator)
}

type gcProbe struct {
	d        deque.Deque[*gcElem]
	ids      []int // the model: ids in the deque, front first
	next     int
	fin      []atomic.Bool
	nFin     atomic.Int64
	popped   int
	badValue string
}

//go:noinline
func (g *gcProbe) push(front bool) {
	id := g.next
	g.next++
	e := &gcElem{id: id}
	runtime.SetFinalizer(e, func(e *gcElem) {
		g.fin[e.id].Store(true)
		g.nFin.Add(1)
	})
	if front {
		g.d.PushFront(e)
		g.ids = append([]int{id}, g.ids...)
	} else {
		g.d.PushBack(e)
		g.ids = append(g.ids, id)
	}
}

//go:noinline
func (g *gcProbe) pop(front bool) {
	if len(g.ids) == 0 {
		return
	}
	var got, want int
	if front {
		got, want = g.d.PopFront().id, g.ids[0]
		g.ids = g.ids[1:]
	} else {
		got, want = g.d.PopBack().id, g.ids[len(g.ids)-1]
		g.ids = g.ids[:len(g.ids)-1]
	}
	g.popped++
	if got != want && g.badValue == "" {
		g.badValue = fmt.Sprintf("pop returned element #%d, ideal sequence gives #%d", got, want)
	}
}

var gcActions = []string{"nothing", "Shrink(0)", "Shrink(small)", "Grow(small) then Shrink(0)", "push/pop churn that wraps", "Shrink(0) twice around more pops"}

func gcProbes(r *vkit.Report) {
	n := r.Scale(36, 360)
	r.Cases("gc", n, 1, func(c *vkit.Case) {
		rnd := c.Rand
		size := []int{100, 256, 64, 512, 200, 400}[c.Index%6]
		action := (c.Index / 6) % len(gcActions)
		popMix := []float64{1, 0, 0.5, 0.8}[(c.Index/2)%4] // probability of popping at the front
		g := &gcProbe{fin: make([]atomic.Bool, 4*size+64)}
		script := []string{}
		vp := vkit.Try(func() {
			for i := 0; i < size; i++ {
				g.push(c.Index%5 == 4 && rnd.Bool(0.3))
			}
			k1 := size/4 + rnd.Intn(size/8+1)
			for i := 0; i < k1; i++ {
				g.pop(rnd.Bool(popMix))
			}
			script = append(script, fmt.Sprintf("push %d", size), fmt.Sprintf("pop %d (front with p=%.1f)", k1, popMix))
			small := rnd.Range(1, 6)
			switch action {
			case 1:
				g.d.Shrink(0)
			case 2:
				g.d.Shrink(small)
			case 3:
				g.d.Grow(small)
				g.d.Shrink(0)
			case 4:
				for i := 0; i < size; i++ {
					g.push(false)
					g.pop(true)
				}
			case 5:
				g.d.Shrink(0)
				for i := 0; i < size/8; i++ {
					g.pop(rnd.Bool(popMix))
				}
				g.d.Shrink(0)
			}
			script = append(script, gcActions[action])
			// pop most of the rest (after the Shrink: stale copies left behind by it would pin these)
			k2 := len(g.ids) - rnd.Range(4, 12)
			for i := 0; i < k2; i++ {
				g.pop(rnd.Bool(popMix))
			}
			script = append(script, fmt.Sprintf("pop %d more, %d stay", k2, len(g.ids)))
			if c.Index%3 == 0 {
				g.d.Shrink(rnd.Intn(3))
				script = append(script, "Shrink(0..2)")
			}
		})
		if vp != nil {
			c.Violation("gc-probe-panic", fmt.Sprintf("collectability probe %v: unexpected panic: %s", script, vp.Msg), map[string]any{"script": script})
			return
		}
		want := int64(g.popped)
		const margin = 8
		limit := int64(24)
		if want/4 > limit {
			limit = want / 4
		}
		rounds := 0
		for rounds = 0; rounds < 40; rounds++ {
			runtime.GC()
			time.Sleep(2 * time.Millisecond)
			if g.nFin.Load() >= want-margin {
				break
			}
		}
		got := g.nFin.Load()
		r.Eval(2)
		r.Count("collectability probe", "scenarios", 1)
		r.Count("collectability probe", "elements popped", g.popped)
		r.Count("collectability probe: scenarios by action", gcActions[action], 1)
		r.Max("collectability probe", "GC cycles needed", rounds+1)
		r.Max("collectability probe", "popped elements not yet finalized at the end", int(want-got))
		witness := map[string]any{"script": script, "popped": g.popped, "finalized": got, "gc_cycles": rounds}
		if g.badValue != "" {
			c.Violation("gc-probe-pop-value", fmt.Sprintf("collectability probe %v: %s", script, g.badValue), witness)
			return
		}
		if g.d.Len() != len(g.ids) {
			c.Violation("len", fmt.Sprintf("collectability probe %v: Len() = %d, ideal sequence has %d", script, g.d.Len(), len(g.ids)), witness)
			return
		}
		// Elements still in the deque must be alive.
		for _, id := range g.ids {
			if g.fin[id].Load() {
				c.Violation("live-element-finalized", fmt.Sprintf("collectability probe %v: element #%d is still in the deque but was finalized", script, id), witness)
				return
			}
		}
		if want-got > limit {
			c.Violation("popped-elements-retained",
				fmt.Sprintf("collectability probe %v: %d elements were popped; after %d garbage collections only %d of them had been reclaimed, %d are still reachable (the harness keeps ids only; up to about %d may be pinned by dead stack slots, the verdict needs more than %d)",
					script, want, rounds, got, want-got, margin, limit), witness)
			return
		}
		// read the survivors back, then let go of the deque
		for i, id := range g.ids {
			if e := g.d.Item(i); e == nil || e.id != id {
				c.Violation("item-value", fmt.Sprintf("collectability probe %v: Item(%d) is not element #%d", script, i, id), witness)
				return
			}
		}
		runtime.KeepAlive(g)
	})
	if !r.Replaying() {
		r.Floor("collectability probes run", r.Table("collectability probe", "scenarios"), int64(n))
	}
}
