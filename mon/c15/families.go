package main

import (
	"fmt"
	"math"
	"strings"

	"github.com/bradenaw/juniper/container/deque"

	"verif/vkit"
)

// Scripted families added after seeded changes were missed by the (state x position x one operation)
// enumeration:
//   - counter rewind: a stale iterator must stay stale while the container is drained to empty,
//     resized while empty and refilled, however the modification counter moves (polled after every step);
//   - zero-size elements: deques whose ring has more than MaxInt/2 slots (only possible for
//     Deque[struct{}]), wrapped, iterated unchanged and with mid-iteration operations;
//   - counter wrap: exactly 2^k modifications between two Next calls (2^32 in the thorough tier).

// ---------------------------------------------------------------------------------------------
// helpers: pick operations by role, poll

func findOp(drv driver, y map[int]bool, match func(o op) bool) (op, bool) {
	for _, o := range drv.enumOps(y) {
		if match(o) {
			return o, true
		}
	}
	return op{}, false
}

func byDesc(desc string) func(op) bool { return func(o op) bool { return o.desc == desc } }
func byLabelPrefix(p string) func(op) bool {
	return func(o op) bool { return strings.HasPrefix(o.label, p) }
}

// role maps an abstract step (push, push2, pop, pop2, set) to an operation of the container kind.
func role(kind, what string) func(op) bool {
	switch kind + ":" + what {
	case "deque:push":
		return byLabelPrefix("PushBack")
	case "deque:push2":
		return byLabelPrefix("PushFront")
	case "deque:pop":
		return byLabelPrefix("PopFront")
	case "deque:pop2":
		return byLabelPrefix("PopBack")
	case "deque:set":
		return byLabelPrefix("Set(")
	case "heap:push":
		return byLabelPrefix("Push(new maximum)")
	case "heap:push2":
		return byLabelPrefix("Push(new minimum)")
	case "heap:set":
		return byLabelPrefix("Push(tie")
	case "heap:pop", "heap:pop2", "queue:pop":
		return byLabelPrefix("Pop")
	case "queue:push":
		return byLabelPrefix("Update(new key, new maximum)")
	case "queue:push2":
		return byLabelPrefix("Update(new key, new minimum)")
	case "queue:pop2":
		return byLabelPrefix("Remove(")
	case "queue:set":
		return func(o op) bool {
			return strings.HasPrefix(o.label, "Update(") && strings.HasSuffix(o.label, "key, higher)")
		}
	}
	return byDesc(what) // a concrete call such as "Shrink(0)"
}

// step applies the operation playing the given role (if the container offers it now) and, when
// poll is set, calls Next on every live iterator.
func (s *scenario) step(what string, poll bool) bool {
	if s.stop {
		return false
	}
	o, ok := findOp(s.drv, s.its[0].mon.yieldedSet(), role(s.drv.kind(), what))
	if !ok {
		return false
	}
	s.apply(o)
	if poll {
		s.poll()
	}
	return true
}

func (s *scenario) poll() {
	for j := range s.its {
		s.next(j)
	}
}

func (s *scenario) tally(family string) {
	kind := s.drv.kind()
	s.flush()
	s.r.Count("scenarios", kind+" ("+family+")", 1)
	s.r.Count("obligations", kind+": next Next must panic (element added or removed while under way)", s.mustPanicChecked)
	s.r.Count("obligations", kind+": yield after a mutating call checked against the snapshot", s.postChangeYields)
}

// ---------------------------------------------------------------------------------------------
// Counter rewind family

var rewindPreludes = [][]string{
	{"push", "push", "push", "push", "push", "push", "push", "push"},
	{"push", "push2", "set", "pop", "push", "Grow(5)", "push2", "set"},
	{"Grow(5)", "push2", "push", "pop2", "push", "set", "push2", "push"},
}
var rewindSpecials = []string{"Shrink(0)", "Shrink(1)", "Grow(0)", "Grow(5)", "(nothing)"}
var rewindRefills = [][]string{
	{"push"},
	{"push", "push2"},
	{"push", "push2", "pop"},
	{"push2", "pop2", "push"},
}

func emptyDriver(kind string, base int) driver {
	switch kind {
	case "deque":
		return &dequeDrv{d: &deque.Deque[int]{}, tok: 1000 * base, moreGrow: []int{5}, moreShrink: []int{1}}
	case "heap":
		dv := buildHeap(nil, 2, 100*base)
		dv.moreGrow = []int{5}
		return dv
	default:
		dv := buildPQ(nil, 1, 100*base)
		dv.moreGrow = []int{5}
		return dv
	}
}

func rewind(r *vkit.Report, workers int) {
	kinds := []string{"deque", "heap", "queue"}
	const maxG = 8
	const refillSteps = 12
	r.Cases("rewind", len(kinds)*maxG*len(rewindPreludes), workers, func(c *vkit.Case) {
		kind := kinds[c.Index%len(kinds)]
		g := 1 + (c.Index/len(kinds))%maxG
		prelude := rewindPreludes[c.Index/(len(kinds)*maxG)]
		base := c.Rand.Range(1, 9)
		// start builds the container with g modifications behind it and takes an iterator.
		start := func(consume int) *scenario {
			drv := emptyDriver(kind, base)
			for _, what := range prelude[:g] {
				if o, ok := findOp(drv, nil, role(kind, what)); ok {
					if vkit.Try(o.do) == nil && o.after != nil {
						o.after()
					}
				}
			}
			s := newScenario(c, drv, fmt.Sprintf("after %v: %s", prelude[:g], drv.describe()))
			s.newIter()
			for i := 0; i < consume; i++ {
				s.next(0)
			}
			return s
		}
		n := len(start(0).drv.contents())
		consumes := []int{0}
		if n >= 1 {
			consumes = append(consumes, 1)
		}
		if n >= 2 {
			consumes = append(consumes, n)
		}
		run := func(consume int, special string, refill []string, steps int, pollEvery bool) bool {
			s := start(consume)
			for t := 0; len(s.drv.contents()) > 0 && !s.stop; t++ {
				s.step([]string{"pop", "pop2"}[t%2], pollEvery)
			}
			if special != "(nothing)" {
				if !s.step(special, pollEvery) && !s.stop {
					return true // this container has no such call (PriorityQueue has no Shrink)
				}
			} else if pollEvery {
				s.poll()
			}
			for t := 0; t < steps && !s.stop; t++ {
				s.step(refill[t%len(refill)], pollEvery)
			}
			s.drain()
			s.tally("counter rewind: drained to empty, resized while empty, refilled")
			if !s.violated && !s.aborted && consume > 0 && pollEvery {
				s.maybeSample("rewind|" + kind)
			}
			return !s.stop
		}
		for _, consume := range consumes {
			for _, special := range rewindSpecials {
				for ri, refill := range rewindRefills {
					// stale iterator polled after every single step of the drain, the resize and the refill
					if !run(consume, special, refill, refillSteps, true) {
						return
					}
					// and polled only once, after j refill steps (an iterator that has not started yet would
					// legitimately adopt the contents at its first Next, so only started ones are worth it)
					if ri < 2 && consume > 0 {
						for j := 0; j <= refillSteps; j++ {
							if !run(consume, special, refill, j, false) {
								return
							}
						}
					}
				}
			}
		}
	})
}

// ---------------------------------------------------------------------------------------------
// Zero-size elements: Deque[struct{}] can have a ring of MaxInt slots at no cost. Elements are
// indistinguishable, so a snapshot is just a length: positions 1..len, and the k-th yield of an
// iterator is given id k. Only O(1) calls are made (never anything proportional to the capacity).

type zdqDrv struct {
	d    *deque.Deque[struct{}]
	n    int
	prob string
	how  string
}

func buildZDQ(capacity, fronts, backs int) *zdqDrv {
	dv := &zdqDrv{d: &deque.Deque[struct{}]{}}
	dv.d.Grow(capacity)
	for i := 0; i < fronts; i++ {
		dv.d.PushFront(struct{}{})
		dv.n++
	}
	for i := 0; i < backs; i++ {
		dv.d.PushBack(struct{}{})
		dv.n++
	}
	dv.how = fmt.Sprintf("Deque[struct{}]: Grow(%s), %d x PushFront, %d x PushBack", capName(capacity), fronts, backs)
	return dv
}

func capName(c int) string {
	switch {
	case c > math.MaxInt-1000:
		return fmt.Sprintf("MaxInt-%d", math.MaxInt-c)
	case c > math.MaxInt/2 && c-math.MaxInt/2 < 100000:
		return fmt.Sprintf("MaxInt/2+%d", c-math.MaxInt/2)
	}
	return fmt.Sprint(c)
}

func (dv *zdqDrv) kind() string     { return "deque" }
func (dv *zdqDrv) positional() bool { return true }
func (dv *zdqDrv) problem() string  { return dv.prob }
func (dv *zdqDrv) contents() []int {
	out := make([]int, dv.n)
	for i := range out {
		out[i] = i + 1
	}
	return out
}

func (dv *zdqDrv) iterate() func() (int, string, bool) {
	it := dv.d.Iterate()
	k := 0
	return func() (int, string, bool) {
		_, ok := it.Next()
		if !ok {
			return 0, "", false
		}
		k++
		return k, fmt.Sprintf("{} (#%d)", k), true
	}
}

func (dv *zdqDrv) check() {
	if got := dv.d.Len(); got != dv.n {
		dv.prob = fmt.Sprintf("Len() = %d, model has %d", got, dv.n)
		return
	}
	for i := 0; i < dv.n; i++ {
		_ = dv.d.Item(i)
	}
}

func (dv *zdqDrv) stateClass() string {
	vs := dv.d.VerifState()
	layout := "front0"
	switch {
	case dv.n > 0 && vs.Front > vs.Back:
		layout = "wrapped"
	case vs.Front > 0:
		layout = "shifted"
	}
	size := "small"
	switch {
	case vs.Cap == math.MaxInt:
		size = "MaxInt"
	case vs.Cap > math.MaxInt/2:
		size = ">MaxInt/2"
	}
	return "zero-size/cap " + size + "/" + layout
}

func (dv *zdqDrv) describe() string {
	vs := dv.d.VerifState()
	return fmt.Sprintf("%s → cap=%s front=%s back=%d len=%d", dv.how, capName(vs.Cap), capName(vs.Front), vs.Back, dv.n)
}

func (dv *zdqDrv) enumOps(y map[int]bool) []op {
	d := dv.d
	n := dv.n
	vs := d.VerifState()
	extra := vs.Cap - n
	var ops []op
	add := func(o op) { ops = append(ops, o) }
	add(op{label: "(nothing)", desc: "(nothing)", do: func() {}})
	add(op{label: "Len", desc: "Len()", do: func() { _ = d.Len() }})
	add(op{label: "Item(all)", desc: "Item(0..len-1)", do: func() {
		for i := 0; i < n; i++ {
			_ = d.Item(i)
		}
	}})
	add(op{label: "Front", desc: "Front()", wantPanic: n == 0, do: func() { _ = d.Front() }})
	add(op{label: "Back", desc: "Back()", wantPanic: n == 0, do: func() { _ = d.Back() }})
	add(op{label: "PushFront", desc: "PushFront({})", mutating: true, addRemove: true, do: func() { d.PushFront(struct{}{}) }, after: func() { dv.n++ }})
	add(op{label: "PushBack", desc: "PushBack({})", mutating: true, addRemove: true, do: func() { d.PushBack(struct{}{}) }, after: func() { dv.n++ }})
	popLabel := ""
	switch n {
	case 0:
		popLabel = "(empty: panics)"
	case 1:
		popLabel = "(empties)"
	}
	add(op{label: "PopFront" + popLabel, desc: "PopFront()", mutating: true, addRemove: n > 0, wantPanic: n == 0, do: func() { d.PopFront() }, after: func() { dv.n-- }})
	add(op{label: "PopBack" + popLabel, desc: "PopBack()", mutating: true, addRemove: n > 0, wantPanic: n == 0, do: func() { d.PopBack() }, after: func() { dv.n-- }})
	var setAt []int
	if n >= 1 {
		setAt = append(setAt, 0)
	}
	if n >= 2 {
		setAt = append(setAt, n-1)
	}
	for _, i := range setAt {
		i := i
		lab := "Set(unconsumed)"
		if y[i+1] {
			lab = "Set(consumed)"
		}
		add(op{label: lab, desc: fmt.Sprintf("Set(%d, {})", i), mutating: true, do: func() { d.Set(i, struct{}{}) }})
	}
	for _, i := range []int{-1, n, n + 1, math.MaxInt, math.MinInt} {
		i := i
		add(op{label: "Item(out of range: panics)", desc: fmt.Sprintf("Item(%s)", idxName(i)), wantPanic: true, do: func() { _ = d.Item(i) }})
		add(op{label: "Set(out of range: panics)", desc: fmt.Sprintf("Set(%s, {})", idxName(i)), mutating: true, wantPanic: true, do: func() { d.Set(i, struct{}{}) }})
	}
	add(op{label: "Grow(0)", desc: "Grow(0)", mutating: true, do: func() { d.Grow(0) }})
	if extra >= 1 {
		add(op{label: "Grow(fits: no-op)", desc: "Grow(1)", mutating: true, do: func() { d.Grow(1) }})
	}
	if vs.Cap < 1<<20 {
		add(op{label: "Grow(realloc)", desc: fmt.Sprintf("Grow(%d)", extra+1), mutating: true, do: func() { d.Grow(extra + 1) }})
	}
	add(op{label: "Shrink(negative: panics)", desc: "Shrink(-1)", mutating: true, wantPanic: true, do: func() { d.Shrink(-1) }})
	lab := "Shrink(no-op)"
	if extra > 0 {
		lab = "Shrink(realloc)" // a ring of zero-size slots: allocation and copy cost nothing
	}
	add(op{label: lab, desc: "Shrink(0)", mutating: true, do: func() { d.Shrink(0) }})
	add(op{label: "Shrink(no-op)", desc: "Shrink(MaxInt)", mutating: true, do: func() { d.Shrink(math.MaxInt) }})
	return ops
}

func zeroSize(r *vkit.Report, workers int) {
	caps := []int{math.MaxInt, math.MaxInt - 1, math.MaxInt/2 + 1, math.MaxInt/2 + 2, math.MaxInt/2 + 1000, math.MaxInt / 2, 5}
	const maxFront, maxBack = 3, 4
	r.Cases("zerosize", len(caps)*maxFront*(maxBack+1), workers, func(c *vkit.Case) {
		capacity := caps[c.Index%len(caps)]
		fronts := 1 + (c.Index/len(caps))%maxFront
		backs := c.Index / (len(caps) * maxFront)
		if capacity < fronts+backs {
			capacity = fronts + backs
		}
		dv := buildZDQ(capacity, fronts, backs)
		vs := dv.d.VerifState()
		if vs.Cap != capacity || dv.d.Len() != fronts+backs {
			r.Inconclusive("zero-size deque not built as planned: " + dv.describe())
			return
		}
		if vs.Cap > math.MaxInt/2 && vs.Front > vs.Back {
			r.Count("zero-size deques", "wrapped ring with more than MaxInt/2 slots, len "+fmt.Sprint(dv.n), 1)
		}
		runSystematic(c, func() driver { return buildZDQ(capacity, fronts, backs) })
	})
}

// ---------------------------------------------------------------------------------------------
// Counter wrap: exactly 2^k modifications (2^(k-1) add/remove pairs that leave the contents as they
// were) between two Next calls. The next Next must panic.

func wrap(r *vkit.Report, workers int) {
	exps := []int{8, 16, 24}
	if r.Thorough() && !is32() { // 2^32 does not fit a 32-bit int (and the int counter itself wraps there)
		exps = append(exps, 32)
	}
	type wcase struct {
		kind string
		exp  int
	}
	var cases []wcase
	// the longest first, so that they overlap with each other on the workers
	for i := len(exps) - 1; i >= 0; i-- {
		cases = append(cases, wcase{"heap", exps[i]}, wcase{"queue", exps[i]})
	}
	r.Cases("wrap", len(cases), workers, func(c *vkit.Case) {
		w := cases[c.Index]
		pairs := 1 << (w.exp - 1)
		var drv driver
		var o op
		label := fmt.Sprintf("2^%d modifications (2^%d add/remove pairs)", w.exp, w.exp-1)
		if w.kind == "heap" {
			dv := buildHeap([]int{20, 30}, 0, 100)
			e := hel{10, dv.nid + 1}
			o = op{label: label, desc: fmt.Sprintf("%d x { Push(%v); Pop() }", pairs, e), mutating: true, addRemove: true,
				do: func() {
					dv.all[e.id] = e.pri
					for i := 0; i < pairs; i++ {
						dv.h.Push(e)
						if got := dv.h.Pop(); got != e {
							dv.prob = fmt.Sprintf("Pop() = %v right after Push(%v), the new minimum", got, e)
							return
						}
					}
				}}
			drv = dv
		} else {
			dv := buildPQ([]int{20, 30}, 0, 100)
			k := dv.nk + 1
			o = op{label: label, desc: fmt.Sprintf("%d x { Update(%d, p10) [new key]; Pop() }", pairs, k), mutating: true, addRemove: true,
				do: func() {
					dv.ever[k] = true
					for i := 0; i < pairs; i++ {
						dv.q.Update(k, 10)
						if got := dv.q.Pop(); got != k {
							dv.prob = fmt.Sprintf("Pop() = %d right after Update(%d, lowest priority)", got, k)
							return
						}
					}
				}}
			drv = dv
		}
		s := newScenario(c, drv, drv.describe())
		s.newIter()
		s.next(0)
		s.apply(o)
		s.drain()
		s.tally("counter wrap")
		if !s.stop {
			r.Count("counter wrap: modifications between two Next calls", w.kind+fmt.Sprintf(": 2^%d", w.exp), 1)
			if w.exp == 24 {
				s.maybeSample("wrap|" + w.kind)
			}
		}
	})
}
