// C15 — container iterators are snapshot-or-panic: Deque.Iterate, xheap.Heap.Iterate,
// xheap.PriorityQueue.Iterate never silently return wrong data.
//
// Oracle (oracle.go): a small automaton per live iterator. Snapshot candidates S0 (contents when
// Iterate was called) and S1 (contents when Next was first called); the iterator has to stay
// consistent with one of them. Before any mutating call: yields follow the snapshot, no panic.
// After a call of ANY mutating method that returned normally (even a no-op one; a call that itself
// panicked was refused, changed nothing and obliges nothing): each Next may panic, or yield the next
// snapshot element (deque: positional; heap/queue: any not yet yielded element of the snapshot), or
// report exhaustion only if the whole snapshot has been yielded. Once >= 1 Next has been made and
// exhaustion has not been reported, an element actually added or removed obliges the very next Next
// to panic. Pure reads leave the iterator obliged not to panic.
//
// Workloads (this file): systematic enumeration of (container state, iterator position, operation)
// with continued iteration to the end, the same with two live iterators, named regression scenarios
// for the defects already fixed (D9 x3, D10), and seeded random scenarios with several operations,
// up to three live iterators, and larger containers.
package main

import (
	"fmt"
	"runtime"
	"time"

	"verif/vkit"
)

func main() {
	vkit.Main("C15", "exploration", func(r *vkit.Report) {
		r.SetRule("scenario = one container state (deque: abstract state (cap, front, len) reached through the public API; heap/queue: size x fill pattern x constructor), " +
			"one iterator advanced to position p in 0..len, one operation (or several), then every live iterator continued to the end; every Next outcome is judged by the snapshot-or-panic automaton. " +
			"non-trivial = the operation is a call of a mutating method applied at a position p < len (something was left to iterate); " +
			"distinct = by (container, state class [deque: cap/layout/fill; heap, queue: size/constructor], position class first|mid|last, operation class).")
		r.Assume("elements are distinct tokens (deque), distinct ids with tied priorities (heap), distinct keys (queue), so positional and multiset comparison against a snapshot is exact")
		r.Assume("the containers answer their non-iterator calls like the ideal container (C04/C05 decide that); a divergence there ends the case as inconclusive instead of being judged")
		r.Assume("lenient readings: the snapshot may be the contents at Iterate() or at the first Next; after a call of any mutating method that returned normally, even a no-op one, any panic is acceptable " +
			"(a call that itself panicked - pop / Front / Back / Peek on empty, Set / Item out of range, Shrink(-1) - was refused, modified nothing, and leaves the iterator obliged to carry on); " +
			"the must-panic clause is demanded only while >= 1 Next has been made and exhaustion has not yet been reported")

		workers := runtime.GOMAXPROCS(0)
		if workers > 8 {
			workers = 8
		}
		maxCap := r.Scale(8, 12)
		maxN := r.Scale(7, 10)

		// the counter-wrap scenarios are single long calls; they run beside the other groups
		wrapDone := make(chan struct{})
		go func() { defer close(wrapDone); wrap(r, 2) }()
		wideDone := make(chan struct{})
		go func() { defer close(wideDone); wide32(r) }()

		// wall time per group: information for the reader of the evidence only, never judged
		groupWall := map[string]float64{}
		timed := func(name string, f func()) {
			t0 := time.Now()
			f()
			groupWall[name] = float64(int(time.Since(t0).Seconds()*10+0.5)) / 10
		}
		nStates := 0
		timed("regress", func() { regressions(r) })
		timed("deque", func() { nStates = dequeSystematic(r, maxCap, workers) })
		timed("heap", func() { heapSystematic(r, maxN, workers) })
		timed("queue", func() { queueSystematic(r, maxN, workers) })
		timed("two", func() { twoIterators(r, r.Scale(4, 6), r.Scale(4, 5), workers) })
		timed("multi", func() { multi(r, r.Scale(6000, 150000), workers) })
		timed("rewind", func() { rewind(r, workers) })
		timed("zerosize", func() { zeroSize(r, workers) })
		timed("waiting for wrap", func() { <-wrapDone })
		timed("waiting for wide32", func() { <-wideDone })
		r.SetExtra("group_wall_s", groupWall)

		// Coverage floors (all reached deterministically).
		var reached int64
		for k := 0; k <= maxCap; k++ {
			reached += r.Table("deque abstract states reached", fmt.Sprintf("cap=%d", k))
		}
		r.Floor("deque abstract states (cap, front, len) reached and verified with VerifState()", reached, int64(nStates))
		r.Floor("deque: must-panic obligations checked", r.Table("obligations", "deque: next Next must panic (element added or removed while under way)"), 500)
		r.Floor("heap: must-panic obligations checked", r.Table("obligations", "heap: next Next must panic (element added or removed while under way)"), 200)
		r.Floor("queue: must-panic obligations checked", r.Table("obligations", "queue: next Next must panic (element added or removed while under way)"), 200)
		r.Floor("yields checked against the snapshot after a mutating call", r.Table("obligations", "deque: yield after a mutating call checked against the snapshot")+
			r.Table("obligations", "heap: yield after a mutating call checked against the snapshot")+
			r.Table("obligations", "queue: yield after a mutating call checked against the snapshot"), 200)
		for _, k := range []string{"deque", "heap", "queue"} {
			r.Floor(k+": Next after a refused (panicking) call with nothing else modified", r.Table("next outcomes", k+": after-refused-call → yield")+r.Table("next outcomes", k+": after-refused-call → end"), 20)
		}
		r.Floor("deque: iteration carried on (yield) after an out-of-range Set or Item", r.Table("next outcomes", "deque: after-refused-call → yield"), 1000)
		for _, k := range []string{"deque", "heap", "queue"} {
			r.Floor(k+": counter rewind scenarios", r.Table("scenarios", k+" (counter rewind: drained to empty, resized while empty, refilled)"), 500)
		}
		r.Floor("zero-size deques: wrapped rings with more than MaxInt/2 slots iterated", r.Table("zero-size deques", "wrapped ring with more than MaxInt/2 slots, len 3")+
			r.Table("zero-size deques", "wrapped ring with more than MaxInt/2 slots, len 4")+r.Table("zero-size deques", "wrapped ring with more than MaxInt/2 slots, len 5"), 10)
		wrapExps := []int{8, 16, 24}
		if r.Thorough() && !is32() {
			wrapExps = append(wrapExps, 32)
		}
		if r.Thorough() && is32() {
			const tbl = "32-bit int: modifications between two Next calls, and lifetime count before a fresh iterator"
			for _, k := range []string{"deque: 2^31-1", "deque: 2^31", "deque: 2^31+1", "deque: 2^32", "heap: 2^31-1", "heap: 2^31", "heap: 2^31+1", "queue: 2^31-1", "queue: 2^31", "queue: 2^31+1"} {
				r.Floor("32-bit int, "+k+" modifications", r.Table(tbl, k), 1)
			}
		}
		for _, e := range wrapExps {
			for _, k := range []string{"heap", "queue"} {
				r.Floor(fmt.Sprintf("%s: 2^%d modifications between two Next calls", k, e), r.Table("counter wrap: modifications between two Next calls", fmt.Sprintf("%s: 2^%d", k, e)), 1)
			}
		}
		for _, name := range regressionNames {
			r.Floor("regression scenario "+name, r.Table("regression scenarios", name), 1)
		}
		if !r.Replaying() && !r.OverBudget() {
			r.SetExhaustive(true)
			r.SetExtra("exhaustive_over", fmt.Sprintf("deque: every reachable abstract state with cap <= %d (%d states, each by 3 construction routes) x position 0..len x every operation of the list (Set at every index, Grow/Shrink on both sides of the realloc threshold); "+
				"heap: sizes 0..%d x 4 fill patterns x 4 constructors x position x {Push x3, Pop, Grow x3, Shrink x3, reads}; "+
				"queue: sizes 0..%d x 4 fill patterns x 3 constructors x position x {Update new key x3, Update of every key x {to top, lower, equal, higher, to bottom}, Remove of every key and of an absent one, Pop, Grow x3, reads}; "+
				"on top: scripted families (counter rewind: g = 1..8 modifications x 3 preludes x consumed 0/1/all x drain to empty x {Shrink(0), Shrink(1), Grow(0), Grow(5), nothing} x 4 refill patterns of 12 steps, polled after every step, and polled once after j = 0..12 steps; "+
				"zero-size elements: ring of MaxInt, MaxInt-1, MaxInt/2+{0,1,2,1000} slots x 1..3 PushFront x 0..4 PushBack x position x operation; counter wrap: 2^8, 2^16, 2^24 (thorough also 2^32) modifications between two Next calls) and sampled random multi-operation scenarios", maxCap, nStates, maxN, maxN))
		}
	})
}

// ---------------------------------------------------------------------------------------------
// Systematic part

// runSystematic enumerates position x operation for the state produced by build (which must return
// an identical fresh container every time it is called).
func runSystematic(c *vkit.Case, build func() driver) {
	n := len(build().contents())
	for pos := 0; pos <= n; pos++ {
		for k := 0; ; k++ {
			drv := build()
			s := newScenario(c, drv, drv.describe())
			class := drv.stateClass()
			s.newIter()
			for i := 0; i < pos; i++ {
				s.next(0)
			}
			if s.stop {
				return
			}
			ops := drv.enumOps(s.its[0].mon.yieldedSet())
			if k >= len(ops) {
				break
			}
			o := ops[k]
			s.apply(o)
			observeGen(s, o)
			s.drain()
			finishScenario(s, class, pos, n, o)
			if s.stop {
				return // first violation (or divergence) ends the case
			}
		}
	}
}

func observeGen(s *scenario, o op) {
	if dv, ok := s.drv.(*dequeDrv); ok && !s.stop {
		if dv.bumped {
			s.r.Count("deque: call moved the modification counter (observed, not judged)", o.label, 1)
		} else {
			s.r.Count("deque: call left the modification counter alone (observed, not judged)", o.label, 1)
		}
	}
}

func finishScenario(s *scenario, class string, pos, n int, o op) {
	r := s.r
	kind := s.drv.kind()
	s.flush()
	r.Count("scenarios", kind, 1)
	r.Count("obligations", kind+": next Next must panic (element added or removed while under way)", s.mustPanicChecked)
	r.Count("obligations", kind+": yield after a mutating call checked against the snapshot", s.postChangeYields)
	if s.violated || s.aborted {
		return
	}
	if o.mutating && pos < n {
		r.Distinct(kind + "|" + class + "|" + posClass(pos, n) + "|" + o.label)
		if pos > 0 {
			s.maybeSample(kind + "|" + o.label)
		}
	}
}

func dequeSystematic(r *vkit.Report, maxCap, workers int) int {
	states := dequeStates(maxCap)
	const routes = 3
	r.Cases("deque", len(states)*routes, workers, func(c *vkit.Case) {
		st := states[c.Index/routes]
		route := c.Index % routes
		tokBase := 1000 * c.Rand.Range(1, 9)
		dv, ok := buildDeque(st, route, tokBase)
		if !ok {
			r.Inconclusive(fmt.Sprintf("deque state %v not reached by route %d (got %s)", st, route, dv.describe()))
			return
		}
		if route == 0 {
			r.Count("deque abstract states reached", fmt.Sprintf("cap=%d", st.cap), 1)
		}
		runSystematic(c, func() driver {
			d, _ := buildDeque(st, route, tokBase)
			return d
		})
	})
	return len(states)
}

func heapSystematic(r *vkit.Report, maxN, workers int) {
	const fills = 4
	cons := len(heapConstructions)
	r.Cases("heap", (maxN+1)*fills*cons, workers, func(c *vkit.Case) {
		n := c.Index / (fills * cons)
		fill := (c.Index / cons) % fills
		con := c.Index % cons
		pris := priorities(n, fill, c.Rand)
		idBase := 100 * c.Rand.Range(1, 9)
		r.Count("heap states", fmt.Sprintf("n=%d", n), 1)
		runSystematic(c, func() driver { return buildHeap(pris, con, idBase) })
	})
}

func queueSystematic(r *vkit.Report, maxN, workers int) {
	const fills = 4
	cons := len(pqConstructions)
	r.Cases("queue", (maxN+1)*fills*cons, workers, func(c *vkit.Case) {
		n := c.Index / (fills * cons)
		fill := (c.Index / cons) % fills
		con := c.Index % cons
		pris := priorities(n, fill, c.Rand)
		keyBase := 100 * c.Rand.Range(1, 9)
		r.Count("queue states", fmt.Sprintf("n=%d", n), 1)
		runSystematic(c, func() driver { return buildPQ(pris, con, keyBase) })
	})
}

// ---------------------------------------------------------------------------------------------
// Two live iterators at once: positions (p0, p1) x operation, both continued (interleaved) to the
// end; and a second iterator created after the operation, which has to be a clean iterator over the
// new contents.

func twoIterators(r *vkit.Report, maxCap, maxN, workers int) {
	type target struct {
		name  string
		build func(c *vkit.Case) func() driver
	}
	var targets []target
	for _, st := range dequeStates(maxCap) {
		st := st
		targets = append(targets, target{"deque " + st.String(), func(c *vkit.Case) func() driver {
			route := c.Rand.Intn(3)
			base := 1000 * c.Rand.Range(1, 9)
			return func() driver { d, _ := buildDeque(st, route, base); return d }
		}})
	}
	for n := 0; n <= maxN; n++ {
		for con := range heapConstructions {
			n, con := n, con
			targets = append(targets, target{fmt.Sprintf("heap n=%d", n), func(c *vkit.Case) func() driver {
				pris := priorities(n, 2+c.Rand.Intn(2), c.Rand)
				return func() driver { return buildHeap(pris, con, 100) }
			}})
		}
		for con := range pqConstructions {
			n, con := n, con
			targets = append(targets, target{fmt.Sprintf("queue n=%d", n), func(c *vkit.Case) func() driver {
				pris := priorities(n, 2+c.Rand.Intn(2), c.Rand)
				return func() driver { return buildPQ(pris, con, 100) }
			}})
		}
	}
	r.Cases("two", len(targets), workers, func(c *vkit.Case) {
		build := targets[c.Index].build(c)
		n := len(build().contents())
		for p0 := 0; p0 <= n; p0++ {
			for p1 := 0; p1 <= n; p1++ {
				for mode := 0; mode < 2; mode++ {
					if mode == 1 && p1 > 0 {
						continue
					}
					for k := 0; ; k++ {
						drv := build()
						s := newScenario(c, drv, drv.describe())
						class := drv.stateClass()
						s.newIter()
						for i := 0; i < p0; i++ {
							s.next(0)
						}
						if mode == 0 {
							s.newIter()
							for i := 0; i < p1; i++ {
								s.next(1)
							}
						}
						if s.stop {
							return
						}
						ops := drv.enumOps(s.its[0].mon.yieldedSet())
						if k >= len(ops) {
							break
						}
						o := ops[k]
						s.apply(o)
						if mode == 1 {
							s.newIter() // must be a clean iterator over the new contents
							s.count("iterators", drv.kind()+": created after the operation while another iterator is live")
						} else {
							s.count("iterators", drv.kind()+": two live iterators across the operation")
						}
						s.drain()
						finishScenario(s, "two:"+class, p0, n, o)
						if s.stop {
							return
						}
					}
				}
			}
		}
	})
}

// ---------------------------------------------------------------------------------------------
// Random scenarios: several operations in sequence mid-iteration, up to three live iterators,
// larger containers (deques grown naturally from the zero value: cap 16, 32, 64).

func multi(r *vkit.Report, n, workers int) {
	small := dequeStates(8)
	r.Cases("multi", n, workers, func(c *vkit.Case) {
		rnd := c.Rand
		var drv driver
		switch c.Index % 4 {
		case 0:
			drv = randomDeque(rnd)
		case 1:
			d, ok := buildDeque(vkit.Pick(rnd, small), rnd.Intn(3), 1000*rnd.Range(1, 9))
			if !ok {
				return
			}
			drv = d
		case 2:
			drv = buildHeap(priorities(rnd.Range(0, 14), rnd.Intn(4), rnd), rnd.Intn(len(heapConstructions)), 100*rnd.Range(1, 9))
		default:
			drv = buildPQ(priorities(rnd.Range(0, 14), rnd.Intn(4), rnd), rnd.Intn(len(pqConstructions)), 100*rnd.Range(1, 9))
		}
		s := newScenario(c, drv, drv.describe())
		s.newIter()
		steps := rnd.Range(3, 18)
		// weights of the three operation categories for this case
		wRead, wQuiet := rnd.Range(10, 40), rnd.Range(30, 80)
		nOps, nMut := 0, 0
		for t := 0; t < steps && !s.stop; t++ {
			x := rnd.Intn(100)
			switch {
			case x < 45:
				s.next(rnd.Intn(len(s.its)))
			case x < 53 && len(s.its) < 3:
				s.newIter()
			default:
				ops := drv.enumOps(s.its[0].mon.yieldedSet())
				var pool []op
				y := rnd.Intn(100)
				for _, o := range ops {
					switch {
					case y < wRead:
						if !o.mutating {
							pool = append(pool, o)
						}
					case y < wRead+wQuiet:
						if o.mutating && !o.addRemove {
							pool = append(pool, o)
						}
					default:
						if o.addRemove {
							pool = append(pool, o)
						}
					}
				}
				if len(pool) == 0 {
					pool = ops
				}
				o := vkit.Pick(rnd, pool)
				s.apply(o)
				nOps++
				if o.mutating {
					nMut++
				}
			}
		}
		s.drain()
		kind := drv.kind()
		s.flush()
		r.Count("scenarios", kind+" (random, several operations)", 1)
		r.Count("obligations", kind+": next Next must panic (element added or removed while under way)", s.mustPanicChecked)
		r.Count("obligations", kind+": yield after a mutating call checked against the snapshot", s.postChangeYields)
		r.Max("random scenarios", kind+": operations in one scenario", nOps)
		r.Max("random scenarios", kind+": live iterators in one scenario", len(s.its))
		if !s.violated && !s.aborted && nMut >= 2 {
			r.Count("scenarios", kind+" (random) with >= 2 mutating calls mid-iteration", 1)
			s.maybeSample("multi|" + kind)
		}
	})
}

// ---------------------------------------------------------------------------------------------
// Named regression scenarios for the defects fixed in /repo (DESIGN section 5: D9 three places, D10).

var regressionNames = []string{
	"D9 Grow reallocates mid-iteration (front > 0)",
	"D9 Shrink reallocates mid-iteration (wrapped)",
	"D9 PopFront empties the deque mid-iteration",
	"D9 PopBack empties the deque mid-iteration",
	"D9 Set of an unconsumed slot mid-iteration",
	"D10 Update of an existing key mid-iteration",
}

func regressions(r *vkit.Report) {
	r.Cases("regress", len(regressionNames), 1, func(c *vkit.Case) {
		name := regressionNames[c.Index]
		var drv driver
		var pos int
		var pick func(o op) bool
		switch c.Index {
		case 0: // DESIGN D9: observed "6, then 13..19" instead of 6,7,...
			drv, _ = buildDeque(dqState{cap: 8, front: 3, n: 4, allocated: true}, 0, 0)
			pos, pick = 1, func(o op) bool { return o.label == "Grow(realloc)" }
		case 1:
			drv, _ = buildDeque(dqState{cap: 8, front: 5, n: 5, allocated: true}, 0, 0)
			pos, pick = 2, func(o op) bool { return o.label == "Shrink(realloc)" }
		case 2:
			drv, _ = buildDeque(dqState{cap: 4, front: 2, n: 1, allocated: true}, 0, 0)
			pos, pick = 1, func(o op) bool { return o.label == "PopFront(empties)" }
		case 3:
			drv, _ = buildDeque(dqState{cap: 4, front: 2, n: 1, allocated: true}, 0, 0)
			pos, pick = 1, func(o op) bool { return o.label == "PopBack(empties)" }
		case 4:
			drv, _ = buildDeque(dqState{cap: 8, front: 0, n: 5, allocated: true}, 0, 0)
			pos, pick = 2, func(o op) bool { return o.label == "Set(unconsumed)" && o.desc[:5] == "Set(3" }
		case 5: // DESIGN D10: keys a..e with priorities 1..5, after a b c Update(e, lowest): "a b c d b"
			drv = buildPQ([]int{10, 20, 30, 40, 50}, 1, 0)
			pos, pick = 3, func(o op) bool { return o.desc == "Update(5, p50→p0)" }
		}
		s := newScenario(c, drv, drv.describe())
		n := len(drv.contents())
		class := drv.stateClass()
		s.newIter()
		for i := 0; i < pos; i++ {
			s.next(0)
		}
		var chosen *op
		for _, o := range drv.enumOps(s.its[0].mon.yieldedSet()) {
			o := o
			if pick(o) {
				chosen = &o
				break
			}
		}
		if chosen == nil || s.stop {
			return // floor not met -> machinery error, unless a violation was already recorded
		}
		s.apply(*chosen)
		s.drain()
		finishScenario(s, "regress:"+class, pos, n, *chosen)
		r.Count("regression scenarios", name, 1)
	})
}
