package main

import (
	"fmt"
	"math"

	"github.com/bradenaw/juniper/container/deque"
	"github.com/bradenaw/juniper/container/xheap"

	"verif/vkit"
)

// ---------------------------------------------------------------------------------------------
// Deque

type dqState struct {
	cap, front, n int
	allocated     bool
}

func (st dqState) String() string {
	if !st.allocated {
		return "zero value"
	}
	return fmt.Sprintf("cap=%d front=%d len=%d", st.cap, st.front, st.n)
}

// dequeStates lists every abstract state (cap, front, len) with cap <= maxCap that the public API can
// reach: the zero value; an allocated buffer of length 0 (Shrink(0) on an empty allocated deque);
// for cap k (Grow(k) on the zero value) the empty deque (front is reset to 0 whenever the deque
// empties or reallocates) and every front 0..k-1 with every len 1..k.
func dequeStates(maxCap int) []dqState {
	out := []dqState{{allocated: false}, {allocated: true}}
	for k := 1; k <= maxCap; k++ {
		out = append(out, dqState{cap: k, allocated: true})
		for f := 0; f < k; f++ {
			for n := 1; n <= k; n++ {
				out = append(out, dqState{cap: k, front: f, n: n, allocated: true})
			}
		}
	}
	return out
}

type dequeDrv struct {
	d      *deque.Deque[int]
	m      []int
	tok    int
	prob   string
	popped int
	genB   int
	bumped bool
	// extra Grow / Shrink arguments offered by enumOps (set only by the scripted families)
	moreGrow, moreShrink []int
}

func (dv *dequeDrv) newTok() int { dv.tok++; return dv.tok }

func (dv *dequeDrv) pushBack() { t := dv.newTok(); dv.d.PushBack(t); dv.m = append(dv.m, t) }
func (dv *dequeDrv) pushFront() {
	t := dv.newTok()
	dv.d.PushFront(t)
	dv.m = append([]int{t}, dv.m...)
}
func (dv *dequeDrv) popFront() { dv.d.PopFront(); dv.m = dv.m[1:] }
func (dv *dequeDrv) popBack()  { dv.d.PopBack(); dv.m = dv.m[:len(dv.m)-1] }

// buildDeque reaches the abstract state st through the public API, by one of three routes.
func buildDeque(st dqState, route int, tokBase int) (*dequeDrv, bool) {
	dv := &dequeDrv{d: &deque.Deque[int]{}, tok: tokBase}
	if !st.allocated {
		return dv, dv.at(st)
	}
	if st.cap == 0 {
		dv.d.Grow(1)
		dv.d.Shrink(0)
		return dv, dv.at(st)
	}
	dv.d.Grow(st.cap)
	if st.n == 0 {
		return dv, dv.at(st)
	}
	k := st.cap
	rotateForward := func(steps int) { // front 0, len 1 -> front steps, len 1
		dv.pushBack()
		for i := 0; i < steps; i++ {
			dv.pushBack()
			dv.popFront()
		}
	}
	switch route % 3 {
	case 0: // forward rotation, then fill at the back
		rotateForward(st.front)
		for len(dv.m) < st.n {
			dv.pushBack()
		}
	case 1: // backward rotation (PushFront wraps to cap-1), then fill at the back
		dv.pushFront()
		for i := 0; i < k-1-st.front; i++ {
			dv.pushFront()
			dv.popBack()
		}
		for len(dv.m) < st.n {
			dv.pushBack()
		}
	default: // start further on, fill at the front
		rotateForward((st.front + st.n - 1) % k)
		for len(dv.m) < st.n {
			dv.pushFront()
		}
	}
	return dv, dv.at(st)
}

func (dv *dequeDrv) at(st dqState) bool {
	vs := dv.d.VerifState()
	if vs.Allocated != st.allocated || vs.Cap != st.cap || dv.d.Len() != st.n || len(dv.m) != st.n {
		return false
	}
	return vs.Front == st.front
}

// randomDeque grows a deque from the zero value by a random walk (natural capacities 16, 32, ...).
func randomDeque(rnd *vkit.Rand) *dequeDrv {
	dv := &dequeDrv{d: &deque.Deque[int]{}, tok: 1000 * rnd.Range(1, 9)}
	steps := rnd.Range(0, 60)
	bias := rnd.Range(40, 85)
	for i := 0; i < steps; i++ {
		x := rnd.Intn(100)
		switch {
		case x < bias/2:
			dv.pushBack()
		case x < bias:
			dv.pushFront()
		case len(dv.m) == 0:
		case x%2 == 0:
			dv.popFront()
		default:
			dv.popBack()
		}
	}
	return dv
}

func (dv *dequeDrv) kind() string     { return "deque" }
func (dv *dequeDrv) positional() bool { return true }
func (dv *dequeDrv) problem() string  { return dv.prob }
func (dv *dequeDrv) contents() []int  { return append([]int(nil), dv.m...) }

func (dv *dequeDrv) iterate() func() (int, string, bool) {
	it := dv.d.Iterate()
	return func() (int, string, bool) {
		x, ok := it.Next()
		if !ok {
			return 0, "", false
		}
		if x <= 0 || x > dv.tok {
			return -1, fmt.Sprint(x), true
		}
		return x, fmt.Sprint(x), true
	}
}

func (dv *dequeDrv) check() {
	if got := dv.d.Len(); got != len(dv.m) {
		dv.prob = fmt.Sprintf("Len() = %d, model has %d", got, len(dv.m))
		return
	}
	for i, want := range dv.m {
		if got := dv.d.Item(i); got != want {
			dv.prob = fmt.Sprintf("Item(%d) = %d, model has %d", i, got, want)
			return
		}
	}
}

func (dv *dequeDrv) layout() (layout, fill string) {
	vs := dv.d.VerifState()
	n := len(dv.m)
	switch {
	case !vs.Allocated:
		layout = "nil"
	case n > 0 && vs.Front+n > vs.Cap:
		layout = "wrapped"
	case vs.Front > 0:
		layout = "shifted"
	default:
		layout = "front0"
	}
	switch {
	case n == 0:
		fill = "empty"
	case n == vs.Cap:
		fill = "full"
	default:
		fill = "partial"
	}
	return
}

func (dv *dequeDrv) stateClass() string {
	l, f := dv.layout()
	c := dv.d.VerifState().Cap
	cs := fmt.Sprint(c)
	if c > 12 {
		cs = ">12"
	}
	return "cap" + cs + "/" + l + "/" + f
}

func (dv *dequeDrv) describe() string {
	vs := dv.d.VerifState()
	if !vs.Allocated {
		return "zero value"
	}
	return fmt.Sprintf("cap=%d front=%d len=%d %v", vs.Cap, vs.Front, len(dv.m), dv.m)
}

// gen observation (recorded, never judged)
func (dv *dequeDrv) genBefore() { dv.genB = dv.d.VerifState().Gen }
func (dv *dequeDrv) genAfter()  { dv.bumped = dv.d.VerifState().Gen != dv.genB }

func (dv *dequeDrv) enumOps(y map[int]bool) []op {
	d := dv.d
	n := len(dv.m)
	extra := d.VerifState().Cap - n
	var ops []op
	add := func(o op) { ops = append(ops, o) }

	// pure reads
	add(op{label: "(nothing)", desc: "(nothing)", do: func() {}})
	add(op{label: "Len", desc: "Len()", do: func() { _ = d.Len() }})
	add(op{label: "Item(all)", desc: "Item(0..len-1)", do: func() {
		for i := 0; i < n; i++ {
			_ = d.Item(i)
		}
	}})
	add(op{label: "Front", desc: "Front()", wantPanic: n == 0, do: func() {
		if got := d.Front(); got != dv.m[0] {
			dv.prob = fmt.Sprintf("Front() = %d, model has %d", got, dv.m[0])
		}
	}})
	add(op{label: "Back", desc: "Back()", wantPanic: n == 0, do: func() {
		if got := d.Back(); got != dv.m[n-1] {
			dv.prob = fmt.Sprintf("Back() = %d, model has %d", got, dv.m[n-1])
		}
	}})

	// pushes
	full := ""
	if extra == 0 {
		full = "(full: reallocates)"
	}
	tf := dv.tok + 1
	add(op{label: "PushFront" + full, desc: fmt.Sprintf("PushFront(%d)", tf), mutating: true, addRemove: true,
		do:    func() { dv.tok = tf; d.PushFront(tf) },
		after: func() { dv.m = append([]int{tf}, dv.m...) }})
	tb := dv.tok + 2
	add(op{label: "PushBack" + full, desc: fmt.Sprintf("PushBack(%d)", tb), mutating: true, addRemove: true,
		do:    func() { dv.tok = tb; d.PushBack(tb) },
		after: func() { dv.m = append(dv.m, tb) }})

	// pops
	popLabel := ""
	switch n {
	case 0:
		popLabel = "(empty: panics)"
	case 1:
		popLabel = "(empties)"
	}
	add(op{label: "PopFront" + popLabel, desc: "PopFront()", mutating: true, addRemove: n > 0, wantPanic: n == 0,
		do: func() { dv.popped = d.PopFront() },
		after: func() {
			if dv.popped != dv.m[0] {
				dv.prob = fmt.Sprintf("PopFront() = %d, model has %d", dv.popped, dv.m[0])
			}
			dv.m = dv.m[1:]
		}})
	add(op{label: "PopBack" + popLabel, desc: "PopBack()", mutating: true, addRemove: n > 0, wantPanic: n == 0,
		do: func() { dv.popped = d.PopBack() },
		after: func() {
			if dv.popped != dv.m[n-1] {
				dv.prob = fmt.Sprintf("PopBack() = %d, model has %d", dv.popped, dv.m[n-1])
			}
			dv.m = dv.m[:n-1]
		}})

	// Set of every index
	for i := 0; i < n; i++ {
		i := i
		lab := "Set(unconsumed)"
		if y[dv.m[i]] {
			lab = "Set(consumed)"
		}
		t := dv.tok + 3 + i
		add(op{label: lab, desc: fmt.Sprintf("Set(%d, %d)", i, t), mutating: true,
			do:    func() { dv.tok = t; d.Set(i, t) },
			after: func() { dv.m[i] = t }})
	}

	// refused calls: out-of-range Item and Set panic and change nothing
	for _, i := range []int{-1, n, n + 1, math.MaxInt, math.MinInt} {
		i := i
		add(op{label: "Item(out of range: panics)", desc: fmt.Sprintf("Item(%s)", idxName(i)), wantPanic: true, do: func() { _ = d.Item(i) }})
		t := dv.tok + 3 + n
		add(op{label: "Set(out of range: panics)", desc: fmt.Sprintf("Set(%s, %d)", idxName(i), t), mutating: true, wantPanic: true, do: func() { d.Set(i, t) }})
	}

	// Grow
	grows := []int{0}
	if extra > 0 {
		grows = append(grows, extra)
	}
	grows = append(grows, extra+1, extra+8)
	grows = addMissing(grows, dv.moreGrow)
	for _, g := range grows {
		g := g
		lab := "Grow(realloc)"
		switch {
		case g == 0:
			lab = "Grow(0)"
		case g <= extra:
			lab = "Grow(fits: no-op)"
		}
		add(op{label: lab, desc: fmt.Sprintf("Grow(%d)", g), mutating: true, do: func() { d.Grow(g) }})
	}

	// Shrink
	shrinks := []int{-1, 0}
	if extra >= 2 {
		shrinks = append(shrinks, extra-1)
	}
	if extra > 0 {
		shrinks = append(shrinks, extra)
	}
	shrinks = append(shrinks, extra+3)
	shrinks = addMissing(shrinks, dv.moreShrink)
	for _, sh := range shrinks {
		sh := sh
		lab := "Shrink(no-op)"
		switch {
		case sh < 0:
			lab = "Shrink(negative: panics)"
		case extra > sh:
			lab = "Shrink(realloc)"
		}
		add(op{label: lab, desc: fmt.Sprintf("Shrink(%d)", sh), mutating: true, wantPanic: sh < 0, do: func() { d.Shrink(sh) }})
	}

	// record whether each call moved the modification counter (observation only)
	for i := range ops {
		inner := ops[i].do
		ops[i].do = func() {
			dv.genBefore()
			defer dv.genAfter()
			inner()
		}
	}
	return ops
}

// ---------------------------------------------------------------------------------------------
// Heap

type hel struct{ pri, id int }

func (e hel) String() string { return fmt.Sprintf("{p%d #%d}", e.pri, e.id) }

type heapDrv struct {
	h                    xheap.Heap[hel]
	m                    map[int]int // id -> pri, present elements
	all                  map[int]int // every element ever stored
	nid                  int
	prob                 string
	popped               hel
	peeked               hel
	cons                 string
	moreGrow, moreShrink []int
}

var heapConstructions = []string{"New(initial,exact cap)", "New(initial,spare cap)", "New(nil)+Push", "NewCmp(initial)"}

func helLess(a, b hel) bool { return a.pri < b.pri }
func helCmp(a, b hel) int {
	switch {
	case a.pri < b.pri:
		return -1
	case a.pri > b.pri:
		return 1
	}
	return 0
}

// priorities draws n priorities (multiples of 10) in one of four patterns.
func priorities(n, fill int, rnd *vkit.Rand) []int {
	out := make([]int, n)
	for i := range out {
		switch fill % 4 {
		case 0:
			out[i] = 10 * (i + 1)
		case 1:
			out[i] = 10 * (n - i)
		case 2:
			out[i] = 10 * rnd.Range(1, 3) // many ties
		default:
			out[i] = 10 * rnd.Range(1, 100)
		}
	}
	return out
}

func buildHeap(pris []int, cons int, idBase int) *heapDrv {
	dv := &heapDrv{m: map[int]int{}, all: map[int]int{}, nid: idBase, cons: heapConstructions[cons%len(heapConstructions)]}
	n := len(pris)
	mk := func(spare int) []hel {
		s := make([]hel, n, n+spare)
		for i, p := range pris {
			dv.nid++
			s[i] = hel{p, dv.nid}
			dv.m[dv.nid], dv.all[dv.nid] = p, p
		}
		return s
	}
	switch cons % len(heapConstructions) {
	case 0:
		dv.h = xheap.New(helLess, mk(0))
	case 1:
		dv.h = xheap.New(helLess, mk(4))
	case 2:
		dv.h = xheap.New(helLess, nil)
		for _, p := range pris {
			dv.nid++
			dv.h.Push(hel{p, dv.nid})
			dv.m[dv.nid], dv.all[dv.nid] = p, p
		}
	default:
		dv.h = xheap.NewCmp(helCmp, mk(0))
	}
	return dv
}

func (dv *heapDrv) kind() string     { return "heap" }
func (dv *heapDrv) positional() bool { return false }
func (dv *heapDrv) problem() string  { return dv.prob }
func (dv *heapDrv) contents() []int  { return sortedKeys(dv.m) }

func (dv *heapDrv) iterate() func() (int, string, bool) {
	it := dv.h.Iterate()
	return func() (int, string, bool) {
		x, ok := it.Next()
		if !ok {
			return 0, "", false
		}
		if p, known := dv.all[x.id]; !known || p != x.pri {
			return -1, x.String(), true
		}
		return x.id, x.String(), true
	}
}

func (dv *heapDrv) check() {
	if got := dv.h.Len(); got != len(dv.m) {
		dv.prob = fmt.Sprintf("Len() = %d, model has %d", got, len(dv.m))
	}
}

func (dv *heapDrv) stateClass() string { return fmt.Sprintf("n%d/%s", len(dv.m), dv.cons) }
func (dv *heapDrv) describe() string {
	var els []hel
	for _, id := range sortedKeys(dv.m) {
		els = append(els, hel{dv.m[id], id})
	}
	return fmt.Sprintf("%s n=%d %v", dv.cons, len(dv.m), els)
}

func minMax(m map[int]int) (lo, hi int) {
	first := true
	for _, p := range m {
		if first || p < lo {
			lo = p
		}
		if first || p > hi {
			hi = p
		}
		first = false
	}
	if first {
		return 50, 50
	}
	return
}

func (dv *heapDrv) enumOps(y map[int]bool) []op {
	h := dv.h
	n := len(dv.m)
	lo, hi := minMax(dv.m)
	var ops []op
	add := func(o op) { ops = append(ops, o) }

	add(op{label: "(nothing)", desc: "(nothing)", do: func() {}})
	add(op{label: "Len", desc: "Len()", do: func() { _ = h.Len() }})
	add(op{label: "Peek", desc: "Peek()", wantPanic: n == 0, do: func() { dv.peeked = h.Peek() }, after: func() {
		if p, ok := dv.m[dv.peeked.id]; !ok || p != dv.peeked.pri || p != lo {
			dv.prob = fmt.Sprintf("Peek() = %v is not a minimum of the model", dv.peeked)
		}
	}})

	for i, v := range []struct {
		name string
		pri  int
	}{{"new minimum", lo - 10}, {"new maximum", hi + 10}, {"tie with the minimum", lo}} {
		e := hel{v.pri, dv.nid + 1 + i}
		add(op{label: "Push(" + v.name + ")", desc: fmt.Sprintf("Push(%v)", e), mutating: true, addRemove: true,
			do:    func() { dv.all[e.id] = e.pri; h.Push(e) },
			after: func() { dv.m[e.id] = e.pri; dv.nid = e.id }})
	}

	popLabel := ""
	switch n {
	case 0:
		popLabel = "(empty: panics)"
	case 1:
		popLabel = "(empties)"
	}
	add(op{label: "Pop" + popLabel, desc: "Pop()", mutating: true, addRemove: n > 0, wantPanic: n == 0,
		do: func() { dv.popped = h.Pop() },
		after: func() {
			if p, ok := dv.m[dv.popped.id]; !ok || p != dv.popped.pri || p != lo {
				dv.prob = fmt.Sprintf("Pop() = %v is not a minimum of the model", dv.popped)
			}
			delete(dv.m, dv.popped.id)
		}})

	for _, g := range addMissing([]int{0, 1, n + 9}, dv.moreGrow) {
		g := g
		lab := fmt.Sprintf("Grow(%d)", g)
		if g > 1 {
			lab = "Grow(big)"
		}
		add(op{label: lab, desc: fmt.Sprintf("Grow(%d)", g), mutating: true, do: func() { h.Grow(g) }})
	}
	for _, sh := range addMissing([]int{0, 1, 64}, dv.moreShrink) {
		sh := sh
		lab := fmt.Sprintf("Shrink(%d)", sh)
		add(op{label: lab, desc: lab, mutating: true, do: func() { h.Shrink(sh) }})
	}
	return ops
}

// ---------------------------------------------------------------------------------------------
// PriorityQueue (keys are positive ints; the iterator yields keys only)

type pqDrv struct {
	q        xheap.PriorityQueue[int, int]
	m        map[int]int // key -> priority
	ever     map[int]bool
	nk       int
	prob     string
	popped   int
	peeked   int
	cons     string
	moreGrow []int
}

var pqConstructions = []string{"NewPriorityQueue(initial)", "NewPriorityQueue(nil)+Update", "NewPriorityQueueCmp(initial)"}

func intLess(a, b int) bool { return a < b }
func intCmp(a, b int) int {
	switch {
	case a < b:
		return -1
	case a > b:
		return 1
	}
	return 0
}

func buildPQ(pris []int, cons int, keyBase int) *pqDrv {
	dv := &pqDrv{m: map[int]int{}, ever: map[int]bool{}, nk: keyBase, cons: pqConstructions[cons%len(pqConstructions)]}
	mk := func() []xheap.KP[int, int] {
		s := make([]xheap.KP[int, int], len(pris))
		for i, p := range pris {
			dv.nk++
			s[i] = xheap.KP[int, int]{K: dv.nk, P: p}
			dv.m[dv.nk], dv.ever[dv.nk] = p, true
		}
		return s
	}
	switch cons % len(pqConstructions) {
	case 0:
		dv.q = xheap.NewPriorityQueue(intLess, mk())
	case 1:
		dv.q = xheap.NewPriorityQueue[int, int](intLess, nil)
		for _, p := range pris {
			dv.nk++
			dv.q.Update(dv.nk, p)
			dv.m[dv.nk], dv.ever[dv.nk] = p, true
		}
	default:
		dv.q = xheap.NewPriorityQueueCmp(intCmp, mk())
	}
	return dv
}

func (dv *pqDrv) kind() string     { return "queue" }
func (dv *pqDrv) positional() bool { return false }
func (dv *pqDrv) problem() string  { return dv.prob }
func (dv *pqDrv) contents() []int  { return sortedKeys(dv.m) }

func (dv *pqDrv) iterate() func() (int, string, bool) {
	it := dv.q.Iterate()
	return func() (int, string, bool) {
		k, ok := it.Next()
		if !ok {
			return 0, "", false
		}
		if !dv.ever[k] {
			return -1, fmt.Sprintf("key %d", k), true
		}
		return k, fmt.Sprintf("key %d", k), true
	}
}

// check reads the whole queue through its pure-read methods (every key ever used, plus an absent one).
func (dv *pqDrv) check() {
	if got := dv.q.Len(); got != len(dv.m) {
		dv.prob = fmt.Sprintf("Len() = %d, model has %d", got, len(dv.m))
		return
	}
	for k := range dv.ever {
		p, present := dv.m[k]
		if got := dv.q.Contains(k); got != present {
			dv.prob = fmt.Sprintf("Contains(%d) = %v, model says %v", k, got, present)
			return
		}
		if got := dv.q.Priority(k); got != p {
			dv.prob = fmt.Sprintf("Priority(%d) = %d, model has %d (present=%v)", k, got, p, present)
			return
		}
	}
	if dv.q.Contains(dv.nk + 1000) {
		dv.prob = "Contains(absent key) = true"
	}
}

func (dv *pqDrv) stateClass() string { return fmt.Sprintf("n%d/%s", len(dv.m), dv.cons) }
func (dv *pqDrv) describe() string {
	var b []string
	for _, k := range sortedKeys(dv.m) {
		b = append(b, fmt.Sprintf("%d:p%d", k, dv.m[k]))
	}
	return fmt.Sprintf("%s n=%d %v", dv.cons, len(dv.m), b)
}

func (dv *pqDrv) enumOps(y map[int]bool) []op {
	q := dv.q
	n := len(dv.m)
	lo, hi := minMax(dv.m)
	keys := sortedKeys(dv.m)
	var ops []op
	add := func(o op) { ops = append(ops, o) }

	add(op{label: "(nothing)", desc: "(nothing)", do: func() {}})
	add(op{label: "Len", desc: "Len()", do: func() { _ = q.Len() }})
	add(op{label: "Peek", desc: "Peek()", wantPanic: n == 0, do: func() { dv.peeked = q.Peek() }, after: func() {
		if p, ok := dv.m[dv.peeked]; !ok || p != lo {
			dv.prob = fmt.Sprintf("Peek() = %d is not a minimum of the model", dv.peeked)
		}
	}})
	add(op{label: "Contains(all)", desc: "Contains(every key, and an absent one)", do: func() {
		for _, k := range keys {
			_ = q.Contains(k)
		}
		_ = q.Contains(dv.nk + 1000)
	}})
	add(op{label: "Priority(all)", desc: "Priority(every key, and an absent one)", do: func() {
		for _, k := range keys {
			_ = q.Priority(k)
		}
		_ = q.Priority(dv.nk + 1000)
	}})

	for i, v := range []struct {
		name string
		pri  int
	}{{"new minimum", lo - 10}, {"new maximum", hi + 10}, {"tie with the minimum", lo}} {
		k, p := dv.nk+1+i, v.pri
		add(op{label: "Update(new key, " + v.name + ")", desc: fmt.Sprintf("Update(%d, p%d) [new key]", k, p), mutating: true, addRemove: true,
			do:    func() { dv.ever[k] = true; q.Update(k, p) },
			after: func() { dv.m[k] = p; dv.nk = k }})
	}

	for _, k := range keys {
		k := k
		cur := dv.m[k]
		who := "unconsumed key"
		if y[k] {
			who = "consumed key"
		}
		for _, v := range []struct {
			name string
			pri  int
		}{{"lower: to the top", lo - 10}, {"lower", cur - 5}, {"equal", cur}, {"higher", cur + 5}, {"higher: to the bottom", hi + 10}} {
			p := v.pri
			add(op{label: "Update(" + who + ", " + v.name + ")", desc: fmt.Sprintf("Update(%d, p%d→p%d)", k, cur, p), mutating: true,
				do:    func() { q.Update(k, p) },
				after: func() { dv.m[k] = p }})
		}
		add(op{label: "Remove(" + who + ")", desc: fmt.Sprintf("Remove(%d)", k), mutating: true, addRemove: true,
			do:    func() { q.Remove(k) },
			after: func() { delete(dv.m, k) }})
	}
	absent := dv.nk + 500
	add(op{label: "Remove(absent key)", desc: fmt.Sprintf("Remove(%d) [absent]", absent), mutating: true, do: func() { q.Remove(absent) }})

	popLabel := ""
	switch n {
	case 0:
		popLabel = "(empty: panics)"
	case 1:
		popLabel = "(empties)"
	}
	add(op{label: "Pop" + popLabel, desc: "Pop()", mutating: true, addRemove: n > 0, wantPanic: n == 0,
		do: func() { dv.popped = q.Pop() },
		after: func() {
			if p, ok := dv.m[dv.popped]; !ok || p != lo {
				dv.prob = fmt.Sprintf("Pop() = %d is not a minimum of the model", dv.popped)
			}
			delete(dv.m, dv.popped)
		}})

	for _, g := range addMissing([]int{0, 1, n + 9}, dv.moreGrow) {
		g := g
		lab := fmt.Sprintf("Grow(%d)", g)
		if g > 1 {
			lab = "Grow(big)"
		}
		add(op{label: lab, desc: fmt.Sprintf("Grow(%d)", g), mutating: true, do: func() { q.Grow(g) }})
	}
	return ops
}

func addMissing(base, more []int) []int {
	for _, x := range more {
		if !containsInt(base, x) {
			base = append(base, x)
		}
	}
	return base
}

func idxName(i int) string {
	switch i {
	case math.MaxInt:
		return "MaxInt"
	case math.MinInt:
		return "MinInt"
	}
	return fmt.Sprint(i)
}
