package main

import (
	"fmt"
	"sort"
	"strings"
	"sync"

	"verif/vkit"
)

// ---------------------------------------------------------------------------------------------
// The snapshot-or-panic automaton (one per live iterator).
//
// Elements are identified by distinct non-negative ints (deque: the token itself; heap: the id of
// the {pri,id} element; queue: the key). A yield that is not a known element is reported as -1.

type outcome int

const (
	oYield outcome = iota
	oEnd
	oPanic
)

func (o outcome) String() string { return [...]string{"yield", "end", "panic"}[o] }

type iterMon struct {
	positional bool  // deque: the k-th yield must be the k-th snapshot element; else any not-yet-yielded one
	s0, s1     []int // snapshot candidates: contents at Iterate(), contents at the first Next
	v0, v1     bool  // candidate still consistent with everything yielded so far
	started    bool  // >= 1 Next has been made ("iteration is under way")
	yielded    []int
	mutCalled  bool // some mutating method has been called since Iterate(): a panic is acceptable from now on
	mustPanic  bool // an element was added or removed while under way: the very next Next must panic
	exhausted  bool // exhaustion has been reported
	refused    bool // some call on the container panicked (was refused) since Iterate(); it changed nothing
}

func newIterMon(positional bool, s0 []int) *iterMon {
	return &iterMon{positional: positional, s0: s0, v0: true}
}

// beforeNext fixes S1 the first time Next is about to be called.
func (m *iterMon) beforeNext(contents func() []int) (first, differs bool) {
	if m.started {
		return false, false
	}
	m.started = true
	m.s1 = contents()
	m.v1 = true
	return true, !equalInts(m.s0, m.s1)
}

// onMutCall is told about every call of a mutating method, whether or not it changed anything.
func (m *iterMon) onMutCall(addedOrRemoved bool) {
	m.mutCalled = true
	if addedOrRemoved && m.started && !m.exhausted {
		m.mustPanic = true
	}
}

func (m *iterMon) phase() string {
	switch {
	case m.exhausted && m.mutCalled:
		return "after-exhaustion+change"
	case m.exhausted:
		return "after-exhaustion"
	case m.mustPanic:
		return "must-panic"
	case m.mutCalled:
		return "after-mutating-call"
	case m.refused:
		return "after-refused-call"
	default:
		return "unchanged"
	}
}

func (m *iterMon) fits(s []int, id int) bool {
	k := len(m.yielded)
	if m.positional {
		return k < len(s) && s[k] == id
	}
	if !containsInt(s, id) {
		return false
	}
	return !containsInt(m.yielded, id)
}

// observe judges one Next. It returns "" or the signature and description of a violation.
func (m *iterMon) observe(out outcome, id int) (sig, what string) {
	must := m.mustPanic
	m.mustPanic = false
	switch out {
	case oPanic:
		if !m.mutCalled && m.refused {
			return "iterator-panics-after-refused-call", "Next panicked although the only calls since Iterate() were pure reads and calls that panicked themselves (refused: nothing was modified)"
		}
		if !m.mutCalled {
			return "panic-unchanged", "Next panicked although no mutating method has been called since Iterate()"
		}
	case oYield:
		if must {
			return "no-panic-after-add-remove", fmt.Sprintf("an element was added or removed while iteration was under way, yet the next Next yielded %d instead of panicking", id)
		}
		if m.exhausted {
			return "yield-after-exhaustion", fmt.Sprintf("Next yielded %d after it had reported exhaustion", id)
		}
		ok0 := m.v0 && m.fits(m.s0, id)
		ok1 := m.v1 && m.fits(m.s1, id)
		if !ok0 && !ok1 {
			if !m.mutCalled {
				return "wrong-yield-unchanged", fmt.Sprintf("yield #%d = %d on an unchanged container; contents %v, yielded so far %v", len(m.yielded), id, m.s0, m.yielded)
			}
			return "yield-not-snapshot", fmt.Sprintf("yield #%d = %d continues neither snapshot (at Iterate %v%s, at first Next %v%s); yielded so far %v",
				len(m.yielded), id, m.s0, dead(m.v0), m.s1, dead(m.v1), m.yielded)
		}
		m.v0, m.v1 = ok0, ok1
		m.yielded = append(m.yielded, id)
	case oEnd:
		if must {
			return "exhaustion-instead-of-panic", fmt.Sprintf("an element was added or removed while iteration was under way, yet the next Next reported exhaustion (after %d yields) instead of panicking", len(m.yielded))
		}
		if !m.exhausted {
			k := len(m.yielded)
			ok0 := m.v0 && k == len(m.s0)
			ok1 := m.v1 && k == len(m.s1)
			if !ok0 && !ok1 {
				if !m.mutCalled {
					return "short-unchanged", fmt.Sprintf("exhaustion after %d yields %v on an unchanged container with contents %v", k, m.yielded, m.s0)
				}
				return "exhaustion-before-snapshot-complete", fmt.Sprintf("exhaustion reported after yielding %v, which is not the whole of either snapshot (at Iterate %v%s, at first Next %v%s)",
					m.yielded, m.s0, dead(m.v0), m.s1, dead(m.v1))
			}
			m.v0, m.v1 = ok0, ok1
			m.exhausted = true
		}
	}
	return "", ""
}

func dead(v bool) string {
	if v {
		return ""
	}
	return " (already ruled out)"
}

func (m *iterMon) yieldedSet() map[int]bool {
	y := make(map[int]bool, len(m.yielded))
	for _, id := range m.yielded {
		y[id] = true
	}
	return y
}

func equalInts(a, b []int) bool {
	if len(a) != len(b) {
		return false
	}
	for i := range a {
		if a[i] != b[i] {
			return false
		}
	}
	return true
}

func containsInt(s []int, x int) bool {
	for _, y := range s {
		if y == x {
			return true
		}
	}
	return false
}

func sortedKeys(m map[int]int) []int {
	out := make([]int, 0, len(m))
	for k := range m {
		out = append(out, k)
	}
	sort.Ints(out)
	return out
}

// ---------------------------------------------------------------------------------------------
// Container drivers: the real container plus the few lines of model needed to know its contents.

// op is one call on the container under test.
type op struct {
	label     string // class, for tables and the distinct rule: "Set(unconsumed)"
	desc      string // concrete call: "Set(3, 1007)"
	mutating  bool   // a mutating method (even when it turns out to be a no-op); false = pure read
	addRemove bool   // an element is actually added or removed (by the model)
	wantPanic bool   // the call itself panics by contract (pop on empty, Shrink(-1), Front on empty)
	do        func() // the call on the real container
	after     func() // model update / comparison of the result; run when do did not panic
}

type driver interface {
	kind() string
	positional() bool
	contents() []int // model contents (deque: front to back; others: sorted ids)
	iterate() func() (id int, raw string, ok bool)
	enumOps(yielded map[int]bool) []op // every operation of the property's quantifier, for the current state
	check()                            // pure reads compared with the model (sets problem)
	stateClass() string
	describe() string
	problem() string
}

// ---------------------------------------------------------------------------------------------
// Scenario: one container, some live iterators, an event log.

type liveIter struct {
	next  func() (int, string, bool)
	mon   *iterMon
	calls int
	extra int // Next calls made after exhaustion was reported
	// consecutive panics; a draining iterator is given up after maxPanicRun of them in a row (it has
	// settled into refusing, which is always acceptable after a mutating call)
	panicRun int
}

const maxPanicRun = 3

type scenario struct {
	c        *vkit.Case
	r        *vkit.Report
	drv      driver
	head     string
	its      []*liveIter
	log      []string
	stop     bool
	violated bool
	aborted  bool
	// what happened, for the evidence
	mustPanicChecked int
	postChangeYields int
	counts           map[[2]string]int // flushed into the report's tables once, at the end of the scenario
}

func (s *scenario) count(table, key string) {
	if s.counts == nil {
		s.counts = make(map[[2]string]int)
	}
	s.counts[[2]string{table, key}]++
}

func (s *scenario) flush() {
	for k, n := range s.counts {
		s.r.Count(k[0], k[1], n)
	}
	s.counts = nil
}

func newScenario(c *vkit.Case, drv driver, head string) *scenario {
	return &scenario{c: c, r: c.R, drv: drv, head: head}
}

func (s *scenario) logf(format string, a ...any) {
	s.log = append(s.log, fmt.Sprintf(format, a...))
}

func (s *scenario) witness(j int) map[string]any {
	w := map[string]any{"container": s.drv.kind(), "state": s.head, "history": s.log, "contents_now": s.drv.contents()}
	if j >= 0 && j < len(s.its) {
		m := s.its[j].mon
		w["iterator"] = j
		w["snapshot_at_Iterate"] = m.s0
		w["snapshot_at_first_Next"] = m.s1
		w["yielded"] = m.yielded
	}
	return w
}

func (s *scenario) violate(j int, sig, what string) {
	if s.stop {
		return
	}
	s.stop, s.violated = true, true
	s.c.Violation(s.drv.kind()+":"+sig,
		fmt.Sprintf("%s [%s] it%d: %s | history: %s", s.drv.kind(), s.head, j, what, strings.Join(s.log, "; ")),
		s.witness(j))
}

// abort: the container did not answer a non-iterator call like the model. That is C04/C05's subject;
// without a trusted snapshot C15 cannot be judged on this case.
func (s *scenario) abort(why string) {
	if s.stop {
		return
	}
	s.stop, s.aborted = true, true
	s.r.Inconclusive(fmt.Sprintf("%s %s [%s]: container diverges from the model outside the iterator (%s); history: %s",
		s.c.ID(), s.drv.kind(), s.head, why, strings.Join(s.log, "; ")))
}

func (s *scenario) newIter() int {
	if s.stop {
		return -1
	}
	j := len(s.its)
	s0 := s.drv.contents()
	var next func() (int, string, bool)
	p := vkit.Try(func() { next = s.drv.iterate() })
	s.logf("it%d=Iterate() over %v", j, s0)
	it := &liveIter{next: next, mon: newIterMon(s.drv.positional(), s0)}
	s.its = append(s.its, it)
	s.r.Eval(1)
	if p != nil {
		s.violate(j, "iterate-panic", "Iterate() panicked: "+p.Msg)
	}
	return j
}

// tryLite is vkit.Try without the stack capture: an iterator that refuses panics hundreds of
// thousands of times per run here, and only the message is ever used.
func tryLite(f func()) (p *vkit.Panic) {
	defer func() {
		if v := recover(); v != nil {
			p = &vkit.Panic{Value: v, Msg: fmt.Sprint(v)}
		}
	}()
	f()
	return nil
}

func (s *scenario) next(j int) {
	if s.stop {
		return
	}
	it := s.its[j]
	m := it.mon
	if first, differs := m.beforeNext(s.drv.contents); first && differs {
		s.count("iterators", s.drv.kind()+": contents changed between Iterate() and the first Next (S0 != S1)")
	}
	phase := m.phase()
	var id int
	var raw string
	var ok bool
	p := tryLite(func() { id, raw, ok = it.next() })
	it.calls++
	if m.exhausted {
		it.extra++
	}
	out := oEnd
	switch {
	case p != nil:
		out = oPanic
		s.logf("it%d.Next → panic(%s)", j, p.Msg)
		s.count("panic messages", s.drv.kind()+": "+p.Msg)
	case ok:
		out = oYield
		if id < 0 {
			s.logf("it%d.Next → %s (not an element that was ever stored)", j, raw)
		} else {
			s.logf("it%d.Next → %s", j, raw)
		}
	default:
		s.logf("it%d.Next → end", j)
	}
	s.r.Eval(1)
	s.count("next outcomes", s.drv.kind()+": "+phase+" → "+out.String())
	if out == oPanic {
		it.panicRun++
	} else {
		it.panicRun = 0
	}
	switch phase {
	case "must-panic":
		s.mustPanicChecked++
	case "after-mutating-call":
		if out == oYield {
			s.postChangeYields++
		}
	}
	if sig, what := m.observe(out, id); sig != "" {
		s.violate(j, sig, what)
	}
}

func (s *scenario) apply(o op) {
	if s.stop {
		return
	}
	s.logf("%s", o.desc)
	p := vkit.Try(o.do)
	s.count("ops", s.drv.kind()+": "+o.label)
	if (p != nil) != o.wantPanic {
		s.abort(fmt.Sprintf("%s: panicked=%v (%v), the model expects panicked=%v", o.desc, p != nil, p, o.wantPanic))
		return
	}
	if p == nil && o.after != nil {
		o.after()
	}
	// A call that panicked was refused: it modified nothing (the reads below confirm the contents),
	// so it leaves every iterator exactly as obliged as before. Only a mutating method that
	// returned normally - even one that turned out to be a no-op - makes a panic acceptable.
	switch {
	case p != nil:
		s.count("refused calls", s.drv.kind()+": "+o.label)
		for _, it := range s.its {
			it.mon.refused = true
		}
	case o.mutating:
		for _, it := range s.its {
			it.mon.onMutCall(o.addRemove)
		}
	}
	// Pure reads of the whole contents: they must agree with the model and must leave every
	// iterator exactly as obliged as before.
	if q := vkit.Try(s.drv.check); q != nil {
		s.abort("a pure read panicked: " + q.Msg)
		return
	}
	if pr := s.drv.problem(); pr != "" {
		s.abort(pr)
	}
}

// drain continues every live iterator to the end: until it has reported exhaustion and one more
// Next has confirmed it, or until it has panicked maxPanicRun times in a row, or for a bounded
// number of calls.
func (s *scenario) drain() {
	budget := make([]int, len(s.its))
	for j, it := range s.its {
		budget[j] = it.calls + len(it.mon.s0) + len(s.drv.contents()) + 4
	}
	for {
		progressed := false
		for j, it := range s.its {
			if s.stop {
				return
			}
			if it.calls >= budget[j] || it.extra >= 1 || it.panicRun >= maxPanicRun {
				continue
			}
			s.next(j)
			progressed = true
		}
		if !progressed {
			return
		}
	}
}

// ---------------------------------------------------------------------------------------------

var (
	sampleMu    sync.Mutex
	sampleTaken = map[string]bool{}
)

func (s *scenario) maybeSample(key string) {
	if s.violated || s.aborted || !s.r.WantSample() {
		return
	}
	sampleMu.Lock()
	taken := sampleTaken[key]
	sampleTaken[key] = true
	sampleMu.Unlock()
	if taken {
		return
	}
	s.r.Sample(map[string]any{"case": s.c.ID(), "container": s.drv.kind(), "state": s.head, "history": s.log})
}

func posClass(pos, n int) string {
	switch {
	case pos >= n:
		return "end"
	case pos == 0:
		return "first"
	case pos == n-1:
		return "last"
	default:
		return "mid"
	}
}
