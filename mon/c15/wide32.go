package main

import (
	"fmt"
	"strconv"

	"github.com/bradenaw/juniper/container/deque"

	"verif/vkit"
)

// 32-bit builds only (check.sh variant "386", thorough tier): modification counts around the sign
// bit and the width of a 32-bit int. On a 64-bit int these counts mean nothing (the existing 2^32
// wrap scenario covers what a narrowed counter could do there) and the group does not run.
//
// One long scenario per container. Four iterators are taken at the start and each takes one item;
// then exactly 2^31-1, 2^31, 2^31+1 (deque also 2^32) of the cheapest modifications are made and the
// iterator reserved for that count makes its second Next: judged by the automaton as usual (after a
// mutating call: panic, or the next snapshot element; after an add/remove: panic). At every
// checkpoint a FRESH iterator is also taken on the now untouched container, whose lifetime
// modification count is 2^31-1+k, 2^31+k, 2^31+1+k, 2^32+k (k = modifications made while building):
// it has to yield the whole contents and end.
//
// On a 32-bit int the library's own counter is back at its old value after exactly 2^32
// modifications; no word-sized counter can notice that. The deque's 2^32 checkpoint is therefore
// arranged so that the contents are back at the snapshot (the last Set restores the original item):
// both a panic and carrying on are then legal.

func is32() bool { return strconv.IntSize == 32 }

// freshIterator takes a new iterator on the untouched container and runs it to the end.
func (s *scenario) freshIterator() {
	j := s.newIter()
	if j < 0 {
		return
	}
	it := s.its[j]
	limit := len(it.mon.s0) + 3
	for !s.stop && it.extra < 1 && it.calls < limit {
		s.next(j)
	}
	if !s.stop && !it.mon.exhausted {
		s.violate(j, "fresh-iterator-does-not-end", fmt.Sprintf("a fresh iterator on the untouched container has not ended after %d Next calls", it.calls))
	}
}

func wide32(r *vkit.Report) {
	if !is32() || !r.Thorough() {
		return
	}
	const half = 1 << 30 // 2^31 = 2*half does not fit a 32-bit int
	kinds := []string{"heap", "queue", "deque"}
	r.Cases("wide32", len(kinds), len(kinds), func(c *vkit.Case) {
		kind := kinds[c.Index]
		var drv driver
		var chunks []op    // chunk i brings the total to the i-th checkpoint
		var names []string // name of the i-th checkpoint
		var nIter = 3
		switch kind {
		case "deque":
			dv := &dequeDrv{d: &deque.Deque[int]{}, tok: 1000}
			dv.pushBack()
			dv.pushBack()
			dv.pushBack()
			orig := dv.m[1]
			d := dv.d
			sets := func(n int, last int) func() { // n Sets of the unconsumed slot 1, ending with value last
				return func() {
					for i := 0; i < n-1; i++ {
						d.Set(1, 7777+(i&1))
					}
					d.Set(1, last)
				}
			}
			mk := func(desc string, do func(), last int) op {
				return op{label: "Set(unconsumed) x many", desc: desc, mutating: true, do: do, after: func() { dv.m[1] = last; dv.tok = 9999 }}
			}
			chunks = []op{
				mk("(2^31-1) x Set(1, ...) ending with 8001", func() { sets(half, 7777)(); sets(half-1, 8001)() }, 8001),
				mk("1 x Set(1, 8002)", sets(1, 8002), 8002),
				mk("1 x Set(1, 8003)", sets(1, 8003), 8003),
				mk(fmt.Sprintf("(2^31-1) x Set(1, ...) ending with the original %d", orig), func() { sets(half, 7777)(); sets(half-1, orig)() }, orig),
			}
			names = []string{"2^31-1", "2^31", "2^31+1", "2^32"}
			nIter = 4
			drv = dv
		case "heap":
			dv := buildHeap([]int{20, 30}, 1, 100)
			h := dv.h
			e := hel{10, dv.nid + 1}
			x := hel{15, dv.nid + 2}
			y := hel{16, dv.nid + 3}
			dv.all[e.id], dv.all[x.id], dv.all[y.id] = e.pri, x.pri, y.pri
			chunks = []op{
				{label: "Push/Pop pairs", desc: fmt.Sprintf("(2^30-1) x { Push(%v); Pop() }; Push(%v)", e, x), mutating: true, addRemove: true,
					do: func() {
						for i := 0; i < half-1; i++ {
							h.Push(e)
							if h.Pop() != e {
								dv.prob = "Pop() did not return the new minimum just pushed"
								return
							}
						}
						h.Push(x)
					}, after: func() { dv.m[x.id] = x.pri }},
				{label: "Pop", desc: "Pop()", mutating: true, addRemove: true,
					do: func() {
						if h.Pop() != x {
							dv.prob = "Pop() did not return the minimum"
						}
					}, after: func() { delete(dv.m, x.id) }},
				{label: "Push", desc: fmt.Sprintf("Push(%v)", y), mutating: true, addRemove: true,
					do: func() { h.Push(y) }, after: func() { dv.m[y.id] = y.pri }},
			}
			names = []string{"2^31-1", "2^31", "2^31+1"}
			drv = dv
		default:
			// a single key: Update of it to the same priority is the cheapest call that counts as a
			// modification (two map operations, no comparison), ~25 ns on 386; with two keys the
			// 2^31 calls alone take more than the whole budget of this group
			dv := buildPQ([]int{30}, 0, 100)
			q := dv.q
			k := dv.nk
			upd := func(n int) func() {
				return func() {
					for i := 0; i < n; i++ {
						q.Update(k, 30) // the same priority: the cheapest call that counts as a modification
					}
				}
			}
			mk := func(desc string, do func()) op {
				return op{label: "Update(unconsumed key, equal) x many", desc: desc, mutating: true, do: do}
			}
			chunks = []op{
				mk(fmt.Sprintf("(2^31-1) x Update(%d, p30→p30)", k), func() { upd(half)(); upd(half - 1)() }),
				mk(fmt.Sprintf("1 x Update(%d, p30→p30)", k), upd(1)),
				mk(fmt.Sprintf("1 x Update(%d, p30→p30)", k), upd(1)),
			}
			names = []string{"2^31-1", "2^31", "2^31+1"}
			drv = dv
		}
		s := newScenario(c, drv, drv.describe())
		for j := 0; j < nIter; j++ {
			s.newIter()
			s.next(j)
		}
		for i, o := range chunks {
			if s.stop {
				break
			}
			s.apply(o)
			s.next(i) // exactly names[i] modifications between this iterator's two Next calls
			s.logf("(checkpoint: %s modifications)", names[i])
			s.freshIterator()
			if !s.stop {
				r.Count("32-bit int: modifications between two Next calls, and lifetime count before a fresh iterator", kind+": "+names[i], 1)
			}
		}
		s.drain()
		s.tally("32-bit counter width")
		if !s.violated && !s.aborted && kind == "deque" {
			r.Sample(map[string]any{"case": c.ID(), "container": kind, "state": s.head, "history": s.log})
		}
	})
}
