package main

import (
	"context"
	"errors"
	"fmt"
	"runtime"
	"sync/atomic"
	"time"

	"github.com/bradenaw/juniper/stream"

	"verif/vkit"
)

// Light trials for one race: one input fails on its own with E while K other inputs are parked in
// Next on a CHILD of the context Merge gave them (cancelling the parent cancels the children
// synchronously, so a parked input can be running again while the failing goroutine is still
// inside cancel()). The merged stream must report E, never the echo of its own cancellation.

// childIn derives a context per call and blocks on it.
type childIn struct {
	timeout bool // context.WithTimeout(ctx, 1h) instead of context.WithCancel(ctx)
	parked  *atomic.Int64
	induced atomic.Int64 // Next calls that returned child.Err() because the context was done
	closes  atomic.Int64
}

func (s *childIn) Next(ctx context.Context) (uint64, error) {
	var child context.Context
	var cancel context.CancelFunc
	if s.timeout {
		child, cancel = context.WithTimeout(ctx, time.Hour)
	} else {
		child, cancel = context.WithCancel(ctx)
	}
	defer cancel()
	s.parked.Add(1)
	<-child.Done()
	s.induced.Add(1)
	return 0, child.Err()
}

func (s *childIn) Close() { s.closes.Add(1) }

// failIn hands out `items` values, waits for the chosen moment and fails with err on its own.
type failIn struct {
	idx     int
	items   int
	pos     int
	err     error
	moment  int // 0 at once, 1 when all others are parked, 2 a little after that
	want    int64
	parked  *atomic.Int64
	allPark atomic.Bool  // everybody was parked when it failed
	failed  atomic.Int64 // tick at which err was returned
	clock   *vkit.Clock
	closes  atomic.Int64
}

func (s *failIn) Next(ctx context.Context) (uint64, error) {
	if s.pos < s.items {
		s.pos++
		return mkval(s.idx, s.pos-1), nil
	}
	if s.moment > 0 {
		for i := 0; i < 200000 && s.parked.Load() < s.want; i++ {
			runtime.Gosched()
		}
		for i := 0; i < 3*s.moment; i++ {
			runtime.Gosched() // let the last one really park
		}
		if s.moment == 2 {
			vkit.SpinFor(20 * time.Microsecond)
		}
	}
	s.allPark.Store(s.parked.Load() >= s.want)
	s.failed.CompareAndSwap(0, s.clock.Tick())
	return 0, s.err
}

func (s *failIn) Close() { s.closes.Add(1) }

// (the wide ones are the most sensitive and the most expensive: a fifth of the trials)
var parkedCounts = []int{3, 8, 3, 8, 48, 3, 8, 3, 48, 8}

func smergeInducedCase(c *vkit.Case) {
	if c.R.NViolations() >= maxViolations {
		return
	}
	isolated(func() { smergeInduced1(c) })
}

func smergeInduced1(c *vkit.Case) {
	r := c.R
	rnd := c.Rand
	k := parkedCounts[c.Index%len(parkedCounts)]
	errKind := []int{errSentinel, errSentinel, errSentinel, errCanceled, errWrapsCanceled, errDeadline, errWrapsEnd, errIsEnd}[(c.Index/len(parkedCounts))%8]
	timeout := rnd.Bool(0.5)
	moment := rnd.Weighted([]int{1, 6, 3})
	items := rnd.Weighted([]int{6, 3, 1})
	at := rnd.Intn(k + 1) // position of the failing input among the inputs

	clock := &vkit.Clock{}
	gs := newGset()
	gs.add()
	var parked atomic.Int64
	f := &failIn{idx: at, items: items, moment: moment, want: int64(k), parked: &parked, clock: clock}
	switch errKind {
	case errCanceled:
		f.err = context.Canceled
	case errWrapsCanceled:
		f.err = fmt.Errorf("input %d failed: %w", at, context.Canceled)
	case errDeadline:
		f.err = context.DeadlineExceeded
	case errWrapsEnd:
		f.err = fmt.Errorf("input %d truncated: %w", at, stream.End)
	case errIsEnd:
		f.err = &endLikeError{at, items}
	default:
		f.err = fmt.Errorf("boom: input %d failed on its own", at)
	}
	var kids []*childIn
	var in []stream.Stream[uint64]
	for i := 0; i <= k; i++ {
		if i == at {
			in = append(in, f)
			continue
		}
		ch := &childIn{timeout: timeout, parked: &parked}
		kids = append(kids, ch)
		in = append(in, ch)
	}
	plan := map[string]any{"function": "stream.Merge", "scenario": "one input fails on its own while the others are parked on a child of the context Merge gave them",
		"parked_inputs": k, "child_context": map[bool]string{true: "WithTimeout(ctx, 1h)", false: "WithCancel(ctx)"}[timeout],
		"failing_input": at, "items_before_failing": items, "error_value": errKindNames[errKind], "moment": []string{"at once", "when all others are parked", "a little after all others are parked"}[moment]}

	var m stream.Stream[uint64]
	if pn := vkit.Try(func() { m = stream.Merge(in...) }); pn != nil {
		c.Violation("smerge-panic", "stream.Merge panicked: "+pn.Msg, plan)
		return
	}
	var (
		got    []uint64
		repErr error
		ended  bool
		retTk  int64
		pn     *vkit.Panic
		phase  atomic.Int32
	)
	done := make(chan struct{})
	go func() {
		defer close(done)
		gs.add()
		phase.Store(phNext)
		for {
			var v uint64
			var err error
			pn = vkit.Try(func() { v, err = m.Next(context.Background()) })
			if pn != nil {
				return
			}
			if err == stream.End {
				ended, retTk = true, clock.Tick()
				break
			}
			if err != nil {
				repErr, retTk = err, clock.Tick()
				break
			}
			got = append(got, v)
		}
		phase.Store(phClose)
		pn = vkit.Try(func() { m.Close() })
		phase.Store(phDone)
	}()
	r.Eval(1)
	verdict, dump := vkit.Await(done, vkit.AwaitOpts{Relevant: gs.relevant})
	switch verdict {
	case vkit.AwaitStuck:
		sig := "smerge-next-stuck"
		if phase.Load() == phClose {
			sig = "smerge-close-stuck"
		}
		plan["goroutines"] = trunc(dump, 8000)
		c.Violation(sig, fmt.Sprintf("stream.Merge over %d inputs (one fails, %d parked on child contexts): the consumer never finished, every goroutine of the case is parked for good", k+1, k), plan)
		return
	case vkit.AwaitInconclusive:
		r.Inconclusive(fmt.Sprintf("%s: consumer had not finished after the hard limit but something was still runnable", c.ID()))
		return
	}
	plan["received"] = showVals(got)
	if pn != nil {
		c.Violation("smerge-panic", "stream.Merge Next/Close panicked: "+pn.Msg, plan)
		return
	}
	lens := make([]int, k+1)
	lens[at] = items
	if sig, what, _ := checkValues(got, lens, false); sig != "" {
		c.Violation("smerge-"+sig, what, plan)
		return
	}
	ft := f.failed.Load()
	var induced int64
	for _, ch := range kids {
		induced += ch.induced.Load()
	}
	plan["failing_input_returned_its_error_at_tick"] = ft
	plan["report_tick"] = retTk
	plan["inputs_that_returned_the_error_of_a_done_context"] = induced
	r.Eval(1)
	switch {
	case ended:
		c.Violation("smerge-error-swallowed", fmt.Sprintf("stream.Merge reported End although input %d had failed with %q and the others never end", at, f.err.Error()), plan)
		return
	case repErr == f.err && ft != 0 && ft < retTk:
		r.Count("stream.Merge reported error", "an input's own error", 1)
	case ft != 0 && ft < retTk:
		plan["reported_error"] = repErr.Error()
		sig := "smerge-foreign-error"
		if errors.Is(repErr, context.Canceled) || errors.Is(repErr, context.DeadlineExceeded) {
			sig = "smerge-induced-cancel-reported"
		}
		c.Violation(sig, fmt.Sprintf("stream.Merge over %d inputs reported %q to a consumer whose context is live, although the only input that failed on its own (input %d) returned %q; %d parked inputs had meanwhile returned the error of the context Merge cancelled", k+1, repErr.Error(), at, f.err.Error(), induced), plan)
		return
	default:
		plan["reported_error"] = repErr.Error()
		c.Violation("smerge-foreign-error", fmt.Sprintf("stream.Merge reported %q before any input had returned an error", repErr.Error()), plan)
		return
	}
	r.Count("stream.Merge one input fails, others parked on a child context", "trials", 1)
	r.Count("stream.Merge one input fails, others parked on a child context", fmt.Sprintf("%d parked", k), 1)
	if f.allPark.Load() {
		r.Count("stream.Merge one input fails, others parked on a child context", "all others were parked when it failed", 1)
	}
	r.Count("stream.Merge failing input's error value", errKindNames[errKind], 1)
	r.Distinct(fmt.Sprintf("induced|%d|%d|%d|%v|%d|%d", k, at, errKind, timeout, moment, items))
}
