// C12 — chans.Merge / chans.Replicate / stream.Merge move every value exactly once and finish when
// their inputs do.
//
// Oracle: history checker over unique values ((input+1)<<32 | seq+1).
//
//   - chans.Merge (chans.go):   arity in {0,1,2,3,4,7} (range loop, merge2, merge3, reflect.Select),
//     producers with pre-drawn pacing tables that close at seeded moments (some before Merge is even
//     called, some pre-filled and closed), randomly pacing consumer, buffered / unbuffered out.
//     Checked: received multiset == union of what was sent, each input's order kept, Merge returns
//     (quiescence verdict, never wall clock) and only after every input's close was initiated
//     (logical clock), unbuffered out: every receive was started before Merge returned.
//   - chans.Replicate (chans.go): the whole source, in order, to every destination; same
//     termination rules.
//   - stream.Merge (smerge.go): probe inputs honouring ctx, a fatal error at each position of each
//     input, Close after 0..k items, inputs that never end; End only after every input ended and
//     with everything delivered; a reported error is one an input returned; zero inputs end; after
//     Close returns no stream.Merge goroutine of the case survives and every input was closed
//     exactly once and not used afterwards.
package main

import (
	"fmt"
	"regexp"
	"runtime"
	"strconv"
	"strings"
	"sync"

	"verif/vkit"
)

// After this many violations the remaining cases are skipped (a broken library would otherwise
// make every case wait for its quiescence verdict).
const maxViolations = 3

func main() {
	vkit.Main("C12", "exploration", run)
}

func run(r *vkit.Report) {
	r.SetRule("case = one run of chans.Merge, chans.Replicate or stream.Merge on a seeded configuration " +
		"(arity, per-input length / channel capacity / close mode or End|fatal-at-p|never-ends plan, out capacity, " +
		"pacing tables of every actor, consumer's read-to-end or Close-after-k). " +
		"non-trivial = at least one value moved, or a zero-input / all-empty termination was decided; " +
		"distinct = by hash of (function, configuration without pacing, observed output interleaving i.e. the sequence of source inputs of the received values and the outcome).")
	r.Assume("producers close their channel only after their last send returned; the harness closes out / dsts itself after Merge / Replicate returned (they are documented not to)")
	r.Assume("stream.Merge inputs honour the context they are given (ProbeStream.HonourCtx); the consumer never calls Next concurrently with Close and always calls Close")
	r.Assume("after stream.Merge first reports an error no further Next is issued: stickiness of the error is not judged")
	r.Assume("the caller's slice of inputs / destinations belongs to the caller: the functions may read it while they run but must leave the array (the passed window, its spare capacity, its surroundings) as it was")
	r.Assume("'the goroutines finish after Close' for an input that ignores its context and never ends is decided as bounded progress: Close blocked for >= 15 s (normal: microseconds) while a goroutine started by stream.Merge is running in two dumps 2 s apart, >= 1.5 s of CPU burnt and >= 1000 further values pulled from the input in between; anything less is inconclusive")
	r.Assume("the caller may reuse the slice it passed as stream.Merge's variadic arguments as soon as Merge has returned (chans.Merge / Replicate block until done, so the question does not arise there)")
	r.Assume("consumers of chans.Replicate's destinations may advance in rounds (item k from every destination before item k+1 from any): Replicate is documented to send every value to every destination, and sending item k everywhere before taking item k+1 is the only order that serves such readers")
	r.Assume("a channel may have other receivers besides chans.Merge (Go channels allow it and the documentation does not forbid it): Merge must then forward only what it really received; nil channels are not documented and not tried")
	r.Assume("which of several inputs' OWN errors is 'first' is not judged; but an error an input returned only because the context Merge gave it (or a child of it) was done is not an own error: if an input had failed on its own and the consumer's context is live, one of the own errors must be reported")
	r.Assume("a Next given a done context by the consumer may return a value, End, an input's error or that context's error: all are accepted, and after the context's error the consumer carries on; what is judged is that nothing is lost or duplicated and the stream still ends as its inputs do")
	r.Assume("in plans where the consumer uses contexts of its own, failing inputs return only error values that are not identical to context.Canceled / context.DeadlineExceeded, so the consumer can tell the two apart")

	workers := 8
	if g := runtime.GOMAXPROCS(0); g < 4 {
		workers = 4
	}

	nMerge := r.Scale(6000, 24000)
	nRep := r.Scale(1500, 6000)
	nErr := r.Scale(10*len(errCombos()), 40*len(errCombos()))
	nClose := r.Scale(3000, 12000)
	nRand := r.Scale(3000, 12000)
	nReg := r.Scale(10*nRegress, 40*nRegress)
	nCtx := r.Scale(1500, 6000)
	nEndless := r.Scale(1000, 4000)
	nGate := r.Scale(640, 2560)
	nInduced := r.Scale(21000, 63000)
	nLib := r.Scale(1680, 6720)
	nDeaf := r.Scale(480, 1920)
	nMergeWide := r.Scale(60, 240)
	nRepWide := r.Scale(240, 960)
	nIface := r.Scale(2880, 11520)
	nDisc := r.Scale(800, 3200)
	nReuse := r.Scale(420, 1680)
	nShared := r.Scale(4200, 16800)

	r.Cases("regress", nReg, workers, regressCase)
	r.Cases("chans-merge", nMerge, workers, chansMergeCase)
	r.Cases("chans-replicate", nRep, workers, replicateCase)
	r.Cases("smerge-err", nErr, workers, smergeErrCase)
	r.Cases("smerge-close", nClose, workers, smergeCloseCase)
	r.Cases("smerge-rand", nRand, workers, smergeRandCase)
	r.Cases("smerge-ctx", nCtx, workers, smergeCtxCase)
	r.Cases("smerge-endless", nEndless, workers, smergeEndlessCase)
	r.Cases("smerge-gate", nGate, workers, smergeGateCase)
	r.Cases("chans-iface", nIface, workers, ifaceCase)
	r.Cases("chans-replicate-disc", nDisc, workers, replicateDiscCase)
	r.Cases("chans-replicate-wide", nRepWide, workers, replicateWideCase)
	r.Cases("chans-merge-wide", nMergeWide, workers, chansMergeWideCase)
	r.Cases("smerge-deaf", nDeaf, workers, smergeDeafCase)
	r.Cases("smerge-reuse", nReuse, workers, smergeReuseCase)
	r.Cases("smerge-lib", nLib, workers, smergeLibCase)
	r.Cases("chans-shared", nShared, workers, chansSharedCase)
	r.Cases("smerge-induced", nInduced, workers, smergeInducedCase)

	// Coverage floors (all functions of the case lists, not of the schedule).
	for _, p := range []string{"reflect(0)", "range(1)", "merge2", "merge3", "reflect(4)", "reflect(7)"} {
		r.Floor("chans.Merge runs on code path "+p, r.Table("chans.Merge path", p), int64(nMerge/20))
	}
	for _, p := range []string{"reflect(0)", "range(1)", "merge2", "merge3", "reflect(4)", "reflect(7)"} {
		r.Floor("second chans.Merge over the same, now closed, inputs on code path "+p, r.Table("chans.Merge called again over the same closed inputs", p), int64(nMerge/20))
	}
	r.Floor("argument integrity checks of chans.Merge", r.Table("argument integrity checks", "chans.Merge"), int64(nMerge/2))
	r.Floor("argument integrity checks of chans.Replicate", r.Table("argument integrity checks", "chans.Replicate"), int64(nRep/2))
	r.Floor("argument integrity checks of stream.Merge", r.Table("argument integrity checks", "stream.Merge"), int64((nErr+nClose+nRand)/2))
	r.Floor("chans.Merge runs with an input closed before Merge was called", r.Table("chans.Merge input mode", "preclosed-empty")+r.Table("chans.Merge input mode", "prefilled-closed"), int64(nMerge/20))
	r.Floor("chans.Merge runs with unbuffered out", r.Table("chans.Merge out", "unbuffered"), int64(nMerge/5))
	r.Floor("chans.Merge runs with buffered out", r.Table("chans.Merge out", "buffered"), int64(nMerge/5))
	r.Floor("chans.Replicate runs with >= 2 destinations", r.Table("chans.Replicate", "dsts>=2"), int64(nRep/4))
	r.Floor("stream.Merge (input, error position) combinations run", r.Table("stream.Merge", "error combos covered"), int64(len(errCombos())))
	r.Floor("stream.Merge runs with zero inputs", r.Table("stream.Merge arity", "0"), 8)
	r.Floor("stream.Merge Close with an input blocked forever in Next", r.Table("stream.Merge", "closed with a never-ending input"), int64(nClose/10))
	r.Floor("stream.Merge read to End", r.Table("stream.Merge outcome", "end"), int64(nRand/10))
	for _, k := range errKindNames {
		r.Floor("stream.Merge (input, error position) combinations run with error value "+k, r.Table("stream.Merge enumerated error value", k), int64(len(errCombos())))
	}
	r.Floor("stream.Merge plans in which the consumer uses done / expiring contexts of its own", r.Table("stream.Merge", "plans with consumer contexts"), int64(nCtx/2))
	for k := 1; k <= 7; k++ {
		r.Floor(fmt.Sprintf("stream.Merge whose %d inputs are all stream.Empty()", k), r.Table("stream.Merge over the library's own streams", fmt.Sprintf("all %d inputs stream.Empty()", k)), int64(nLib/4/7/2))
	}
	r.Floor("stream.Merge with stream.Empty() at an enumerated position among inputs that finish at once", r.Table("stream.Merge over the library's own streams", "stream.Empty() at an enumerated position"), int64(nLib/8))
	for _, p := range []string{"range(1)", "merge2", "merge3", "reflect(4)", "reflect(5)", "reflect(7)"} {
		r.Floor("chans.Merge with buffered inputs shared with a second receiver, code path "+p, r.Table("chans.Merge with shared inputs, path", p), int64(nShared/12))
	}
	r.Floor("stream.Merge plans: an input fails while another is blocked in a context-ignoring Next", r.Table("stream.Merge", "plans: an input fails while another is blocked in a context-ignoring Next"), int64(nDeaf))
	for _, k := range []int{1, 2, 63, 64, 65, 66, 100, 130} {
		r.Floor(fmt.Sprintf("chans.Replicate with %d destinations and slow receivers", k), r.Table("chans.Replicate wide", fmt.Sprintf("%d destinations", k)), int64(nRepWide/16))
	}
	for _, k := range wideCounts {
		r.Floor(fmt.Sprintf("chans.Merge with %d inputs", k), r.Table("chans.Merge path", mergePath(k)), int64(nMergeWide/12))
	}
	for _, f := range []string{"chans.Merge", "chans.Replicate", "stream.Merge"} {
		for _, e := range elemTypeNames {
			r.Floor("element type "+e+" with nil / zero / NaN values through "+f, r.Table("interface element type with nil values: "+f, e), int64(nIface/36))
		}
	}
	r.Floor("stream.Merge runs in which the caller overwrote its slice of inputs after Merge returned", r.Table("stream.Merge", "caller overwrote its slice after Merge returned; decoys untouched"), int64(nReuse))
	r.Floor("chans.Replicate read round-robin by one goroutine from unbuffered destinations", r.Table("chans.Replicate consumer discipline", "one goroutine, round-robin"), int64(nDisc/4))
	r.Floor("chans.Replicate read by lock-step consumers (barrier per item)", r.Table("chans.Replicate consumer discipline", "lock-step consumers"), int64(nDisc/4))
	r.Floor("chans.Replicate with a prefilled buffered source and round-based readers", r.Table("chans.Replicate consumer discipline", "source had >= 2 items buffered when Replicate started"), int64(nDisc/4))
	for k := 0; k <= 7; k++ {
		r.Floor(fmt.Sprintf("chans.Merge of an interface element type with nil values, %d inputs", k), r.Table("interface element type with nil values: chans.Merge arity", fmt.Sprint(k)), int64(nIface/3/8/2))
	}
	r.Floor("stream.Merge read to End while every input's Close was blocked", r.Table("stream.Merge", "plans whose inputs' Close blocks until End was seen"), int64(nGate/2))
	r.Floor("stream.Merge trials: one input fails while child-context inputs are parked", r.Table("stream.Merge one input fails, others parked on a child context", "trials"), 20000)
	r.Floor("stream.Merge plans with an endless input that ignores its context", r.Table("stream.Merge", "plans with an endless input that ignores its context"), int64(nEndless))
	r.Floor("stream.Merge closed early with an endless input", r.Table("stream.Merge closed with an endless input that ignores its context, consumer outcome", "closed-early"), int64(nEndless/4))
	r.Floor("stream.Merge closed after another input failed, with an endless input", r.Table("stream.Merge closed with an endless input that ignores its context, consumer outcome", "error"), int64(nEndless/4))
	r.Floor("stream.Merge leak checks", r.Table("stream.Merge", "leak checks"), int64((nErr+nClose+nRand)/2))
}

// ---------------------------------------------------------------------------------------------
// Goroutine bookkeeping: which goroutines belong to one case (cases run in parallel, so the
// quiescence verdict and the leak check must look only at the case's own goroutines and at the
// library goroutines started from them).

func goid() int {
	buf := make([]byte, 64)
	n := runtime.Stack(buf, false)
	f := strings.Fields(string(buf[:n]))
	if len(f) >= 2 {
		id, _ := strconv.Atoi(f[1])
		return id
	}
	return -1
}

// isolated runs f on a goroutine of its own, so that "created by ... in goroutine N" identifies the
// case and not the worker that runs many cases one after the other.
func isolated(f func()) {
	done := make(chan struct{})
	go func() {
		defer close(done)
		f()
	}()
	<-done
}

type gset struct {
	mu  sync.Mutex
	ids map[int]bool
}

func newGset() *gset { return &gset{ids: make(map[int]bool)} }

// add registers the calling goroutine.
func (s *gset) add() {
	id := goid()
	s.mu.Lock()
	s.ids[id] = true
	s.mu.Unlock()
}

func (s *gset) has(id int) bool {
	s.mu.Lock()
	defer s.mu.Unlock()
	return s.ids[id]
}

var createdIn = regexp.MustCompile(`in goroutine (\d+)`)

// startedHere: g was created by a goroutine of the case.
func (s *gset) startedHere(g vkit.G) bool {
	m := createdIn.FindStringSubmatch(g.Raw)
	if m == nil {
		return false
	}
	id, _ := strconv.Atoi(m[1])
	return s.has(id)
}

// relevant: a goroutine of the case or one started by them.
func (s *gset) relevant(g vkit.G) bool { return s.has(g.ID) || s.startedHere(g) }

// ---------------------------------------------------------------------------------------------
// Argument integrity: the variadic arguments are handed over as arr[a:b:c], a window with spare
// capacity into a larger array whose other cells hold sentinels; an independent copy of the whole
// array is kept. After the call the caller's array must be what it was.

type guardedArgs[T comparable] struct {
	arr, orig []T
	a, b      int
}

// guardArgs returns the guard and the slice to pass (len(elems) elements, 2 spare cells of
// capacity that hold sentinels, 2 sentinels before and 3 after).
func guardArgs[T comparable](elems []T, sentinel func() T) (*guardedArgs[T], []T) {
	const pre, post, spare = 2, 3, 2
	arr := make([]T, 0, pre+len(elems)+post)
	for i := 0; i < pre; i++ {
		arr = append(arr, sentinel())
	}
	arr = append(arr, elems...)
	for i := 0; i < post; i++ {
		arr = append(arr, sentinel())
	}
	g := &guardedArgs[T]{arr: arr, orig: append([]T(nil), arr...), a: pre, b: pre + len(elems)}
	return g, arr[g.a : g.b : g.b+spare]
}

// verify returns "" if the caller's array is untouched, else what changed.
func (g *guardedArgs[T]) verify() string {
	var zero T
	for i := range g.arr {
		if g.arr[i] == g.orig[i] {
			continue
		}
		now := "another element of the array"
		if g.arr[i] == zero {
			now = "nil"
		} else {
			for j := range g.orig {
				if g.orig[j] == g.arr[i] {
					now = fmt.Sprintf("what was at argument index %d", j-g.a)
				}
			}
		}
		switch {
		case i < g.a:
			return fmt.Sprintf("the cell %d before the passed window now holds %s", g.a-i, now)
		case i >= g.b:
			return fmt.Sprintf("the cell %d past the end of the passed window (spare capacity / beyond) now holds %s", i-g.b, now)
		default:
			return fmt.Sprintf("argument %d of %d now holds %s", i-g.a, g.b-g.a, now)
		}
	}
	return ""
}

// ---------------------------------------------------------------------------------------------
// Values

func mkval(input, seq int) uint64 { return uint64(input+1)<<32 | uint64(seq+1) }

// unval returns (input, seq); input == -1 for a value no input can have produced.
func unval(v uint64) (int, int) {
	in := int(v>>32) - 1
	seq := int(v&0xffffffff) - 1
	if in < 0 || seq < 0 {
		return -1, -1
	}
	return in, seq
}

func showVals(vs []uint64) []string {
	out := make([]string, 0, len(vs))
	for _, v := range vs {
		in, seq := unval(v)
		if int64(v) < 0 {
			out = append(out, fmt.Sprintf("?%d", int64(v)))
		} else if in < 0 {
			out = append(out, fmt.Sprintf("?%#x", v))
		} else {
			out = append(out, fmt.Sprintf("%d:%d", in, seq))
		}
	}
	return out
}

// checkValues compares what was received with what the inputs hold. lens[i] is the number of
// values input i can hand out. exact: every value of every input must have arrived (otherwise a
// strictly increasing subsequence per input is enough: nothing the statement says forbids losing
// the tail when the run was cut short). It returns sig, what ("" if fine) and the per-input
// counts.
func checkValues(got []uint64, lens []int, exact bool) (string, string, []int) {
	next := make([]int, len(lens)) // lowest seq still acceptable from input i
	cnt := make([]int, len(lens))
	for k, v := range got {
		in, seq := unval(v)
		if in < 0 || in >= len(lens) || seq >= lens[in] {
			return "unsent-value", fmt.Sprintf("received value %#x at position %d that no input sent", v, k), cnt
		}
		if seq < next[in] {
			// Either a duplicate or out of order: tell them apart for the reader.
			for _, w := range got[:k] {
				if w == v {
					return "duplicate-value", fmt.Sprintf("value %d:%d received twice (second time at position %d)", in, seq, k), cnt
				}
			}
			return "input-order", fmt.Sprintf("value %d:%d received at position %d after a later value of the same input", in, seq, k), cnt
		}
		if exact && seq != next[in] {
			return "lost-value", fmt.Sprintf("value %d:%d never arrived (its successor %d:%d did, at position %d)", in, next[in], in, seq, k), cnt
		}
		next[in] = seq + 1
		cnt[in]++
	}
	if exact {
		for i, n := range lens {
			if cnt[i] != n {
				return "lost-value", fmt.Sprintf("input %d sent %d values, only %d arrived (first missing %d:%d)", i, n, cnt[i], i, cnt[i]), cnt
			}
		}
	}
	return "", "", cnt
}

// interleaving returns a compact signature of the order in which inputs were served and the number
// of switches between inputs.
func interleaving(got []uint64) (string, int) {
	var b strings.Builder
	sw := 0
	prev := -2
	for _, v := range got {
		in, _ := unval(v)
		if in != prev && prev != -2 {
			sw++
		}
		prev = in
		b.WriteByte(byte('a' + (in+1)%26))
	}
	return b.String(), sw
}

var intensities = []float64{0, 0, 0.15, 0.4, 0.8, 1}

func trunc(s string, n int) string {
	if len(s) > n {
		return s[:n] + "\n...[truncated]"
	}
	return s
}
