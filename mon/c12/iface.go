package main

import (
	"context"
	"fmt"
	"math"
	"sort"
	"sync"

	"github.com/bradenaw/juniper/chans"
	"github.com/bradenaw/juniper/stream"

	"verif/vkit"
)

// Element types whose zero-ness / equality is not bit identity: interface types (error, any) with
// nil values, float64 with +0, -0 and NaN payloads, a struct, an array and a complex holding such
// floats, and interface values holding them. Among the unique values every input also sends
// "special" values (nil, the zeros, NaNs) that cannot be told apart by ==: the multiset of those is
// compared BIT-WISE (math.Float64bits), the unique values as usual (multiset, per-input order), and
// nothing may panic.

type valErr uint64

func (e valErr) Error() string { return fmt.Sprintf("value %#x", uint64(e)) }

type elemOps[T any] struct {
	name     string
	mk       func(v uint64) T
	specials []T
	dec      func(T) (uint64, bool) // unique value, or special
	bits     func(T) string         // bit-exact rendering
}

var (
	negZero = math.Copysign(0, -1)
	nanA    = math.Float64frombits(0x7ff8000000000001)
	nanB    = math.Float64frombits(0xfff8000000000abc)
)

func fbits(f float64) string {
	switch b := math.Float64bits(f); {
	case b == 0:
		return "+0"
	case b == 1<<63:
		return "-0"
	case f != f:
		return fmt.Sprintf("NaN(%#x)", b)
	default:
		return fmt.Sprintf("%#x", b)
	}
}

// plainFloat: f is one of the unique values (a positive integer), not a zero or a NaN.
func plainFloat(f float64) (uint64, bool) {
	if f != f || f == 0 || f < 1 || f > 1<<40 {
		return 0, false
	}
	return uint64(f), true
}

type fstruct struct {
	f float64
	n int
}

var float64Ops = elemOps[float64]{
	name:     "float64",
	mk:       func(v uint64) float64 { return float64(v) },
	specials: []float64{0, negZero, negZero, nanA, nanB},
	dec: func(x float64) (uint64, bool) {
		v, ok := plainFloat(x)
		return v, !ok
	},
	bits: fbits,
}

var structOps = elemOps[fstruct]{
	name:     "struct{f float64; n int}",
	mk:       func(v uint64) fstruct { return fstruct{float64(v), 1} },
	specials: []fstruct{{0, 0}, {negZero, 0}, {negZero, 0}, {nanA, 0}},
	dec: func(x fstruct) (uint64, bool) {
		if x.n != 1 {
			return 0, true
		}
		v, ok := plainFloat(x.f)
		return v, !ok
	},
	bits: func(x fstruct) string { return fmt.Sprintf("{%s %d}", fbits(x.f), x.n) },
}

var arrayOps = elemOps[[2]float64]{
	name:     "[2]float64",
	mk:       func(v uint64) [2]float64 { return [2]float64{float64(v), negZero} },
	specials: [][2]float64{{0, 0}, {negZero, negZero}, {0, negZero}, {negZero, 0}, {nanB, negZero}},
	dec: func(x [2]float64) (uint64, bool) {
		v, ok := plainFloat(x[0])
		return v, !ok
	},
	bits: func(x [2]float64) string { return "[" + fbits(x[0]) + " " + fbits(x[1]) + "]" },
}

var complexOps = elemOps[complex128]{
	name:     "complex128",
	mk:       func(v uint64) complex128 { return complex(float64(v), negZero) },
	specials: []complex128{0, complex(negZero, negZero), complex(0, negZero), complex(negZero, 0), complex(nanA, negZero)},
	dec: func(x complex128) (uint64, bool) {
		v, ok := plainFloat(real(x))
		return v, !ok
	},
	bits: func(x complex128) string { return "(" + fbits(real(x)) + " " + fbits(imag(x)) + "i)" },
}

var errorOps = elemOps[error]{
	name:     "error",
	mk:       func(v uint64) error { return valErr(v) },
	specials: []error{nil},
	bits: func(x error) string {
		if x == nil {
			return "nil"
		}
		return x.Error()
	},
	dec: func(x error) (uint64, bool) {
		if x == nil {
			return 0, true
		}
		if e, ok := x.(valErr); ok {
			return uint64(e), false
		}
		return 0, false // decodes to a value nobody sent
	},
}

var anyOps = elemOps[any]{
	name:     "any",
	mk:       func(v uint64) any { return v },
	specials: []any{nil, nil, negZero, float64(0), [2]float64{negZero, 0}, fstruct{negZero, 0}, complex(negZero, negZero), nanA},
	dec: func(x any) (uint64, bool) {
		if v, ok := x.(uint64); ok {
			return v, false
		}
		return 0, true
	},
	bits: func(x any) string {
		switch v := x.(type) {
		case nil:
			return "nil"
		case uint64:
			return fmt.Sprintf("uint64(%#x)", v)
		case float64:
			return "float64(" + fbits(v) + ")"
		case [2]float64:
			return "[2]float64" + arrayOps.bits(v)
		case fstruct:
			return "struct" + structOps.bits(v)
		case complex128:
			return "complex128" + complexOps.bits(v)
		}
		return fmt.Sprintf("%T(%v)", x, x)
	},
}

const nElemTypes = 6

var elemTypeNames = []string{errorOps.name, anyOps.name, float64Ops.name, structOps.name, arrayOps.name, complexOps.name}

func ifaceCase(c *vkit.Case) {
	if c.R.NViolations() >= maxViolations {
		return
	}
	isolated(func() {
		switch c.Index % nElemTypes {
		case 0:
			ifaceRun(c, errorOps)
		case 1:
			ifaceRun(c, anyOps)
		case 2:
			ifaceRun(c, float64Ops)
		case 3:
			ifaceRun(c, structOps)
		case 4:
			ifaceRun(c, arrayOps)
		default:
			ifaceRun(c, complexOps)
		}
	})
}

// sliceStream is a plain finite stream over a slice.
type sliceStream[T any] struct {
	items []T
	pos   int
	pert  *vkit.Perturber
}

func (s *sliceStream[T]) Next(ctx context.Context) (T, error) {
	var zero T
	s.pert.Do()
	if ctx.Err() != nil {
		return zero, ctx.Err()
	}
	if s.pos >= len(s.items) {
		return zero, stream.End
	}
	s.pos++
	return s.items[s.pos-1], nil
}
func (s *sliceStream[T]) Close() {}

func ifaceRun[T any](c *vkit.Case, ops elemOps[T]) {
	r := c.R
	rnd := c.Rand
	fn := (c.Index / nElemTypes) % 3 // 0 chans.Merge, 1 chans.Replicate, 2 stream.Merge
	fnName := []string{"chans.Merge", "chans.Replicate", "stream.Merge"}[fn]
	n := (c.Index / (3 * nElemTypes)) % 8 // inputs (Merge: 0..7) or destinations (Replicate)
	if fn == 1 {
		n = (c.Index/(3*nElemTypes))%4 + 1
	}
	nIn := n
	if fn == 1 {
		nIn = 1
	}
	// What every input sends: unique non-nil values with nils in between.
	seqs := make([][]T, nIn)
	lens := make([]int, nIn)
	nils := make([]int, nIn)
	var shown [][]string
	totalNil := 0
	sentSpecial := make(map[string]int)
	for i := range seqs {
		k := rnd.Intn(7)
		var sh []string
		for j := 0; j < k; j++ {
			if rnd.Bool(0.45) {
				x := vkit.Pick(rnd, ops.specials)
				seqs[i] = append(seqs[i], x)
				nils[i]++
				totalNil++
				sentSpecial[ops.bits(x)]++
				sh = append(sh, ops.bits(x))
			} else {
				seqs[i] = append(seqs[i], ops.mk(mkval(i, lens[i])))
				sh = append(sh, fmt.Sprintf("%d:%d", i, lens[i]))
				lens[i]++
			}
		}
		shown = append(shown, sh)
	}
	witness := map[string]any{"function": fnName, "element_type": ops.name, "inputs": nIn, "sent": shown, "special_values_per_input": nils}
	gs := newGset()
	gs.add()
	perts := func() *vkit.Perturber { return vkit.NewPerturber(rnd, 8, vkit.Pick(rnd, []float64{0, 0, 0.15, 0.4})) }

	// collect drains ch into *dst until it is closed.
	collect := func(ch chan T, dst *[]T, pert *vkit.Perturber, done chan struct{}) {
		defer close(done)
		gs.add()
		for {
			pert.Do()
			v, ok := <-ch
			if !ok {
				return
			}
			*dst = append(*dst, v)
		}
	}
	produce := func(ch chan T, items []T, pert *vkit.Perturber, wg *sync.WaitGroup) {
		defer wg.Done()
		gs.add()
		for _, v := range items {
			pert.Do()
			ch <- v
		}
		close(ch)
	}
	// judge compares one receiver's sequence with what it is owed.
	judge := func(who string, got []T, lens []int, wantNil int, wantSeq []T) bool {
		var gv []uint64
		gotNil := 0
		gotSpecial := make(map[string]int)
		var sh []string
		for _, x := range got {
			v, isNil := ops.dec(x)
			if isNil {
				gotNil++
				gotSpecial[ops.bits(x)]++
				sh = append(sh, ops.bits(x))
				continue
			}
			gv = append(gv, v)
			sh = append(sh, showVals([]uint64{v})[0])
		}
		witness["received_by_"+who] = sh
		r.Eval(1)
		if sig, what, _ := checkValues(gv, lens, true); sig != "" {
			c.Violation(sig, fmt.Sprintf("%s of element type %s with nil values, %s: %s", fnName, ops.name, who, what), witness)
			return false
		}
		if gotNil != wantNil || fmt.Sprint(sortedCounts(gotSpecial)) != fmt.Sprint(sortedCounts(sentSpecial)) {
			c.Violation("value-bits", fmt.Sprintf("%s of element type %s: the values that == cannot tell apart were sent as %v, but %s received %v (compared bit-wise)", fnName, ops.name, sortedCounts(sentSpecial), who, sortedCounts(gotSpecial)), witness)
			return false
		}
		if wantSeq != nil { // a single source: the exact sequence, bit-wise
			for k := range wantSeq {
				if a, b := ops.bits(wantSeq[k]), ops.bits(got[k]); a != b {
					c.Violation("input-order", fmt.Sprintf("%s of element type %s: %s got %s at position %d where %s was sent", fnName, ops.name, who, b, k, a), witness)
					return false
				}
			}
		}
		return true
	}
	await := func(done chan struct{}, what string) bool {
		r.Eval(1)
		verdict, dump := vkit.Await(done, vkit.AwaitOpts{Relevant: gs.relevant})
		switch verdict {
		case vkit.AwaitStuck:
			witness["goroutines"] = trunc(dump, 8000)
			c.Violation("iface-stuck", fmt.Sprintf("%s of element type %s with nil values: %s never finished, every goroutine of the case is parked for good", fnName, ops.name, what), witness)
			return false
		case vkit.AwaitInconclusive:
			r.Inconclusive(fmt.Sprintf("%s: %s had not finished after the hard limit but something was still runnable", c.ID(), what))
			return false
		}
		return true
	}

	switch fn {
	case 0: // chans.Merge
		chs := make([]chan T, nIn)
		ro := make([]<-chan T, nIn)
		var pwg sync.WaitGroup
		for i := range chs {
			chs[i] = make(chan T, vkit.Pick(rnd, []int{0, 0, 1, 2}))
			ro[i] = chs[i]
			pwg.Add(1)
			go produce(chs[i], seqs[i], perts(), &pwg)
		}
		out := make(chan T, vkit.Pick(rnd, []int{0, 0, 2}))
		var got []T
		consDone := make(chan struct{})
		go collect(out, &got, perts(), consDone)
		var pn *vkit.Panic
		done := make(chan struct{})
		go func() {
			defer close(done)
			gs.add()
			pn = vkit.Try(func() { chans.Merge((chan<- T)(out), ro...) })
		}()
		if !await(done, "Merge") {
			return
		}
		if pn != nil {
			witness["stack"] = trunc(pn.Stack, 3000)
			c.Violation("merge-panic", fmt.Sprintf("chans.Merge of element type %s with %d inputs (%s) panicked when a nil value was sent: %s", ops.name, nIn, mergePath(nIn), pn.Msg), witness)
			for _, ch := range chs { // let the producers finish
				ch := ch
				go func() {
					for range ch {
					}
				}()
			}
			close(out)
			return
		}
		close(out)
		<-consDone
		pwg.Wait()
		if !judge("the consumer", got, lens, totalNil, nil) {
			return
		}
		r.Count("interface element type with nil values: chans.Merge arity", fmt.Sprint(nIn), 1)
	case 1: // chans.Replicate
		src := make(chan T, vkit.Pick(rnd, []int{0, 1}))
		var pwg sync.WaitGroup
		pwg.Add(1)
		go produce(src, seqs[0], perts(), &pwg)
		dsts := make([]chan T, n)
		so := make([]chan<- T, n)
		gots := make([][]T, n)
		dones := make([]chan struct{}, n)
		for d := range dsts {
			dsts[d] = make(chan T, vkit.Pick(rnd, []int{0, 0, 1}))
			so[d] = dsts[d]
			dones[d] = make(chan struct{})
			go collect(dsts[d], &gots[d], perts(), dones[d])
		}
		var pn *vkit.Panic
		done := make(chan struct{})
		go func() {
			defer close(done)
			gs.add()
			pn = vkit.Try(func() { chans.Replicate((<-chan T)(src), so...) })
		}()
		if !await(done, "Replicate") {
			return
		}
		for _, d := range dsts {
			close(d)
		}
		if pn != nil {
			c.Violation("replicate-panic", fmt.Sprintf("chans.Replicate of element type %s panicked: %s", ops.name, pn.Msg), witness)
			go func() {
				for range src {
				}
			}()
			return
		}
		for _, d := range dones {
			<-d
		}
		pwg.Wait()
		for d := range gots {
			if len(gots[d]) != len(seqs[0]) {
				witness["destination"] = d
				c.Violation("replicate-lost-value", fmt.Sprintf("chans.Replicate of element type %s: destination %d received %d of %d values", ops.name, d, len(gots[d]), len(seqs[0])), witness)
				return
			}
			if !judge(fmt.Sprintf("destination %d", d), gots[d], lens, totalNil, seqs[0]) {
				return
			}
		}
	case 2: // stream.Merge
		ins := make([]stream.Stream[T], nIn)
		for i := range ins {
			ins[i] = &sliceStream[T]{items: seqs[i], pert: perts()}
		}
		var got []T
		var repErr error
		var pn *vkit.Panic
		done := make(chan struct{})
		go func() {
			defer close(done)
			gs.add()
			pn = vkit.Try(func() {
				m := stream.Merge(ins...)
				defer m.Close()
				for {
					v, err := m.Next(context.Background())
					if err != nil {
						if err != stream.End {
							repErr = err
						}
						return
					}
					got = append(got, v)
				}
			})
		}()
		if !await(done, "the consumer of stream.Merge") {
			return
		}
		if pn != nil {
			c.Violation("smerge-panic", fmt.Sprintf("stream.Merge of element type %s panicked: %s", ops.name, pn.Msg), witness)
			return
		}
		if repErr != nil {
			c.Violation("smerge-foreign-error", fmt.Sprintf("stream.Merge of element type %s reported %q although no input failed", ops.name, repErr.Error()), witness)
			return
		}
		if !judge("the consumer", got, lens, totalNil, nil) {
			return
		}
	}
	r.Count("interface element type with nil values: "+fnName, ops.name, 1)
	for k, v := range sentSpecial {
		r.Count("element types: special values moved", ops.name+" "+k, v)
	}
	r.Distinct(fmt.Sprintf("iface|%s|%s|%v", fnName, ops.name, shown))
}

func sortedCounts(m map[string]int) []string {
	var out []string
	for k, v := range m {
		out = append(out, fmt.Sprintf("%s x%d", k, v))
	}
	sort.Strings(out)
	return out
}
