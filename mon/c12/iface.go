package main

import (
	"context"
	"fmt"
	"sync"

	"github.com/bradenaw/juniper/chans"
	"github.com/bradenaw/juniper/stream"

	"verif/vkit"
)

// Interface element types (error, any) with nil values among the values sent: the number of nils,
// the multiset and per-input order of the non-nil values must come out, and nothing may panic.

type valErr uint64

func (e valErr) Error() string { return fmt.Sprintf("value %#x", uint64(e)) }

type elemOps[T any] struct {
	name string
	mk   func(v uint64) T
	dec  func(T) (uint64, bool) // value, isNil
}

var errorOps = elemOps[error]{
	name: "error",
	mk:   func(v uint64) error { return valErr(v) },
	dec: func(x error) (uint64, bool) {
		if x == nil {
			return 0, true
		}
		if e, ok := x.(valErr); ok {
			return uint64(e), false
		}
		return 0, false // decodes to a value nobody sent
	},
}

var anyOps = elemOps[any]{
	name: "any",
	mk:   func(v uint64) any { return v },
	dec: func(x any) (uint64, bool) {
		if x == nil {
			return 0, true
		}
		if v, ok := x.(uint64); ok {
			return v, false
		}
		return 0, false
	},
}

func ifaceCase(c *vkit.Case) {
	if c.R.NViolations() >= maxViolations {
		return
	}
	isolated(func() {
		if c.Index%2 == 0 {
			ifaceRun(c, errorOps)
		} else {
			ifaceRun(c, anyOps)
		}
	})
}

// sliceStream is a plain finite stream over a slice.
type sliceStream[T any] struct {
	items []T
	pos   int
	pert  *vkit.Perturber
}

func (s *sliceStream[T]) Next(ctx context.Context) (T, error) {
	var zero T
	s.pert.Do()
	if ctx.Err() != nil {
		return zero, ctx.Err()
	}
	if s.pos >= len(s.items) {
		return zero, stream.End
	}
	s.pos++
	return s.items[s.pos-1], nil
}
func (s *sliceStream[T]) Close() {}

func ifaceRun[T any](c *vkit.Case, ops elemOps[T]) {
	r := c.R
	rnd := c.Rand
	fn := (c.Index / 2) % 3 // 0 chans.Merge, 1 chans.Replicate, 2 stream.Merge
	fnName := []string{"chans.Merge", "chans.Replicate", "stream.Merge"}[fn]
	n := (c.Index / 6) % 8 // inputs (Merge: 0..7) or destinations (Replicate)
	if fn == 1 {
		n = (c.Index/6)%4 + 1
	}
	nIn := n
	if fn == 1 {
		nIn = 1
	}
	// What every input sends: unique non-nil values with nils in between.
	seqs := make([][]T, nIn)
	lens := make([]int, nIn)
	nils := make([]int, nIn)
	var shown [][]string
	totalNil := 0
	for i := range seqs {
		k := rnd.Intn(7)
		var sh []string
		for j := 0; j < k; j++ {
			if rnd.Bool(0.4) {
				var zero T
				seqs[i] = append(seqs[i], zero)
				nils[i]++
				totalNil++
				sh = append(sh, "nil")
			} else {
				seqs[i] = append(seqs[i], ops.mk(mkval(i, lens[i])))
				sh = append(sh, fmt.Sprintf("%d:%d", i, lens[i]))
				lens[i]++
			}
		}
		shown = append(shown, sh)
	}
	witness := map[string]any{"function": fnName, "element_type": ops.name, "inputs": nIn, "sent": shown, "nils_per_input": nils}
	gs := newGset()
	gs.add()
	perts := func() *vkit.Perturber { return vkit.NewPerturber(rnd, 8, vkit.Pick(rnd, []float64{0, 0, 0.15, 0.4})) }

	// collect drains ch into *dst until it is closed.
	collect := func(ch chan T, dst *[]T, pert *vkit.Perturber, done chan struct{}) {
		defer close(done)
		gs.add()
		for {
			pert.Do()
			v, ok := <-ch
			if !ok {
				return
			}
			*dst = append(*dst, v)
		}
	}
	produce := func(ch chan T, items []T, pert *vkit.Perturber, wg *sync.WaitGroup) {
		defer wg.Done()
		gs.add()
		for _, v := range items {
			pert.Do()
			ch <- v
		}
		close(ch)
	}
	// judge compares one receiver's sequence with what it is owed.
	judge := func(who string, got []T, lens []int, wantNil int, wantSeq []T) bool {
		var gv []uint64
		gotNil := 0
		var sh []string
		for _, x := range got {
			v, isNil := ops.dec(x)
			if isNil {
				gotNil++
				sh = append(sh, "nil")
				continue
			}
			gv = append(gv, v)
			sh = append(sh, showVals([]uint64{v})[0])
		}
		witness["received_by_"+who] = sh
		r.Eval(1)
		if sig, what, _ := checkValues(gv, lens, true); sig != "" {
			c.Violation(sig, fmt.Sprintf("%s of element type %s with nil values, %s: %s", fnName, ops.name, who, what), witness)
			return false
		}
		if gotNil != wantNil {
			c.Violation("nil-count", fmt.Sprintf("%s of element type %s: %d nil values were sent, %s received %d", fnName, ops.name, wantNil, who, gotNil), witness)
			return false
		}
		if wantSeq != nil { // a single source: the exact sequence, nils in place
			for k := range wantSeq {
				_, a := ops.dec(wantSeq[k])
				_, b := ops.dec(got[k])
				if a != b {
					c.Violation("input-order", fmt.Sprintf("%s of element type %s: %s got the nil values at other positions than sent (first difference at %d)", fnName, ops.name, who, k), witness)
					return false
				}
			}
		}
		return true
	}
	await := func(done chan struct{}, what string) bool {
		r.Eval(1)
		verdict, dump := vkit.Await(done, vkit.AwaitOpts{Relevant: gs.relevant})
		switch verdict {
		case vkit.AwaitStuck:
			witness["goroutines"] = trunc(dump, 8000)
			c.Violation("iface-stuck", fmt.Sprintf("%s of element type %s with nil values: %s never finished, every goroutine of the case is parked for good", fnName, ops.name, what), witness)
			return false
		case vkit.AwaitInconclusive:
			r.Inconclusive(fmt.Sprintf("%s: %s had not finished after the hard limit but something was still runnable", c.ID(), what))
			return false
		}
		return true
	}

	switch fn {
	case 0: // chans.Merge
		chs := make([]chan T, nIn)
		ro := make([]<-chan T, nIn)
		var pwg sync.WaitGroup
		for i := range chs {
			chs[i] = make(chan T, vkit.Pick(rnd, []int{0, 0, 1, 2}))
			ro[i] = chs[i]
			pwg.Add(1)
			go produce(chs[i], seqs[i], perts(), &pwg)
		}
		out := make(chan T, vkit.Pick(rnd, []int{0, 0, 2}))
		var got []T
		consDone := make(chan struct{})
		go collect(out, &got, perts(), consDone)
		var pn *vkit.Panic
		done := make(chan struct{})
		go func() {
			defer close(done)
			gs.add()
			pn = vkit.Try(func() { chans.Merge((chan<- T)(out), ro...) })
		}()
		if !await(done, "Merge") {
			return
		}
		if pn != nil {
			witness["stack"] = trunc(pn.Stack, 3000)
			c.Violation("merge-panic", fmt.Sprintf("chans.Merge of element type %s with %d inputs (%s) panicked when a nil value was sent: %s", ops.name, nIn, mergePath(nIn), pn.Msg), witness)
			for _, ch := range chs { // let the producers finish
				ch := ch
				go func() {
					for range ch {
					}
				}()
			}
			close(out)
			return
		}
		close(out)
		<-consDone
		pwg.Wait()
		if !judge("the consumer", got, lens, totalNil, nil) {
			return
		}
		r.Count("interface element type with nil values: chans.Merge arity", fmt.Sprint(nIn), 1)
	case 1: // chans.Replicate
		src := make(chan T, vkit.Pick(rnd, []int{0, 1}))
		var pwg sync.WaitGroup
		pwg.Add(1)
		go produce(src, seqs[0], perts(), &pwg)
		dsts := make([]chan T, n)
		so := make([]chan<- T, n)
		gots := make([][]T, n)
		dones := make([]chan struct{}, n)
		for d := range dsts {
			dsts[d] = make(chan T, vkit.Pick(rnd, []int{0, 0, 1}))
			so[d] = dsts[d]
			dones[d] = make(chan struct{})
			go collect(dsts[d], &gots[d], perts(), dones[d])
		}
		var pn *vkit.Panic
		done := make(chan struct{})
		go func() {
			defer close(done)
			gs.add()
			pn = vkit.Try(func() { chans.Replicate((<-chan T)(src), so...) })
		}()
		if !await(done, "Replicate") {
			return
		}
		for _, d := range dsts {
			close(d)
		}
		if pn != nil {
			c.Violation("replicate-panic", fmt.Sprintf("chans.Replicate of element type %s panicked: %s", ops.name, pn.Msg), witness)
			go func() {
				for range src {
				}
			}()
			return
		}
		for _, d := range dones {
			<-d
		}
		pwg.Wait()
		for d := range gots {
			if len(gots[d]) != len(seqs[0]) {
				witness["destination"] = d
				c.Violation("replicate-lost-value", fmt.Sprintf("chans.Replicate of element type %s: destination %d received %d of %d values", ops.name, d, len(gots[d]), len(seqs[0])), witness)
				return
			}
			if !judge(fmt.Sprintf("destination %d", d), gots[d], lens, totalNil, seqs[0]) {
				return
			}
		}
	case 2: // stream.Merge
		ins := make([]stream.Stream[T], nIn)
		for i := range ins {
			ins[i] = &sliceStream[T]{items: seqs[i], pert: perts()}
		}
		var got []T
		var repErr error
		var pn *vkit.Panic
		done := make(chan struct{})
		go func() {
			defer close(done)
			gs.add()
			pn = vkit.Try(func() {
				m := stream.Merge(ins...)
				defer m.Close()
				for {
					v, err := m.Next(context.Background())
					if err != nil {
						if err != stream.End {
							repErr = err
						}
						return
					}
					got = append(got, v)
				}
			})
		}()
		if !await(done, "the consumer of stream.Merge") {
			return
		}
		if pn != nil {
			c.Violation("smerge-panic", fmt.Sprintf("stream.Merge of element type %s panicked: %s", ops.name, pn.Msg), witness)
			return
		}
		if repErr != nil {
			c.Violation("smerge-foreign-error", fmt.Sprintf("stream.Merge of element type %s reported %q although no input failed", ops.name, repErr.Error()), witness)
			return
		}
		if !judge("the consumer", got, lens, totalNil, nil) {
			return
		}
	}
	r.Count("interface element type with nil values: "+fnName, ops.name, 1)
	r.Count("interface element type with nil values", fmt.Sprintf("%d nil values in the run", min(totalNil, 9)), 1)
	r.Distinct(fmt.Sprintf("iface|%s|%s|%v", fnName, ops.name, shown))
}
