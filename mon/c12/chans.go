package main

import (
	"fmt"
	"sync"
	"sync/atomic"

	"github.com/bradenaw/juniper/chans"

	"verif/vkit"
)

var arities = []int{0, 1, 2, 3, 4, 7}

const (
	modeLive            = iota // a producer goroutine sends, then closes
	modePreclosedEmpty         // closed before Merge is called, nothing sent
	modePrefilledClosed        // buffered channel filled and closed before Merge is called
)

var modeNames = []string{"live", "preclosed-empty", "prefilled-closed"}

type mInput struct {
	N         int     `json:"n"`
	Cap       int     `json:"cap"`
	Mode      int     `json:"mode"`
	Intensity float64 `json:"pacing"`
	CloseLag  int     `json:"close_lag"` // perturbations between the last send and close
}

type mPlan struct {
	Label     string   `json:"label"`
	Inputs    []mInput `json:"inputs"`
	OutCap    int      `json:"out_cap"`
	ConsPace  float64  `json:"consumer_pacing"`
	LateStart bool     `json:"merge_started_late"` // Merge is called after a perturbation (producers get ahead)
}

func (p mPlan) key() string {
	s := fmt.Sprintf("merge|out=%d|late=%v", p.OutCap, p.LateStart)
	for _, in := range p.Inputs {
		s += fmt.Sprintf("|%d,%d,%d", in.N, in.Cap, in.Mode)
	}
	return s
}

func mergePath(n int) string {
	switch n {
	case 1:
		return "range(1)"
	case 2:
		return "merge2"
	case 3:
		return "merge3"
	}
	return fmt.Sprintf("reflect(%d)", n)
}

func genMergePlan(c *vkit.Case, arity int) mPlan {
	rnd := c.Rand
	maxN := c.R.Scale(8, 30)
	p := mPlan{Label: "random", OutCap: vkit.Pick(rnd, []int{0, 0, 0, 1, 3, 16}), ConsPace: vkit.Pick(rnd, intensities), LateStart: rnd.Bool(0.2)}
	for i := 0; i < arity; i++ {
		in := mInput{Intensity: vkit.Pick(rnd, intensities)}
		switch rnd.Weighted([]int{70, 12, 18}) {
		case 0:
			in.Mode = modeLive
			if rnd.Bool(0.15) {
				in.N = 0 // ends immediately
			} else {
				in.N = rnd.Range(1, maxN)
			}
			in.Cap = vkit.Pick(rnd, []int{0, 0, 1, 4})
			in.CloseLag = vkit.Pick(rnd, []int{0, 0, 1, 3})
		case 1:
			in.Mode = modePreclosedEmpty
			in.Cap = vkit.Pick(rnd, []int{0, 2})
		case 2:
			in.Mode = modePrefilledClosed
			in.N = rnd.Range(1, maxN)
			in.Cap = in.N + rnd.Intn(2)
		}
		p.Inputs = append(p.Inputs, in)
	}
	return p
}

func chansMergeCase(c *vkit.Case) {
	if c.R.NViolations() >= maxViolations {
		return
	}
	arity := arities[c.Index%len(arities)]
	runMerge(c, genMergePlan(c, arity))
}

type recv struct {
	v    uint64
	call int64 // tick taken before the receive that obtained v
}

// producer sends vals on ch pacing itself with pert, then closes; closeCall gets the tick taken
// just before close.
func producer(gs *gset, clock *vkit.Clock, ch chan uint64, vals []uint64, pert *vkit.Perturber, lag int, closeCall *atomic.Int64, wg *sync.WaitGroup) {
	defer wg.Done()
	gs.add()
	for _, v := range vals {
		pert.Do()
		ch <- v
	}
	for i := 0; i < lag; i++ {
		pert.Do()
	}
	closeCall.Store(clock.Tick())
	close(ch)
}

// consumer receives from out until the harness closes it.
func consumer(gs *gset, clock *vkit.Clock, out chan uint64, pert *vkit.Perturber, got *[]recv, done chan struct{}) {
	defer close(done)
	gs.add()
	for {
		pert.Do()
		t := clock.Tick()
		v, ok := <-out
		if !ok {
			return
		}
		*got = append(*got, recv{v, t})
	}
}

func runMerge(c *vkit.Case, p mPlan) { isolated(func() { runMerge1(c, p) }) }

func runMerge1(c *vkit.Case, p mPlan) {
	r := c.R
	n := len(p.Inputs)
	clock := &vkit.Clock{}
	gs := newGset()
	gs.add()

	chs := make([]chan uint64, n)
	ro := make([]<-chan uint64, n)
	vals := make([][]uint64, n)
	lens := make([]int, n)
	closeCall := make([]atomic.Int64, n)
	perts := make([]*vkit.Perturber, n)
	for i, in := range p.Inputs {
		lens[i] = in.N
		for s := 0; s < in.N; s++ {
			vals[i] = append(vals[i], mkval(i, s))
		}
		chs[i] = make(chan uint64, in.Cap)
		ro[i] = chs[i]
		perts[i] = vkit.NewPerturber(c.Rand, 16, in.Intensity)
		r.Count("chans.Merge input mode", modeNames[in.Mode], 1)
	}
	consPert := vkit.NewPerturber(c.Rand, 16, p.ConsPace)
	latePert := vkit.NewPerturber(c.Rand, 4, 1)
	out := make(chan uint64, p.OutCap)
	// The inputs are passed as a window into a sentinel-guarded array (argument integrity).
	guard, ro := guardArgs(ro, func() <-chan uint64 { return make(chan uint64) })

	r.Count("chans.Merge path", mergePath(n), 1)
	if p.OutCap == 0 {
		r.Count("chans.Merge out", "unbuffered", 1)
	} else {
		r.Count("chans.Merge out", "buffered", 1)
	}

	witness := func(extra map[string]any) map[string]any {
		w := map[string]any{"function": "chans.Merge", "plan": p}
		for k, v := range extra {
			w[k] = v
		}
		return w
	}

	// Inputs that are finished before Merge is called.
	for i, in := range p.Inputs {
		switch in.Mode {
		case modePreclosedEmpty:
			closeCall[i].Store(clock.Tick())
			close(chs[i])
		case modePrefilledClosed:
			for _, v := range vals[i] {
				chs[i] <- v
			}
			closeCall[i].Store(clock.Tick())
			close(chs[i])
		}
	}
	var pwg sync.WaitGroup
	for i, in := range p.Inputs {
		if in.Mode == modeLive {
			pwg.Add(1)
			go producer(gs, clock, chs[i], vals[i], perts[i], in.CloseLag, &closeCall[i], &pwg)
		}
	}
	var got []recv
	consDone := make(chan struct{})
	go consumer(gs, clock, out, consPert, &got, consDone)

	var mergeRet atomic.Int64
	var mergePanic *vkit.Panic
	mergeDone := make(chan struct{})
	go func() {
		defer close(mergeDone)
		gs.add()
		if p.LateStart {
			latePert.Do()
			latePert.Do()
		}
		clock.Tick()
		mergePanic = vkit.Try(func() { chans.Merge(out, ro...) })
		mergeRet.Store(clock.Tick())
	}()

	// cleanup lets the harness goroutines finish whatever the library did.
	cleanup := func(closeOut bool) {
		for i := range chs {
			ch := chs[i]
			go func() {
				for range ch {
				}
			}()
		}
		if closeOut {
			close(out)
		}
	}

	// Termination: Merge returns. Decided by quiescence, never by the wall clock.
	r.Eval(1)
	verdict, dump := vkit.Await(mergeDone, vkit.AwaitOpts{Relevant: gs.relevant})
	switch verdict {
	case vkit.AwaitStuck:
		c.Violation("merge-stuck", fmt.Sprintf("chans.Merge with %d inputs (%s) never returned: every goroutine of the case is parked for good", n, mergePath(n)),
			witness(map[string]any{"goroutines": trunc(dump, 8000)}))
		return
	case vkit.AwaitInconclusive:
		r.Inconclusive(fmt.Sprintf("%s: chans.Merge had not returned after the hard limit but something was still runnable", c.ID()))
		return
	}
	if mergePanic != nil {
		c.Violation("merge-panic", fmt.Sprintf("chans.Merge with %d inputs panicked: %s", n, mergePanic.Msg), witness(map[string]any{"stack": trunc(mergePanic.Stack, 4000)}))
		cleanup(true)
		return
	}
	ret := mergeRet.Load()

	// The caller's slice of inputs is untouched.
	r.Eval(1)
	r.Count("argument integrity checks", "chans.Merge", 1)
	if what := guard.verify(); what != "" {
		c.Violation("merge-argument-mutated", fmt.Sprintf("chans.Merge(out, ins...) with %d inputs (%s) changed the caller's slice of inputs: %s", n, mergePath(n), what), witness(nil))
		cleanup(true)
		return
	}

	// Merge returned: every input's close must have been initiated before (logical clock).
	r.Eval(1)
	for i := range closeCall {
		cc := closeCall[i].Load()
		if cc == 0 || cc > ret {
			c.Violation("return-before-close", fmt.Sprintf("chans.Merge with %d inputs (%s) returned (tick %d) before input %d was closed (close tick %d, 0 = not yet)", n, mergePath(n), ret, i, cc),
				witness(map[string]any{"merge_return_tick": ret, "input": i, "close_call_tick": cc}))
			cleanup(true)
			return
		}
	}
	// Merge does not close out; the harness does now, which ends the consumer after it has drained
	// whatever Merge left in the buffer.
	close(out)
	<-consDone
	pwg.Wait()

	gotVals := make([]uint64, len(got))
	for i, g := range got {
		gotVals[i] = g.v
	}
	r.Eval(1)
	if sig, what, _ := checkValues(gotVals, lens, true); sig != "" {
		c.Violation(sig, fmt.Sprintf("chans.Merge with %d inputs (%s), after it returned and out was drained: %s", n, mergePath(n), what),
			witness(map[string]any{"received": showVals(gotVals)}))
		return
	}
	if p.OutCap == 0 {
		// Unbuffered out: a send completes only with a receiver that had already begun receiving.
		r.Eval(1)
		for k, g := range got {
			if g.call > ret {
				in, seq := unval(g.v)
				c.Violation("return-before-delivery", fmt.Sprintf("chans.Merge returned at tick %d but value %d:%d (position %d) was received by a receive begun at tick %d on an unbuffered out", ret, in, seq, k, g.call),
					witness(map[string]any{"received": showVals(gotVals)}))
				return
			}
		}
	}

	// The same inputs again: every one of them is closed and drained, so a second Merge over the
	// same slice must return having delivered nothing.
	r.Eval(1)
	out2 := make(chan uint64, 4)
	var again *vkit.Panic
	againDone := make(chan struct{})
	go func() {
		defer close(againDone)
		gs.add()
		again = vkit.Try(func() { chans.Merge(out2, ro...) })
	}()
	verdict, dump = vkit.Await(againDone, vkit.AwaitOpts{Relevant: gs.relevant})
	switch verdict {
	case vkit.AwaitStuck:
		c.Violation("merge-again-stuck", fmt.Sprintf("a second chans.Merge over the same %d inputs (%s), all closed and drained by the first, never returned", n, mergePath(n)),
			witness(map[string]any{"goroutines": trunc(dump, 8000), "first_call_received": showVals(gotVals)}))
		return
	case vkit.AwaitInconclusive:
		r.Inconclusive(fmt.Sprintf("%s: the second chans.Merge had not returned after the hard limit but something was still runnable", c.ID()))
		return
	}
	if again != nil {
		c.Violation("merge-panic", fmt.Sprintf("a second chans.Merge over the same %d closed inputs panicked: %s", n, again.Msg), witness(map[string]any{"stack": trunc(again.Stack, 4000)}))
		return
	}
	if k := len(out2); k > 0 {
		c.Violation("unsent-value", fmt.Sprintf("a second chans.Merge over the same %d closed and drained inputs (%s) delivered %d values (first %#x)", n, mergePath(n), k, <-out2), witness(nil))
		return
	}
	if what := guard.verify(); what != "" {
		c.Violation("merge-argument-mutated", fmt.Sprintf("the second chans.Merge(out, ins...) with %d inputs (%s) changed the caller's slice of inputs: %s", n, mergePath(n), what), witness(nil))
		return
	}
	r.Count("chans.Merge called again over the same closed inputs", mergePath(n), 1)

	// Evidence.
	sigIl, switches := interleaving(gotVals)
	total := len(gotVals)
	r.Distinct(p.key() + "|" + sigIl)
	r.Count("chans.Merge values moved", mergePath(n), total)
	if switches > 0 {
		// "interleaved" = the output switched between inputs more often than a concatenation would.
		nonEmpty := 0
		for _, l := range lens {
			if l > 0 {
				nonEmpty++
			}
		}
		if switches >= nonEmpty {
			r.Count("chans.Merge output", "interleaved", 1)
		} else {
			r.Count("chans.Merge output", "concatenated", 1)
		}
	} else {
		r.Count("chans.Merge output", "single-source-or-empty", 1)
	}
	r.Max("chans.Merge", "values in one run", total)
	if r.WantSample() && c.Index%len(arities) >= 2 && total > 0 {
		r.Sample(map[string]any{"case": c.ID(), "function": "chans.Merge", "plan": p, "received": showVals(gotVals), "merge_return_tick": ret})
	}
}

// Wide calls: 64, 65, 100, 130 inputs (bit masks, fixed-size tables and the like end at 64).
var wideCounts = []int{63, 64, 65, 66, 100, 130}

func chansMergeWideCase(c *vkit.Case) {
	if c.R.NViolations() >= maxViolations {
		return
	}
	rnd := c.Rand
	n := wideCounts[c.Index%len(wideCounts)]
	p := mPlan{Label: fmt.Sprintf("wide: %d inputs", n), OutCap: vkit.Pick(rnd, []int{0, 0, 4}), ConsPace: vkit.Pick(rnd, []float64{0, 0, 0.15})}
	for i := 0; i < n; i++ {
		in := mInput{Mode: modeLive, N: rnd.Intn(4), Cap: vkit.Pick(rnd, []int{0, 0, 1, 2}), Intensity: vkit.Pick(rnd, []float64{0, 0.15, 0.4}), CloseLag: rnd.Intn(2)}
		if rnd.Bool(0.1) {
			in.Mode, in.N = modePreclosedEmpty, 0
		}
		p.Inputs = append(p.Inputs, in)
	}
	runMerge(c, p)
}

func replicateWideCase(c *vkit.Case) {
	if c.R.NViolations() >= maxViolations {
		return
	}
	rnd := c.Rand
	nd := []int{1, 2, 63, 64, 65, 66, 100, 130}[c.Index%8]
	p := rPlan{Label: fmt.Sprintf("wide: %d destinations, slow receivers", nd), N: rnd.Range(1, 6), SrcCap: vkit.Pick(rnd, []int{0, 1, 4}), SrcMode: modeLive, SrcPace: vkit.Pick(rnd, []float64{0, 0.15, 0.4})}
	buffered := (c.Index/8)%3 == 2 // a third of the cases: buffered destinations (too small for the source)
	for d := 0; d < nd; d++ {
		capd := 0
		if buffered {
			capd = rnd.Range(1, 2)
		} else if rnd.Bool(0.15) {
			capd = 1
		}
		p.DstCaps = append(p.DstCaps, capd)
		p.DstPace = append(p.DstPace, vkit.Pick(rnd, []float64{0, 0.15, 0.4, 0.8, 1}))
		p.DstLate = append(p.DstLate, vkit.Pick(rnd, []int{0, 0, 1, 3, 8}))
	}
	runReplicate(c, p)
	c.R.Count("chans.Replicate wide", fmt.Sprintf("%d destinations", nd), 1)
}

// ---------------------------------------------------------------------------------------------
// Replicate

type rPlan struct {
	Label    string    `json:"label"`
	N        int       `json:"n"`
	SrcCap   int       `json:"src_cap"`
	SrcMode  int       `json:"src_mode"`
	SrcPace  float64   `json:"src_pacing"`
	CloseLag int       `json:"close_lag"`
	DstCaps  []int     `json:"dst_caps"`
	DstPace  []float64 `json:"dst_pacing"`
	DstLate  []int     `json:"dst_starts_reading_after_n_pauses,omitempty"`
}

func (p rPlan) key() string {
	return fmt.Sprintf("replicate|n=%d|src=%d,%d|dsts=%v", p.N, p.SrcCap, p.SrcMode, p.DstCaps)
}

func genReplicatePlan(c *vkit.Case) rPlan {
	rnd := c.Rand
	maxN := c.R.Scale(10, 40)
	p := rPlan{Label: "random", SrcPace: vkit.Pick(rnd, intensities), CloseLag: vkit.Pick(rnd, []int{0, 0, 1, 3})}
	nd := []int{0, 1, 2, 3, 5}[c.Index%5]
	switch rnd.Weighted([]int{75, 10, 15}) {
	case 0:
		p.SrcMode = modeLive
		if !rnd.Bool(0.1) {
			p.N = rnd.Range(1, maxN)
		}
		p.SrcCap = vkit.Pick(rnd, []int{0, 0, 1, 4})
	case 1:
		p.SrcMode = modePreclosedEmpty
	case 2:
		p.SrcMode = modePrefilledClosed
		p.N = rnd.Range(1, maxN)
		p.SrcCap = p.N
	}
	for d := 0; d < nd; d++ {
		p.DstCaps = append(p.DstCaps, vkit.Pick(rnd, []int{0, 0, 1, 3, 64}))
		p.DstPace = append(p.DstPace, vkit.Pick(rnd, intensities))
	}
	return p
}

func replicateCase(c *vkit.Case) {
	if c.R.NViolations() >= maxViolations {
		return
	}
	runReplicate(c, genReplicatePlan(c))
}

func runReplicate(c *vkit.Case, p rPlan) { isolated(func() { runReplicate1(c, p) }) }

func runReplicate1(c *vkit.Case, p rPlan) {
	r := c.R
	nd := len(p.DstCaps)
	clock := &vkit.Clock{}
	gs := newGset()
	gs.add()

	var vals []uint64
	for s := 0; s < p.N; s++ {
		vals = append(vals, mkval(0, s))
	}
	src := make(chan uint64, p.SrcCap)
	srcPert := vkit.NewPerturber(c.Rand, 16, p.SrcPace)
	dsts := make([]chan uint64, nd)
	so := make([]chan<- uint64, nd)
	perts := make([]*vkit.Perturber, nd)
	gots := make([][]recv, nd)
	dones := make([]chan struct{}, nd)
	for d := 0; d < nd; d++ {
		dsts[d] = make(chan uint64, p.DstCaps[d])
		so[d] = dsts[d]
		perts[d] = vkit.NewPerturber(c.Rand, 16, p.DstPace[d])
		dones[d] = make(chan struct{})
	}
	if nd >= 2 {
		r.Count("chans.Replicate", "dsts>=2", 1)
	}
	r.Count("chans.Replicate dsts", fmt.Sprint(nd), 1)
	r.Count("chans.Replicate src mode", modeNames[p.SrcMode], 1)

	witness := func(extra map[string]any) map[string]any {
		w := map[string]any{"function": "chans.Replicate", "plan": p}
		for k, v := range extra {
			w[k] = v
		}
		return w
	}

	var closeCall atomic.Int64
	var pwg sync.WaitGroup
	switch p.SrcMode {
	case modePreclosedEmpty:
		closeCall.Store(clock.Tick())
		close(src)
	case modePrefilledClosed:
		for _, v := range vals {
			src <- v
		}
		closeCall.Store(clock.Tick())
		close(src)
	default:
		pwg.Add(1)
		go producer(gs, clock, src, vals, srcPert, p.CloseLag, &closeCall, &pwg)
	}
	for d := 0; d < nd; d++ {
		late := 0
		if d < len(p.DstLate) {
			late = p.DstLate[d]
		}
		go func(d, late int) {
			for i := 0; i < late; i++ {
				perts[d].Do()
			}
			consumer(gs, clock, dsts[d], perts[d], &gots[d], dones[d])
		}(d, late)
	}
	guard, so := guardArgs(so, func() chan<- uint64 { return make(chan uint64) })
	var repRet atomic.Int64
	var repPanic *vkit.Panic
	repDone := make(chan struct{})
	go func() {
		defer close(repDone)
		gs.add()
		clock.Tick()
		repPanic = vkit.Try(func() { chans.Replicate((<-chan uint64)(src), so...) })
		repRet.Store(clock.Tick())
	}()
	cleanup := func() {
		go func() {
			for range src {
			}
		}()
		for _, d := range dsts {
			close(d)
		}
	}

	r.Eval(1)
	verdict, dump := vkit.Await(repDone, vkit.AwaitOpts{Relevant: gs.relevant})
	switch verdict {
	case vkit.AwaitStuck:
		c.Violation("replicate-stuck", fmt.Sprintf("chans.Replicate to %d destinations never returned: every goroutine of the case is parked for good", nd),
			witness(map[string]any{"goroutines": trunc(dump, 8000)}))
		return
	case vkit.AwaitInconclusive:
		r.Inconclusive(fmt.Sprintf("%s: chans.Replicate had not returned after the hard limit but something was still runnable", c.ID()))
		return
	}
	if repPanic != nil {
		c.Violation("replicate-panic", "chans.Replicate panicked: "+repPanic.Msg, witness(map[string]any{"stack": trunc(repPanic.Stack, 4000)}))
		cleanup()
		return
	}
	ret := repRet.Load()
	r.Eval(1)
	r.Count("argument integrity checks", "chans.Replicate", 1)
	if what := guard.verify(); what != "" {
		c.Violation("replicate-argument-mutated", fmt.Sprintf("chans.Replicate(src, dsts...) with %d destinations changed the caller's slice of destinations: %s", nd, what), witness(nil))
		cleanup()
		return
	}
	r.Eval(1)
	if cc := closeCall.Load(); cc == 0 || cc > ret {
		c.Violation("return-before-close", fmt.Sprintf("chans.Replicate returned (tick %d) before its source was closed (close tick %d, 0 = not yet)", ret, cc),
			witness(map[string]any{"return_tick": ret, "close_call_tick": cc}))
		cleanup()
		return
	}
	for _, d := range dsts {
		close(d)
	}
	for _, d := range dones {
		<-d
	}
	pwg.Wait()
	for d := 0; d < nd; d++ {
		gv := make([]uint64, len(gots[d]))
		for i, g := range gots[d] {
			gv[i] = g.v
		}
		r.Eval(1)
		if sig, what, _ := checkValues(gv, []int{p.N}, true); sig != "" {
			c.Violation("replicate-"+sig, fmt.Sprintf("chans.Replicate of %d values to %d destinations, destination %d after Replicate returned and it was drained: %s", p.N, nd, d, what),
				witness(map[string]any{"destination": d, "received": showVals(gv)}))
			return
		}
		if p.DstCaps[d] == 0 {
			for k, g := range gots[d] {
				if g.call > ret {
					c.Violation("return-before-delivery", fmt.Sprintf("chans.Replicate returned at tick %d but value #%d reached unbuffered destination %d through a receive begun at tick %d", ret, k, d, g.call),
						witness(map[string]any{"destination": d}))
					return
				}
			}
		}
	}
	r.Distinct(p.key())
	r.Count("chans.Replicate values delivered", fmt.Sprint(nd), p.N*nd)
	if r.WantSample() && nd == 3 && p.N > 0 && p.N < 8 {
		r.Sample(map[string]any{"case": c.ID(), "function": "chans.Replicate", "plan": p, "each_destination_received": showVals(vals), "return_tick": ret})
	}
}

// ---------------------------------------------------------------------------------------------
// Replicate read in rounds: item k from every destination before item k+1 from any, by one
// goroutine going round-robin over unbuffered destinations, or by lock-step consumers with a
// barrier per item. The source is a buffered channel with several items already in it when
// Replicate starts, or is fed item by item.

func replicateDiscCase(c *vkit.Case) {
	if c.R.NViolations() >= maxViolations {
		return
	}
	isolated(func() { replicateDisc1(c) })
}

func replicateDisc1(c *vkit.Case) {
	r := c.R
	rnd := c.Rand
	lockStep := c.Index%2 == 1
	nd := rnd.Range(2, 5)
	n := rnd.Range(2, 10)
	srcCap, prefill := 0, 0
	if (c.Index/2)%3 != 2 { // two thirds: buffered source with items already in it
		srcCap = rnd.Range(2, 8)
		prefill = rnd.Range(2, srcCap)
		if prefill > n {
			prefill = n
		}
	} else if rnd.Bool(0.5) {
		srcCap = 1
	}
	disc := "one goroutine, round-robin"
	if lockStep {
		disc = "lock-step consumers"
	}
	witness := map[string]any{"function": "chans.Replicate", "consumer_discipline": disc, "destinations_unbuffered": nd, "values": n, "src_cap": srcCap, "values_in_src_before_Replicate_starts": prefill}
	clock := &vkit.Clock{}
	gs := newGset()
	gs.add()
	vals := make([]uint64, n)
	for i := range vals {
		vals[i] = mkval(0, i)
	}
	src := make(chan uint64, srcCap)
	for _, v := range vals[:prefill] {
		src <- v
	}
	var closeCall atomic.Int64
	var pwg sync.WaitGroup
	pwg.Add(1)
	go producer(gs, clock, src, vals[prefill:], vkit.NewPerturber(rnd, 16, vkit.Pick(rnd, []float64{0, 0, 0.15, 0.4})), rnd.Intn(2), &closeCall, &pwg)
	dsts := make([]chan uint64, nd)
	so := make([]chan<- uint64, nd)
	gots := make([][]uint64, nd)
	for d := range dsts {
		dsts[d] = make(chan uint64)
		so[d] = dsts[d]
	}
	var cwg sync.WaitGroup
	if lockStep {
		rounds := make([]chan struct{}, n)
		arrived := make([]atomic.Int64, n)
		for k := range rounds {
			rounds[k] = make(chan struct{})
		}
		for d := 0; d < nd; d++ {
			cwg.Add(1)
			pert := vkit.NewPerturber(rnd, 16, vkit.Pick(rnd, []float64{0, 0.15, 0.4}))
			go func(d int) {
				defer cwg.Done()
				gs.add()
				for k := 0; k < n; k++ {
					pert.Do()
					gots[d] = append(gots[d], <-dsts[d])
					if arrived[k].Add(1) == int64(nd) {
						close(rounds[k])
					}
					<-rounds[k]
				}
			}(d)
		}
	} else {
		cwg.Add(1)
		pert := vkit.NewPerturber(rnd, 16, vkit.Pick(rnd, []float64{0, 0, 0.15, 0.4}))
		go func() {
			defer cwg.Done()
			gs.add()
			for k := 0; k < n; k++ {
				for d := 0; d < nd; d++ {
					pert.Do()
					gots[d] = append(gots[d], <-dsts[d])
				}
			}
		}()
	}
	var pn *vkit.Panic
	var repRet atomic.Int64
	all := make(chan struct{})
	go func() {
		defer close(all)
		gs.add()
		pn = vkit.Try(func() { chans.Replicate((<-chan uint64)(src), so...) })
		repRet.Store(clock.Tick())
		cwg.Wait()
	}()
	r.Eval(1)
	verdict, dump := vkit.Await(all, vkit.AwaitOpts{Relevant: gs.relevant})
	switch verdict {
	case vkit.AwaitStuck:
		witness["goroutines"] = trunc(dump, 8000)
		c.Violation("replicate-stuck", fmt.Sprintf("chans.Replicate of %d values (%d already buffered in src) to %d unbuffered destinations read in rounds (%s) deadlocked: every goroutine of the case is parked for good", n, prefill, nd, disc), witness)
		return
	case vkit.AwaitInconclusive:
		r.Inconclusive(fmt.Sprintf("%s: chans.Replicate (readers in rounds) had not finished after the hard limit but something was still runnable", c.ID()))
		return
	}
	pwg.Wait()
	if pn != nil {
		c.Violation("replicate-panic", "chans.Replicate panicked: "+pn.Msg, witness)
		return
	}
	r.Eval(1)
	if cc, ret := closeCall.Load(), repRet.Load(); cc == 0 || cc > ret {
		c.Violation("return-before-close", fmt.Sprintf("chans.Replicate returned (tick %d) before its source was closed (close tick %d)", ret, cc), witness)
		return
	}
	for d := range gots {
		r.Eval(1)
		if sig, what, _ := checkValues(gots[d], []int{n}, true); sig != "" {
			witness["destination"], witness["received"] = d, showVals(gots[d])
			c.Violation("replicate-"+sig, fmt.Sprintf("chans.Replicate of %d values to %d destinations read in rounds (%s), destination %d: %s", n, nd, disc, d, what), witness)
			return
		}
	}
	r.Count("chans.Replicate consumer discipline", disc, 1)
	if prefill >= 2 {
		r.Count("chans.Replicate consumer discipline", "source had >= 2 items buffered when Replicate started", 1)
	}
	r.Distinct(fmt.Sprintf("disc|%v|%d|%d|%d|%d", lockStep, nd, n, srcCap, prefill))
}
