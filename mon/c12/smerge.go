package main

import (
	"context"
	"errors"
	"fmt"
	"sync"
	"sync/atomic"
	"syscall"
	"time"

	"github.com/bradenaw/juniper/stream"

	"verif/vkit"
)

const (
	kindEnd     = iota // hands out its items, then End
	kindFatal          // hands out FatalAt items, then its own error, every time
	kindBlock          // hands out its items, then blocks until its context is done (never ends)
	kindEndless        // a generator: never looks at its context, returns the next value at once, never ends
	kindDeaf           // hands out its items, then sits in Next ignoring its context until the harness releases it (then End)
)

var kindNames = []string{"end", "fatal", "never-ends", "endless-ignores-ctx", "blocked-ignores-ctx"}

// Error values a failing input can return.
const (
	errSentinel      = iota // an error of its own
	errCanceled             // context.Canceled itself, although nobody cancelled the input's context
	errWrapsCanceled        // an error of its own that wraps context.Canceled
	errDeadline             // context.DeadlineExceeded, although the input's context has no deadline
	errWrapsEnd             // an error of its own that wraps stream.End ("truncated: end of stream")
	errIsEnd                // a typed error whose Is method matches stream.End
)

var errKindNames = []string{"sentinel", "context.Canceled", "wraps context.Canceled", "context.DeadlineExceeded", "wraps stream.End", "typed error with Is(stream.End)"}

// endLikeError is an error, not the end of the stream, although errors.Is(e, stream.End) holds.
type endLikeError struct{ input, at int }

func (e *endLikeError) Error() string {
	return fmt.Sprintf("input %d broke off at position %d", e.input, e.at)
}
func (e *endLikeError) Is(target error) bool { return target == stream.End }

var errKilled = errors.New("verif: endless input switched off by the monitor")

// Consumer's per-call contexts on the merged stream.
const (
	ctxLive      = iota // context.Background()
	ctxCancelled        // cancelled before the call
	ctxExpired          // deadline already in the past before the call
	ctxCancelledWhileWaiting
)

var ctxModeNames = []string{"live", "cancelled before the call", "deadline already past", "cancelled while waiting"}

type sInput struct {
	N       int     `json:"n"`
	Kind    int     `json:"kind"`
	FatalAt int     `json:"fatal_at"`
	ErrKind int     `json:"err_kind"`
	Pace    float64 `json:"pacing"`
}

type sPlan struct {
	Label      string   `json:"label"`
	Inputs     []sInput `json:"inputs"`
	CloseAfter int      `json:"close_after"` // -1: read until End / error, then Close
	ConsPace   float64  `json:"consumer_pacing"`
	// ConsCtx[k] is the kind of context the consumer's k-th Next call gets (calls beyond the table
	// get a live one); CtxDelayUs[k] the delay before a "cancelled while waiting" context is cancelled.
	ConsCtx    []int `json:"consumer_ctx,omitempty"`
	CtxDelayUs []int `json:"consumer_ctx_cancel_delay_us,omitempty"`
	// GateClose: every input's Close blocks until the consumer has been told End (the gate is opened
	// only then, or after the verdict). SlowCloseMs: input 0's Close sleeps that long (latency is
	// recorded, not judged).
	GateClose   bool `json:"inputs_close_blocks_until_end_was_seen,omitempty"`
	SlowCloseMs int  `json:"input0_close_sleeps_ms,omitempty"`
	// ReuseArgs: as soon as stream.Merge has returned the caller overwrites its slice of inputs (every
	// cell of the array, spare capacity included) with decoy streams.
	ReuseArgs bool `json:"caller_overwrites_its_slice_after_merge_returned,omitempty"`
}

func (p sPlan) key() string {
	s := fmt.Sprintf("smerge|close=%d|ctx=%v|gate=%v,%d|reuse=%v", p.CloseAfter, p.ConsCtx, p.GateClose, p.SlowCloseMs, p.ReuseArgs)
	for _, in := range p.Inputs {
		s += fmt.Sprintf("|%d,%d,%d,%d", in.N, in.Kind, in.FatalAt, in.ErrKind)
	}
	return s
}

func (p sPlan) usesCtx() bool {
	for _, m := range p.ConsCtx {
		if m != ctxLive {
			return true
		}
	}
	return false
}

// drawConsCtx pre-draws the consumer's per-call contexts. Because the consumer must be able to
// tell its own context's error from an input's, failing inputs of such a plan only use error
// values that are not identical to a context error.
func (p *sPlan) drawConsCtx(rnd *vkit.Rand, share float64) {
	k := rnd.Range(2, 10)
	for i := 0; i < k; i++ {
		m := ctxLive
		if rnd.Bool(share) {
			m = 1 + rnd.Intn(3)
		}
		p.ConsCtx = append(p.ConsCtx, m)
		p.CtxDelayUs = append(p.CtxDelayUs, vkit.Pick(rnd, []int{0, 5, 30, 100, 300}))
	}
	for i := range p.Inputs {
		if p.Inputs[i].ErrKind == errCanceled || p.Inputs[i].ErrKind == errDeadline {
			p.Inputs[i].ErrKind = vkit.Pick(rnd, []int{errSentinel, errWrapsCanceled})
		}
	}
}

func (p sPlan) total() int {
	t := 0
	for _, in := range p.Inputs {
		t += in.N
	}
	return t
}

func (p sPlan) has(kind int) bool {
	for _, in := range p.Inputs {
		if in.Kind == kind {
			return true
		}
	}
	return false
}

// recIn wraps the probe: pacing (time.Sleep / spin from a pre-drawn table, never a timer in a
// select, so that a parked goroutine is really parked) and a record of what the input returned.
type recIn struct {
	p       *vkit.ProbeStream[uint64]
	pert    *vkit.Perturber
	clock   *vkit.Clock
	fatal   error
	unique  bool         // fatal cannot be mistaken for the error of a done context
	endTick atomic.Int64 // tick at which End was first returned
	errTick atomic.Int64 // tick at which the fatal error was first returned
	ctxTick atomic.Int64 // tick at which a context error was first returned
	ctxErr  atomic.Value // that error
	inNext  atomic.Int32

	// kindEndless: never looks at ctx, returns the next value at once, never ends; kill is the
	// monitor's switch that makes it fail so that a goroutine spinning on it can be stopped.
	endless        bool
	idx            int
	seq            atomic.Int64
	kill           atomic.Bool
	nextAfterClose atomic.Int64

	// Close that blocks on a gate / sleeps.
	closeGate chan struct{}

	// kindDeaf: never looks at ctx; after its items it blocks until release is closed, then ends.
	deaf              bool
	release           chan struct{}
	deafBlocked       atomic.Bool
	closeSleep        time.Duration
	closeEntered      atomic.Int64
	closeReturnedWall atomic.Int64
}

func (s *recIn) Next(ctx context.Context) (uint64, error) {
	if s.endless {
		if s.kill.Load() {
			return 0, errKilled
		}
		if s.p.Closes.Load() > 0 {
			s.nextAfterClose.Add(1)
		}
		return mkval(s.idx, int(s.seq.Add(1)-1)), nil
	}
	s.inNext.Add(1)
	defer s.inNext.Add(-1)
	s.pert.Do()
	if s.deaf {
		v, err := s.p.Next(context.Background())
		if err == stream.End {
			s.deafBlocked.Store(true)
			<-s.release
			s.endTick.CompareAndSwap(0, s.clock.Tick())
		}
		return v, err
	}
	v, err := s.p.Next(ctx)
	switch {
	case err == nil:
	case err == stream.End:
		s.endTick.CompareAndSwap(0, s.clock.Tick())
	case s.fatal != nil && err == s.fatal && (s.unique || ctx.Err() == nil):
		// The input failed on its own (if its error is a context error value, only counted as
		// such while the context it was given is still live).
		s.errTick.CompareAndSwap(0, s.clock.Tick())
	default:
		if s.ctxTick.CompareAndSwap(0, s.clock.Tick()) {
			s.ctxErr.Store(err)
		}
	}
	return v, err
}

func (s *recIn) Close() {
	s.closeEntered.Add(1)
	if s.closeGate != nil {
		<-s.closeGate
	}
	if s.closeSleep > 0 {
		time.Sleep(s.closeSleep)
	}
	s.p.Close()
	s.closeReturnedWall.Store(time.Now().UnixNano())
}

const (
	phNext int32 = iota + 1
	phClose
	phDone
)

// outcome of the consumer
const (
	outClosedEarly = iota // stopped reading after CloseAfter items
	outEnd
	outErr
	outGaveUp // an input had failed, the consumer kept getting values of an endless input and no error
)

var outNames = []string{"closed-early", "end", "error", "gave-up"}

// With an endless input the consumer that waits for another input's error cannot wait for ever:
// once that input has returned its error (logical clock, not wall clock) the consumer gives up
// after this many further values without being told (correct code: a handful).
const giveUpAfter = 1_000_000

func runStream(c *vkit.Case, p sPlan) { isolated(func() { runStream1(c, p) }) }

func runStream1(c *vkit.Case, p sPlan) {
	r := c.R
	n := len(p.Inputs)
	clock := &vkit.Clock{}
	gs := newGset()
	gs.add()

	var gate chan struct{}
	var gateOnce sync.Once
	if p.GateClose || p.has(kindDeaf) {
		gate = make(chan struct{})
	}
	openGate := func() {
		if gate != nil {
			gateOnce.Do(func() { close(gate) })
		}
	}
	ins := make([]*recIn, n)
	streams := make([]stream.Stream[uint64], n)
	lens := make([]int, n)
	for i, in := range p.Inputs {
		items := make([]uint64, in.N)
		for s := range items {
			items[s] = mkval(i, s)
		}
		pr := vkit.NewProbeStream(fmt.Sprintf("in%d", i), items)
		pr.HonourCtx = true
		pr.Clock = clock
		ri := &recIn{p: pr, clock: clock, pert: vkit.NewPerturber(c.Rand, 16, in.Pace)}
		if p.GateClose {
			ri.closeGate = gate
		}
		if i == 0 && p.SlowCloseMs > 0 {
			ri.closeSleep = time.Duration(p.SlowCloseMs) * time.Millisecond
		}
		lens[i] = in.N
		switch in.Kind {
		case kindFatal:
			switch in.ErrKind {
			case errCanceled:
				ri.fatal = context.Canceled
			case errWrapsCanceled:
				ri.fatal, ri.unique = fmt.Errorf("input %d failed at position %d: %w", i, in.FatalAt, context.Canceled), true
			case errDeadline:
				ri.fatal = context.DeadlineExceeded
			case errWrapsEnd:
				ri.fatal, ri.unique = fmt.Errorf("input %d truncated at position %d: %w", i, in.FatalAt, stream.End), true
			case errIsEnd:
				ri.fatal, ri.unique = &endLikeError{i, in.FatalAt}, true
			default:
				ri.fatal, ri.unique = fmt.Errorf("fatal error of input %d at position %d", i, in.FatalAt), true
			}
			r.Count("stream.Merge failing input's error value", errKindNames[in.ErrKind], 1)
			pr.FatalAt = in.FatalAt
			pr.Fatal = ri.fatal
			lens[i] = in.FatalAt
		case kindBlock:
			pr.BlockAtEnd = true
		case kindEndless:
			ri.endless, ri.idx = true, i
			lens[i] = 1<<31 - 2
		case kindDeaf:
			ri.deaf, ri.release = true, gate
			pr.HonourCtx = false
		}
		ins[i] = ri
		streams[i] = ri
		r.Count("stream.Merge input plan", kindNames[in.Kind], 1)
	}
	consPert := vkit.NewPerturber(c.Rand, 16, p.ConsPace)
	r.Count("stream.Merge arity", fmt.Sprint(n), 1)

	witness := func(extra map[string]any) map[string]any {
		w := map[string]any{"function": "stream.Merge", "plan": p}
		for k, v := range extra {
			w[k] = v
		}
		return w
	}

	// The inputs are passed as a window into a sentinel-guarded array (argument integrity).
	guard, streams := guardArgs(streams, func() stream.Stream[uint64] { return &recIn{} })
	var m stream.Stream[uint64]
	if pn := vkit.Try(func() { m = stream.Merge(streams...) }); pn != nil {
		c.Violation("smerge-panic", fmt.Sprintf("stream.Merge of %d inputs panicked: %s", n, pn.Msg), witness(map[string]any{"stack": trunc(pn.Stack, 4000)}))
		return
	}
	// The argument list belongs to the caller: once Merge has returned the caller reuses it.
	var decoys []*decoyIn
	if p.ReuseArgs {
		for i := range guard.arr {
			d := &decoyIn{}
			decoys = append(decoys, d)
			guard.arr[i] = d
		}
		copy(guard.orig, guard.arr) // from now on this is what the library must leave alone
	}

	var (
		got      []uint64
		outcome  = outClosedEarly
		repErr   error
		lastCall int64 // tick before the Next that returned End / the error
		lastRet  int64 // tick after it
		closeRet int64
		pn       *vkit.Panic
		phase    atomic.Int32
		calls    []string // the consumer's Next calls made with a context of its own, and what they returned
		ownCtx   int      // how many Next calls returned the error of the consumer's own done context
	)
	done := make(chan struct{})
	hasEndless := p.has(kindEndless)
	var closeStart atomic.Int64 // wall clock at which the consumer called Close (used as a lower bound only)
	go func() {
		defer close(done)
		gs.add()
		errMark := -1
		for call := 0; ; call++ {
			if p.CloseAfter >= 0 && len(got) >= p.CloseAfter {
				break
			}
			if errMark < 0 { // (no pacing once the consumer is only counting down to giving up)
				consPert.Do()
			}
			ctx, cancel, mode := context.Background(), context.CancelFunc(nil), ctxLive
			if call < len(p.ConsCtx) {
				mode = p.ConsCtx[call]
			}
			switch mode {
			case ctxCancelled:
				ctx, cancel = context.WithCancel(ctx)
				cancel()
			case ctxExpired:
				ctx, cancel = context.WithDeadline(ctx, time.Now().Add(-time.Second))
			case ctxCancelledWhileWaiting:
				// Cancelled by a helper that sleeps (never a timer in a select: a goroutine of the
				// case that is asleep keeps the quiescence verdict from being "stuck").
				ctx, cancel = context.WithCancel(ctx)
				d := time.Duration(p.CtxDelayUs[call]) * time.Microsecond
				cc := cancel
				go func() {
					gs.add()
					time.Sleep(d)
					cc()
				}()
			}
			phase.Store(phNext)
			var v uint64
			var err error
			t0 := clock.Tick()
			pn = vkit.Try(func() { v, err = m.Next(ctx) })
			t1 := clock.Tick()
			if pn != nil {
				return
			}
			if mode != ctxLive {
				res := "a value"
				own := err != nil && err != stream.End && ctx.Err() != nil && err == ctx.Err()
				switch {
				case own:
					res = "the consumer's context error"
				case err == stream.End:
					res = "End"
				case err != nil:
					res = "another error"
				}
				r.Count("stream.Merge Next with the consumer's own context: "+ctxModeNames[mode], res, 1)
				if len(calls) < 24 {
					calls = append(calls, fmt.Sprintf("call %d ctx %s -> %s", call, ctxModeNames[mode], res))
				}
				cancel()
				if own {
					// Nothing was consumed and nothing may be lost: carry on.
					ownCtx++
					continue
				}
			}
			if err == stream.End {
				outcome, lastCall, lastRet = outEnd, t0, t1
				break
			}
			if err != nil {
				outcome, repErr, lastCall, lastRet = outErr, err, t0, t1
				break
			}
			got = append(got, v)
			if hasEndless && p.CloseAfter < 0 && len(got)%1024 == 0 {
				if errMark < 0 {
					for _, ri := range ins {
						if ri.errTick.Load() != 0 {
							errMark = len(got)
						}
					}
				} else if len(got)-errMark > giveUpAfter {
					outcome = outGaveUp
					break
				}
			}
		}
		if p.has(kindDeaf) {
			// The verdict (the error arrived while another input sits in a Next that ignores its
			// context) is in: only now the harness lets that input go, so that Close can return.
			blocked := 0
			for _, ri := range ins {
				if ri.deaf && ri.deafBlocked.Load() {
					blocked++
				}
			}
			r.Count("stream.Merge consumer was told ("+outNames[outcome]+") while inputs sat in a context-ignoring Next", fmt.Sprint(blocked), 1)
			openGate()
		}
		if p.GateClose || p.SlowCloseMs > 0 {
			// What the inputs' Close calls were doing when the consumer was told (recorded, not judged).
			entered, returned := 0, 0
			for _, ri := range ins {
				entered += int(ri.closeEntered.Load())
				returned += int(ri.p.Closes.Load())
			}
			if outcome == outEnd {
				r.Count("stream.Merge End arrived while input Close calls were", fmt.Sprintf("blocked or asleep in %d of %d inputs", entered-returned, n), 1)
				if p.SlowCloseMs > 0 {
					if returned < entered || entered < n {
						r.Count("stream.Merge End and a Close that sleeps 20 ms", "End arrived before the slow Close returned", 1)
					} else {
						r.Count("stream.Merge End and a Close that sleeps 20 ms", "End arrived after every Close had returned", 1)
					}
				}
			}
			openGate() // only now: the verdict "End arrives while Close is blocked" is in
		}
		consPert.Do()
		closeStart.Store(time.Now().UnixNano())
		phase.Store(phClose)
		clock.Tick()
		pn = vkit.Try(func() { m.Close() })
		closeRet = clock.Tick()
		phase.Store(phDone)
	}()

	// Neither Next nor Close may block for good. Decided by quiescence, never by the wall clock.
	r.Eval(1)
	opts := vkit.AwaitOpts{Relevant: gs.relevant}
	if p.has(kindEndless) {
		opts.Hard = 15 * time.Second
	}
	verdict, dump := vkit.Await(done, opts)
	closeBlockedFor := func() time.Duration {
		if phase.Load() != phClose {
			return 0
		}
		return time.Since(time.Unix(0, closeStart.Load()))
	}
	for t0 := time.Now(); verdict == vkit.AwaitInconclusive && hasEndless && closeBlockedFor() < 15*time.Second && time.Since(t0) < 90*time.Second; {
		// Still reading (or Close has not been blocked for long enough yet): keep waiting.
		verdict, dump = vkit.Await(done, opts)
	}
	if verdict != vkit.AwaitDone {
		defer openGate()
		// Whatever the verdict, let goroutines that keep pulling from an endless input stop.
		defer func() {
			for _, ri := range ins {
				ri.kill.Store(true)
			}
		}()
	}
	if verdict == vkit.AwaitInconclusive && hasEndless && closeBlockedFor() >= 15*time.Second {
		// Close has been blocked for >= 15 s although every input's Next returns at once or
		// honours the cancelled context (normal: microseconds). Not parked, so not "stuck": is a
		// goroutine of this stream.Merge still running and pulling from its input?
		spins, w := spinningAfterClose(gs, ins, &phase, done)
		if spins {
			c.Violation("smerge-goroutine-spins-after-close", fmt.Sprintf("Close of stream.Merge over %d inputs has not returned after 15 s: a goroutine it started keeps running and keeps pulling from an endless input that ignores its context (consumer had %d items, outcome %s)", n, len(got), outNames[outcome]),
				witness(w))
		} else {
			r.Inconclusive(fmt.Sprintf("%s: Close of stream.Merge with an endless input had not returned after 15 s, but a spinning goroutine could not be established (%v)", c.ID(), w["why_not"]))
		}
		return
	}
	switch verdict {
	case vkit.AwaitStuck:
		ph := phase.Load()
		if ph == phClose {
			c.Violation("smerge-close-stuck", fmt.Sprintf("Close of stream.Merge over %d inputs never returned: every goroutine of the case is parked for good", n),
				witness(map[string]any{"goroutines": trunc(dump, 8000)}))
		} else {
			sig := "smerge-next-stuck"
			if n == 0 {
				sig = "smerge-zero-inputs-never-ends"
			}
			if p.GateClose {
				// Every input is exhausted and everything delivered; only the inputs' Close calls are pending.
				sig = "smerge-end-waits-for-input-close"
			}
			if p.has(kindDeaf) {
				for _, ri := range ins {
					if ri.errTick.Load() != 0 {
						// An input has failed; the only thing pending is an input that sits in Next ignoring its context.
						sig = "smerge-error-withheld"
					}
				}
			}
			what := fmt.Sprintf("Next of stream.Merge over %d inputs never returned although every input has ended, failed, or delivered everything the consumer was still owed: every goroutine of the case is parked for good", n)
			if sig == "smerge-error-withheld" {
				what = fmt.Sprintf("stream.Merge over %d inputs: an input has failed, but the consumer (live context) is not told while another input sits in a Next that ignores its context: every goroutine of the case is parked for good", n)
			}
			c.Violation(sig, what,
				witness(map[string]any{"goroutines": trunc(dump, 8000)}))
		}
		return
	case vkit.AwaitInconclusive:
		r.Inconclusive(fmt.Sprintf("%s: stream.Merge consumer had not finished after the hard limit but something was still runnable", c.ID()))
		return
	}
	if pn != nil {
		c.Violation("smerge-panic", fmt.Sprintf("stream.Merge over %d inputs: Next/Close panicked: %s", n, pn.Msg), witness(map[string]any{"stack": trunc(pn.Stack, 4000)}))
		return
	}
	if p.ReuseArgs {
		r.Eval(1)
		var nexts, closes int64
		for _, d := range decoys {
			nexts += d.nexts.Load()
			closes += d.closes.Load()
		}
		if nexts+closes > 0 {
			c.Violation("smerge-reads-callers-slice-after-return", fmt.Sprintf("stream.Merge over %d inputs kept reading the caller's slice after it had returned: the streams the caller stored there afterwards got %d Next and %d Close calls (consumer received %v)", n, nexts, closes, showVals(got)),
				witness(map[string]any{"received": showVals(got)}))
			return
		}
		r.Count("stream.Merge", "caller overwrote its slice after Merge returned; decoys untouched", 1)
	}

	inputStates := func() []map[string]any {
		var out []map[string]any
		for i, ri := range ins {
			out = append(out, map[string]any{
				"input": i, "handed_out": ri.p.Pos(), "endless_values_handed_out": ri.seq.Load(), "endless_next_after_close": ri.nextAfterClose.Load(), "next_calls": ri.p.Calls.Load(), "closes": ri.p.Closes.Load(),
				"end_tick": ri.endTick.Load(), "fatal_tick": ri.errTick.Load(), "ctx_err_tick": ri.ctxTick.Load(),
				"first_close_tick": ri.p.FirstCloseTick.Load(), "last_next_tick": ri.p.LastNextTick.Load(), "in_next_now": ri.inNext.Load(),
			})
		}
		return out
	}
	hist := func(extra map[string]any) map[string]any {
		w := witness(map[string]any{
			"received": showVals(got), "outcome": outNames[outcome], "last_next_call_tick": lastCall, "last_next_return_tick": lastRet,
			"close_return_tick": closeRet, "inputs": inputStates(),
		})
		if len(calls) > 0 {
			w["consumer_calls_with_own_context"] = calls
		}
		if repErr != nil {
			w["reported_error"] = repErr.Error()
		}
		for k, v := range extra {
			w[k] = v
		}
		return w
	}

	// 1. Values: nothing invented, nothing twice, each input in order; on End everything.
	r.Eval(1)
	if sig, what, _ := checkValues(got, lens, outcome == outEnd && !p.has(kindEndless)); sig != "" {
		c.Violation("smerge-"+sig, fmt.Sprintf("stream.Merge over %d inputs, consumer outcome %s: %s", n, outNames[outcome], what), hist(nil))
		return
	}

	// 2. The way it ended.
	r.Eval(1)
	switch outcome {
	case outGaveUp:
		c.Violation("smerge-error-not-reported", fmt.Sprintf("stream.Merge over %d inputs: an input returned its error, after which the consumer received more than %d further values (of an endless input) and was never told", n, giveUpAfter),
			witness(map[string]any{"inputs": inputStates(), "values_received": len(got)}))
		return
	case outEnd:
		for i, ri := range ins {
			et := ri.endTick.Load()
			if ft := ri.errTick.Load(); ft != 0 && ft < lastRet {
				c.Violation("smerge-error-swallowed", fmt.Sprintf("stream.Merge over %d inputs reported End (tick %d) although input %d had returned its error at tick %d", n, lastRet, i, ft), hist(nil))
				return
			}
			if et == 0 || et > lastRet {
				c.Violation("smerge-early-end", fmt.Sprintf("stream.Merge over %d inputs reported End (tick %d) before input %d had ended (its End tick %d, 0 = never; it had handed out %d of %d items)", n, lastRet, i, et, ri.p.Pos(), lens[i]), hist(nil))
				return
			}
		}
	case outErr:
		ok := false
		for _, ri := range ins {
			if ri.fatal != nil && repErr == ri.fatal {
				if ft := ri.errTick.Load(); ft != 0 && ft < lastRet {
					ok = true
					r.Count("stream.Merge reported error", "an input's own error", 1)
				}
			}
		}
		if !ok {
			// An error an input returned only because the context Merge gave it was done is not the
			// input's own error: if some input had failed on its own, that is what must be reported.
			for i, ri := range ins {
				if ft := ri.errTick.Load(); ft != 0 && ft < lastRet {
					c.Violation("smerge-induced-cancel-reported", fmt.Sprintf("stream.Merge over %d inputs reported %q to a consumer whose context is live, although input %d had failed on its own with %q (tick %d): the error reported is at best the echo of Merge's own cancellation", n, repErr.Error(), i, ri.fatal.Error(), ft), hist(nil))
					return
				}
			}
			// No input failed on its own: an error an input really returned before the report.
			for _, ri := range ins {
				if ct := ri.ctxTick.Load(); ct != 0 && ct < lastRet {
					if e, _ := ri.ctxErr.Load().(error); e != nil && (e == repErr || errors.Is(repErr, e)) {
						ok = true
						r.Count("stream.Merge reported error", "a context error an input returned (not judged)", 1)
					}
				}
			}
		}
		if !ok {
			c.Violation("smerge-foreign-error", fmt.Sprintf("stream.Merge over %d inputs reported error %q, which no input had returned", n, repErr.Error()), hist(nil))
			return
		}
	}

	// 3. After Close returned: no goroutine started by this stream.Merge call survives.
	r.Eval(1)
	r.Count("stream.Merge", "leak checks", 1)
	left := vkit.WaitNoGoroutine(func(g vkit.G) bool { return g.Has("juniper/stream.Merge") && gs.startedHere(g) }, 300*time.Millisecond, 40*time.Millisecond)
	if len(left) > 0 {
		raw := ""
		for _, g := range left {
			raw += g.Raw + "\n\n"
		}
		c.Violation("smerge-goroutine-leak", fmt.Sprintf("after Close of stream.Merge over %d inputs returned (consumer outcome %s after %d items), %d of its goroutines stay parked for good", n, outNames[outcome], len(got), len(left)),
			hist(map[string]any{"goroutines": trunc(raw, 8000)}))
		return
	}

	// The caller's slice of inputs is untouched (the goroutines index it while they run; they are gone now).
	r.Eval(1)
	r.Count("argument integrity checks", "stream.Merge", 1)
	if what := guard.verify(); what != "" {
		c.Violation("smerge-argument-mutated", fmt.Sprintf("stream.Merge(ins...) over %d inputs changed the caller's slice of inputs: %s", n, what), hist(nil))
		return
	}

	// 4. Every input closed exactly once, never used after its Close, never Next || Close.
	r.Eval(1)
	for i, ri := range ins {
		if mis := ri.p.Misuse(true); mis != "" {
			c.Violation("smerge-input-close", fmt.Sprintf("after Close of stream.Merge over %d inputs returned and its goroutines were gone: %s", n, mis), hist(map[string]any{"input": i}))
			return
		}
		if k := ri.nextAfterClose.Load(); k > 0 {
			c.Violation("smerge-input-close", fmt.Sprintf("endless input %d of stream.Merge: %d Next calls after its Close", i, k), hist(map[string]any{"input": i}))
			return
		}
		if k := ri.p.NextDuringNext.Load(); k > 0 {
			c.Violation("smerge-input-concurrent-next", fmt.Sprintf("input %d of stream.Merge had %d overlapping Next calls", i, k), hist(map[string]any{"input": i}))
			return
		}
	}

	// Evidence.
	sigIl, switches := interleaving(got)
	r.Distinct(p.key() + "|" + outNames[outcome] + "|" + sigIl)
	r.Count("stream.Merge outcome", outNames[outcome], 1)
	r.Count("stream.Merge values moved", fmt.Sprint(n), len(got))
	if switches > 0 {
		r.Count("stream.Merge output", "switched between inputs", 1)
	}
	if p.CloseAfter >= 0 && outcome == outClosedEarly {
		k := fmt.Sprint(p.CloseAfter)
		if p.CloseAfter >= 8 {
			k = "8+"
		}
		r.Count("stream.Merge closed after k items", k, 1)
	}
	if p.has(kindBlock) {
		r.Count("stream.Merge", "closed with a never-ending input", 1)
	}
	if p.has(kindEndless) {
		r.Count("stream.Merge closed with an endless input that ignores its context, consumer outcome", outNames[outcome], 1)
	}
	if ownCtx > 0 {
		r.Count("stream.Merge after a Next that returned the consumer's context error, the consumer went on and reached", outNames[outcome], 1)
	}
	if r.WantSample() && n >= 2 && len(got) >= 2 && c.Index%7 == 3 {
		s := map[string]any{"case": c.ID(), "function": "stream.Merge", "plan": p, "received": showVals(got), "outcome": outNames[outcome]}
		if repErr != nil {
			s["reported_error"] = repErr.Error()
		}
		r.Sample(s)
	}
}

// ---------------------------------------------------------------------------------------------
// Generators

type errCombo struct {
	n, i, p int
	others  int // kindEnd or kindBlock
}

var (
	errCombosOnce sync.Once
	errCombosList []errCombo
)

const errLen = 3 // items of the failing input in the enumeration: error positions 0..3

// errCombos enumerates (arity, failing input, error position, plan of the other inputs).
func errCombos() []errCombo {
	errCombosOnce.Do(func() {
		for _, n := range []int{1, 2, 3, 4} {
			for i := 0; i < n; i++ {
				for p := 0; p <= errLen; p++ {
					for _, o := range []int{kindEnd, kindBlock} {
						if n == 1 && o == kindBlock {
							continue
						}
						errCombosList = append(errCombosList, errCombo{n, i, p, o})
					}
				}
			}
		}
		for _, i := range []int{0, 3, 6} {
			for _, p := range []int{0, 2, errLen} {
				for _, o := range []int{kindEnd, kindBlock} {
					errCombosList = append(errCombosList, errCombo{7, i, p, o})
				}
			}
		}
	})
	return errCombosList
}

// smergeErrCase: exactly one input fails, at an enumerated position; the consumer reads until it
// is told.
func smergeErrCase(c *vkit.Case) {
	if c.R.NViolations() >= maxViolations {
		return
	}
	combos := errCombos()
	cb := combos[c.Index%len(combos)]
	rnd := c.Rand
	p := sPlan{Label: fmt.Sprintf("error n=%d input=%d position=%d others=%s", cb.n, cb.i, cb.p, kindNames[cb.others]), CloseAfter: -1, ConsPace: vkit.Pick(rnd, intensities)}
	for i := 0; i < cb.n; i++ {
		in := sInput{Pace: vkit.Pick(rnd, intensities)}
		if i == cb.i {
			in.Kind, in.N, in.FatalAt = kindFatal, errLen, cb.p
			in.ErrKind = (c.Index / len(combos)) % len(errKindNames) // every combination with every error value
		} else {
			in.Kind, in.N = cb.others, rnd.Intn(5)
		}
		p.Inputs = append(p.Inputs, in)
	}
	runStream(c, p)
	if c.Index < len(combos) {
		c.R.Count("stream.Merge", "error combos covered", 1)
	}
	c.R.Count("stream.Merge error position", fmt.Sprintf("after %d items", cb.p), 1)
	c.R.Count("stream.Merge enumerated error value", errKindNames[(c.Index/len(combos))%len(errKindNames)], 1)
	c.R.Count("stream.Merge failing input", fmt.Sprintf("input %d of %d, others %s", cb.i, cb.n, kindNames[cb.others]), 1)
}

func genInputs(c *vkit.Case, n int, weights []int) []sInput {
	rnd := c.Rand
	maxN := c.R.Scale(6, 20)
	var ins []sInput
	for i := 0; i < n; i++ {
		in := sInput{Pace: vkit.Pick(rnd, intensities), Kind: rnd.Weighted(weights)}
		if !rnd.Bool(0.15) {
			in.N = rnd.Range(1, maxN)
		}
		if in.Kind == kindFatal {
			in.FatalAt = rnd.Intn(in.N + 1)
			in.ErrKind = rnd.Weighted([]int{30, 14, 14, 14, 14, 14})
		}
		ins = append(ins, in)
	}
	return ins
}

// smergeCloseCase: the consumer closes after k items, for every k the plan allows.
func smergeCloseCase(c *vkit.Case) {
	if c.R.NViolations() >= maxViolations {
		return
	}
	rnd := c.Rand
	n := arities[c.Index%len(arities)]
	p := sPlan{Label: "close-after-k", ConsPace: vkit.Pick(rnd, intensities)}
	p.Inputs = genInputs(c, n, []int{45, 12, 43})
	// With a never-ending input and no failing one the consumer may only ask for what exists.
	p.CloseAfter = rnd.Intn(p.total() + 1)
	if rnd.Bool(0.25) && p.total() >= 1 {
		p.CloseAfter = rnd.Intn(2)
	}
	runStream(c, p)
}

// smergeRandCase: anything, including reading to the end.
func smergeRandCase(c *vkit.Case) {
	if c.R.NViolations() >= maxViolations {
		return
	}
	rnd := c.Rand
	n := arities[c.Index%len(arities)]
	p := sPlan{Label: "random", ConsPace: vkit.Pick(rnd, intensities)}
	switch rnd.Intn(3) {
	case 0: // all inputs end: the merged stream must report End with everything delivered
		p.Inputs = genInputs(c, n, []int{1, 0, 0})
		p.CloseAfter = -1
	case 1: // ends and failures
		p.Inputs = genInputs(c, n, []int{70, 30, 0})
		p.CloseAfter = -1
		if rnd.Bool(0.3) {
			p.CloseAfter = rnd.Intn(p.total() + 2)
		}
	default:
		p.Inputs = genInputs(c, n, []int{50, 20, 30})
		if p.has(kindBlock) && !p.has(kindFatal) {
			p.CloseAfter = rnd.Intn(p.total() + 1)
		} else if rnd.Bool(0.5) {
			p.CloseAfter = -1
		} else {
			p.CloseAfter = rnd.Intn(p.total() + 2)
		}
	}
	if rnd.Bool(0.25) {
		p.drawConsCtx(rnd, 0.4)
	}
	runStream(c, p)
}

// smergeCtxCase: the consumer gives some Next calls a context that is already done or is
// cancelled while it waits, then carries on with a live one: nothing may be lost or duplicated and
// the stream must still end (or fail with an input's error) as if those calls had not been made.
func smergeCtxCase(c *vkit.Case) {
	if c.R.NViolations() >= maxViolations {
		return
	}
	rnd := c.Rand
	n := arities[1+c.Index%(len(arities)-1)]
	p := sPlan{Label: "consumer-contexts", ConsPace: vkit.Pick(rnd, intensities), CloseAfter: -1}
	switch rnd.Intn(4) {
	case 0, 1: // healthy inputs: exactly the union, then End
		p.Inputs = genInputs(c, n, []int{1, 0, 0})
	case 2:
		p.Inputs = genInputs(c, n, []int{70, 30, 0})
	default:
		p.Inputs = genInputs(c, n, []int{50, 15, 35})
		if p.has(kindBlock) && !p.has(kindFatal) {
			p.CloseAfter = rnd.Intn(p.total() + 1)
		}
	}
	p.drawConsCtx(rnd, 0.5)
	if c.Index%3 == 0 {
		p.ConsCtx[0] = 1 + (c.Index/3)%3 // the very first call, before anything can be ready
	}
	runStream(c, p)
	if p.usesCtx() {
		c.R.Count("stream.Merge", "plans with consumer contexts", 1)
	}
}

// smergeEndlessCase: one or two inputs are generators that never look at their context and never
// end; the consumer closes after k items, or reads until another input fails and then closes.
// Close must return: the generator's goroutine has to stop at its first failed Send.
func smergeEndlessCase(c *vkit.Case) {
	if c.R.NViolations() >= maxViolations {
		return
	}
	rnd := c.Rand
	n := arities[1+c.Index%(len(arities)-1)]
	p := sPlan{Label: "endless-input", ConsPace: vkit.Pick(rnd, intensities)}
	if c.Index%2 == 0 || n == 1 {
		p.Label += ", close after k"
		p.Inputs = genInputs(c, n, []int{40, 20, 40})
		p.CloseAfter = rnd.Intn(13)
	} else {
		p.Label += ", another input fails"
		p.Inputs = genInputs(c, n, []int{50, 0, 50})
		f := rnd.Intn(n)
		p.Inputs[f].Kind = kindFatal
		p.Inputs[f].N = rnd.Intn(4)
		p.Inputs[f].FatalAt = rnd.Intn(p.Inputs[f].N + 1)
		p.Inputs[f].ErrKind = rnd.Intn(len(errKindNames))
		p.CloseAfter = -1
	}
	// The endless ones (never the failing one of the second kind).
	k := 1
	if n >= 3 && rnd.Bool(0.3) {
		k = 2
	}
	for _, i := range rnd.Perm(n) {
		if k > 0 && !(p.CloseAfter == -1 && p.Inputs[i].Kind == kindFatal) {
			p.Inputs[i] = sInput{Kind: kindEndless}
			k--
		}
	}
	if !p.has(kindEndless) { // n == 1 and it fails: make it the close-after-k kind
		p.Inputs[0] = sInput{Kind: kindEndless}
		p.CloseAfter = rnd.Intn(13)
	}
	runStream(c, p)
	c.R.Count("stream.Merge", "plans with an endless input that ignores its context", 1)
}

// cpuSeconds is the CPU time (user + system) this process has used.
func cpuSeconds() float64 {
	var ru syscall.Rusage
	if err := syscall.Getrusage(syscall.RUSAGE_SELF, &ru); err != nil {
		return -1
	}
	tv := func(t syscall.Timeval) float64 { return float64(t.Sec) + float64(t.Usec)/1e6 }
	return tv(ru.Utime) + tv(ru.Stime)
}

// spinningAfterClose decides, for a Close that has been blocked for a long time without being
// parked for good, whether a goroutine of this stream.Merge is spinning: in two dumps 2 s apart a
// goroutine started by this case with a stream.Merge frame is running / runnable while Close is
// still blocked, the process burned >= 1.5 s of CPU in between, and the endless inputs were asked
// for >= 1000 further values in between (on correct code: at most one per input after Close).
// Anything less is no verdict.
func spinningAfterClose(gs *gset, ins []*recIn, phase *atomic.Int32, done <-chan struct{}) (bool, map[string]any) {
	look := func() (string, int64) {
		raw := ""
		for _, g := range vkit.Goroutines() {
			if gs.startedHere(g) && g.Has("juniper/stream.Merge") && (g.State == "running" || g.State == "runnable") {
				raw += g.Raw + "\n\n"
			}
		}
		var pulled int64
		for _, ri := range ins {
			pulled += ri.seq.Load()
		}
		return raw, pulled
	}
	closed := func() bool {
		select {
		case <-done:
			return true
		default:
			return phase.Load() != phClose
		}
	}
	cpu0 := cpuSeconds()
	d0, n0 := look()
	time.Sleep(2 * time.Second)
	d1, n1 := look()
	cpu1 := cpuSeconds()
	w := map[string]any{"cpu_seconds_between_dumps": cpu1 - cpu0, "values_pulled_from_endless_inputs_between_dumps": n1 - n0,
		"running_goroutines_first_dump": trunc(d0, 4000), "running_goroutines_second_dump": trunc(d1, 4000)}
	switch {
	case closed():
		w["why_not"] = "Close returned meanwhile"
	case d0 == "" || d1 == "":
		w["why_not"] = "no running stream.Merge goroutine of the case in both dumps"
	case cpu0 < 0 || cpu1-cpu0 < 1.5:
		w["why_not"] = fmt.Sprintf("only %.2f s of CPU in 2 s", cpu1-cpu0)
	case n1-n0 < 1000:
		w["why_not"] = fmt.Sprintf("only %d values pulled in 2 s", n1-n0)
	default:
		return true, w
	}
	return false, w
}

// smergeDeafCase: one input fails with E while one or two others sit in a Next that ignores its
// context (blocked on a channel the harness keeps open). The consumer, whose context is live, must be
// told E while they are still blocked; only then the harness releases them.
func smergeDeafCase(c *vkit.Case) {
	if c.R.NViolations() >= maxViolations {
		return
	}
	rnd := c.Rand
	n := []int{2, 3, 4, 7}[c.Index%4]
	p := sPlan{Label: "an input fails while another is blocked in a context-ignoring Next", ConsPace: vkit.Pick(rnd, intensities), CloseAfter: -1}
	p.Inputs = genInputs(c, n, []int{60, 0, 40})
	perm := rnd.Perm(n)
	f := perm[0]
	p.Inputs[f] = sInput{Kind: kindFatal, N: 3, FatalAt: rnd.Intn(4), ErrKind: (c.Index / 4) % len(errKindNames), Pace: vkit.Pick(rnd, intensities)}
	p.Inputs[perm[1]] = sInput{Kind: kindDeaf, N: rnd.Intn(3), Pace: vkit.Pick(rnd, intensities)}
	if n >= 4 && rnd.Bool(0.4) {
		p.Inputs[perm[2]] = sInput{Kind: kindDeaf, N: rnd.Intn(3), Pace: vkit.Pick(rnd, intensities)}
	}
	runStream(c, p)
	c.R.Count("stream.Merge", "plans: an input fails while another is blocked in a context-ignoring Next", 1)
}

// decoyIn is what the caller stores in its slice after stream.Merge has returned: nobody may touch it.
type decoyIn struct {
	nexts, closes atomic.Int64
}

func (d *decoyIn) Next(ctx context.Context) (uint64, error) {
	switch k := d.nexts.Add(1); k {
	case 1, 2:
		neg := int64(-900) - k // -901, -902
		return uint64(neg), nil
	}
	return 0, stream.End
}
func (d *decoyIn) Close() { d.closes.Add(1) }

// smergeReuseCase: the caller reuses its slice of inputs right after stream.Merge has returned; the
// merged stream must still be the merge of the ORIGINAL inputs, each of them closed exactly once.
func smergeReuseCase(c *vkit.Case) {
	if c.R.NViolations() >= maxViolations {
		return
	}
	rnd := c.Rand
	n := 1 + c.Index%7
	p := sPlan{Label: "caller reuses its slice after Merge returned", ConsPace: vkit.Pick(rnd, intensities), CloseAfter: -1, ReuseArgs: true}
	if c.Index%5 == 4 {
		p.Inputs = genInputs(c, n, []int{60, 20, 20})
		if p.has(kindBlock) && !p.has(kindFatal) {
			p.CloseAfter = rnd.Intn(p.total() + 1)
		}
	} else {
		p.Inputs = genInputs(c, n, []int{1, 0, 0})
	}
	runStream(c, p)
}

// smergeGateCase: every input is finite; every input's Close blocks until the consumer has seen
// End. The merged stream must end when the inputs are exhausted and everything is delivered, not
// when their Close calls have returned.
func smergeGateCase(c *vkit.Case) {
	if c.R.NViolations() >= maxViolations {
		return
	}
	rnd := c.Rand
	n := arities[1+c.Index%(len(arities)-1)]
	p := sPlan{Label: "close-blocks-until-End-was-seen", ConsPace: vkit.Pick(rnd, intensities), CloseAfter: -1, GateClose: true}
	p.Inputs = genInputs(c, n, []int{1, 0, 0})
	if c.Index%16 == 15 {
		p.Label, p.GateClose, p.SlowCloseMs = "slow-close (latency recorded only)", false, 20
	}
	runStream(c, p)
	if p.GateClose {
		c.R.Count("stream.Merge", "plans whose inputs' Close blocks until End was seen", 1)
	}
}

// ---------------------------------------------------------------------------------------------
// Named regression scenarios for the defects already repaired in /repo (DESIGN section 5).

const nRegress = 14

func regressCase(c *vkit.Case) {
	if c.R.NViolations() >= maxViolations {
		return
	}
	rnd := c.Rand
	pace := func() float64 { return vkit.Pick(rnd, intensities) }
	name := ""
	switch c.Index % nRegress {
	case 0:
		name = "D7 stream.Merge() of zero inputs reports End"
		runStream(c, sPlan{Label: name, CloseAfter: -1})
	case 1:
		name = "D7 stream.Merge() of zero inputs, closed unread"
		runStream(c, sPlan{Label: name, CloseAfter: 0})
	case 2:
		name = "D8 Close while every input is blocked in Next for good"
		n := rnd.Range(1, 4)
		p := sPlan{Label: name, ConsPace: pace()}
		for i := 0; i < n; i++ {
			p.Inputs = append(p.Inputs, sInput{N: rnd.Intn(3), Kind: kindBlock, Pace: pace()})
		}
		p.CloseAfter = p.total()
		runStream(c, p)
	case 3:
		name = "D8 Close at once, inputs that never end and never get to deliver"
		n := rnd.Range(1, 7)
		p := sPlan{Label: name, CloseAfter: 0}
		for i := 0; i < n; i++ {
			p.Inputs = append(p.Inputs, sInput{N: rnd.Intn(3), Kind: kindBlock, Pace: pace()})
		}
		runStream(c, p)
	case 4:
		name = "D4 inputs are closed after the merged stream was read to End"
		n := rnd.Range(1, 4)
		p := sPlan{Label: name, CloseAfter: -1, ConsPace: pace()}
		for i := 0; i < n; i++ {
			p.Inputs = append(p.Inputs, sInput{N: rnd.Intn(4), Kind: kindEnd, Pace: pace()})
		}
		runStream(c, p)
	case 5:
		name = "D4/D8 inputs are closed and goroutines gone after an input error, siblings never end"
		n := rnd.Range(2, 4)
		p := sPlan{Label: name, CloseAfter: -1, ConsPace: pace()}
		f := rnd.Intn(n)
		for i := 0; i < n; i++ {
			in := sInput{N: rnd.Intn(4), Kind: kindBlock, Pace: pace()}
			if i == f {
				in.Kind = kindFatal
				in.FatalAt = rnd.Intn(in.N + 1)
			}
			p.Inputs = append(p.Inputs, in)
		}
		runStream(c, p)
	case 8:
		name = "an input that fails with context.Canceled (or an error wrapping it) of its own is reported, not taken for End"
		n := rnd.Range(1, 4)
		p := sPlan{Label: name, CloseAfter: -1, ConsPace: pace()}
		f := rnd.Intn(n)
		for i := 0; i < n; i++ {
			in := sInput{N: rnd.Range(1, 4), Kind: kindEnd, Pace: pace()}
			if i == f {
				in.Kind, in.FatalAt, in.ErrKind = kindFatal, rnd.Intn(in.N), []int{errCanceled, errWrapsCanceled}[(c.Index/nRegress)%2]
			}
			p.Inputs = append(p.Inputs, in)
		}
		runStream(c, p)
	case 9:
		name = "a Next that ends on the consumer's own done context does not poison later Next calls"
		n := rnd.Range(1, 3)
		p := sPlan{Label: name, CloseAfter: -1, ConsPace: pace(), ConsCtx: []int{1 + (c.Index/nRegress)%3, ctxLive, 1 + rnd.Intn(3)}, CtxDelayUs: []int{20, 0, 100}}
		for i := 0; i < n; i++ {
			p.Inputs = append(p.Inputs, sInput{N: rnd.Range(1, 4), Kind: kindEnd, Pace: vkit.Pick(rnd, []float64{0.4, 0.8, 1})})
		}
		runStream(c, p)
	case 10:
		name = "Close after k items returns although an input is an endless generator that ignores its context"
		n := rnd.Range(1, 3)
		p := sPlan{Label: name, CloseAfter: rnd.Intn(6), ConsPace: pace()}
		for i := 0; i < n; i++ {
			p.Inputs = append(p.Inputs, sInput{N: rnd.Intn(3), Kind: vkit.Pick(rnd, []int{kindEnd, kindBlock}), Pace: pace()})
		}
		p.Inputs[rnd.Intn(n)] = sInput{Kind: kindEndless}
		runStream(c, p)
	case 11:
		name = "an input fails while an endless generator that ignores its context keeps producing: error reported, Close returns"
		n := rnd.Range(2, 4)
		p := sPlan{Label: name, CloseAfter: -1, ConsPace: pace()}
		for i := 0; i < n; i++ {
			p.Inputs = append(p.Inputs, sInput{N: rnd.Intn(3), Kind: vkit.Pick(rnd, []int{kindEnd, kindBlock}), Pace: pace()})
		}
		f := rnd.Intn(n)
		p.Inputs[f] = sInput{N: 3, Kind: kindFatal, FatalAt: rnd.Intn(4), ErrKind: rnd.Intn(len(errKindNames)), Pace: pace()}
		p.Inputs[(f+1+rnd.Intn(n-1))%n] = sInput{Kind: kindEndless}
		runStream(c, p)
	case 12:
		name = "End arrives when the inputs are exhausted, not when their Close calls have returned (Close blocks until End was seen)"
		n := rnd.Range(1, 4)
		p := sPlan{Label: name, CloseAfter: -1, ConsPace: pace(), GateClose: true}
		for i := 0; i < n; i++ {
			p.Inputs = append(p.Inputs, sInput{N: rnd.Intn(4), Kind: kindEnd, Pace: pace()})
		}
		runStream(c, p)
	case 13:
		name = "an input's error is reported while another input is still blocked in a Next that ignores its context"
		n := rnd.Range(2, 4)
		p := sPlan{Label: name, CloseAfter: -1, ConsPace: pace()}
		for i := 0; i < n; i++ {
			p.Inputs = append(p.Inputs, sInput{N: rnd.Intn(3), Kind: vkit.Pick(rnd, []int{kindEnd, kindBlock}), Pace: pace()})
		}
		f := rnd.Intn(n)
		p.Inputs[f] = sInput{N: 3, Kind: kindFatal, FatalAt: rnd.Intn(4), ErrKind: rnd.Intn(len(errKindNames)), Pace: pace()}
		p.Inputs[(f+1+rnd.Intn(n-1))%n] = sInput{Kind: kindDeaf, N: rnd.Intn(3), Pace: pace()}
		runStream(c, p)
	case 6:
		name = "chans.Merge of zero inputs returns"
		runMerge(c, mPlan{Label: name, OutCap: rnd.Intn(2)})
	case 7:
		name = "chans.Merge of inputs that all end immediately returns"
		n := arities[1+rnd.Intn(len(arities)-1)]
		p := mPlan{Label: name, OutCap: rnd.Intn(2)}
		for i := 0; i < n; i++ {
			p.Inputs = append(p.Inputs, mInput{Mode: vkit.Pick(rnd, []int{modeLive, modePreclosedEmpty}), Intensity: pace()})
		}
		runMerge(c, p)
	}
	c.R.Count("regression scenarios", name, 1)
}
