package main

import (
	"context"
	"errors"
	"fmt"
	"sync"
	"sync/atomic"
	"time"

	"github.com/bradenaw/juniper/chans"
	"github.com/bradenaw/juniper/iterator"
	"github.com/bradenaw/juniper/stream"

	"verif/vkit"
)

// ---------------------------------------------------------------------------------------------
// stream.Merge over the library's OWN streams (no probes): Empty, FromIterator, Chan of a closed
// channel, a finished Pipe receiver, a nested Merge, Error.

const (
	libEmpty        = iota // stream.Empty()
	libIterEmpty           // stream.FromIterator(iterator.Empty())
	libIterSlice           // stream.FromIterator(iterator.Slice(values))
	libChanClosed          // stream.Chan of a channel holding its values, already closed
	libPipeFinished        // receiver of a Pipe whose sender sent its values and closed
	libNested              // stream.Merge(stream.Empty(), stream.FromIterator(...))
	libError               // stream.Error(err)
)

var libNames = []string{"stream.Empty", "FromIterator(iterator.Empty)", "FromIterator(iterator.Slice)", "Chan(closed channel)", "finished Pipe receiver", "nested Merge", "stream.Error"}

type libInput struct {
	Kind int `json:"kind"`
	N    int `json:"n"`
}

func (in libInput) String() string { return fmt.Sprintf("%s/%d", libNames[in.Kind], in.N) }

func smergeLibCase(c *vkit.Case) {
	if c.R.NViolations() >= maxViolations {
		return
	}
	isolated(func() { smergeLib1(c) })
}

func smergeLib1(c *vkit.Case) {
	r := c.R
	rnd := c.Rand
	var plan []libInput
	label := ""
	real := func() libInput { // a short real input that finishes at once
		k := vkit.Pick(rnd, []int{libIterEmpty, libIterSlice, libChanClosed, libPipeFinished, libNested})
		in := libInput{Kind: k}
		if k != libIterEmpty {
			in.N = rnd.Intn(3)
		}
		return in
	}
	switch sel := c.Index % 4; sel {
	case 0: // every input is stream.Empty(), arities 1..7
		n := 1 + (c.Index/4)%7
		label = fmt.Sprintf("all %d inputs are stream.Empty()", n)
		for i := 0; i < n; i++ {
			plan = append(plan, libInput{Kind: libEmpty})
		}
	case 1: // stream.Empty() at every position among short real inputs that finish at once
		n := 2 + (c.Index/4)%6
		pos := (c.Index / 24) % n
		label = fmt.Sprintf("stream.Empty() at position %d of %d, the others finish at once", pos, n)
		for i := 0; i < n; i++ {
			if i == pos || rnd.Bool(0.25) {
				plan = append(plan, libInput{Kind: libEmpty})
			} else {
				plan = append(plan, real())
			}
		}
	case 2: // instantly finished inputs first, stream.Empty() last (the launch loop's last step)
		n := 2 + (c.Index/4)%6
		label = fmt.Sprintf("%d instantly finished inputs, then stream.Empty()", n-1)
		for i := 0; i < n-1; i++ {
			plan = append(plan, libInput{Kind: vkit.Pick(rnd, []int{libIterEmpty, libChanClosed, libPipeFinished})})
		}
		plan = append(plan, libInput{Kind: libEmpty})
	default: // any mixture, sometimes with a stream.Error
		n := rnd.Range(1, 7)
		label = "mixture"
		for i := 0; i < n; i++ {
			if rnd.Bool(0.3) {
				plan = append(plan, libInput{Kind: libEmpty})
			} else {
				in := real()
				if in.Kind != libIterEmpty {
					in.N = rnd.Intn(6)
				}
				plan = append(plan, in)
			}
		}
		if rnd.Bool(0.25) {
			plan[rnd.Intn(n)] = libInput{Kind: libError}
			label += " with a stream.Error"
		}
	}
	n := len(plan)
	clock := &vkit.Clock{}
	gs := newGset()
	gs.add()
	errIn := errors.New("verif: the error of the stream.Error input")
	hasErr := false
	lens := make([]int, n)
	ins := make([]stream.Stream[uint64], n)
	for i, in := range plan {
		vals := make([]uint64, in.N)
		for s := range vals {
			vals[s] = mkval(i, s)
		}
		lens[i] = in.N
		switch in.Kind {
		case libEmpty:
			ins[i] = stream.Empty[uint64]()
		case libIterEmpty:
			ins[i] = stream.FromIterator(iterator.Empty[uint64]())
		case libIterSlice:
			ins[i] = stream.FromIterator(iterator.Slice(vals))
		case libChanClosed:
			ch := make(chan uint64, len(vals))
			for _, v := range vals {
				ch <- v
			}
			close(ch)
			ins[i] = stream.Chan((<-chan uint64)(ch))
		case libPipeFinished:
			snd, rcv := stream.Pipe[uint64](len(vals))
			for _, v := range vals {
				if ok, err := snd.TrySend(context.Background(), v); !ok || err != nil {
					r.Inconclusive(fmt.Sprintf("%s: could not fill a Pipe of sufficient capacity (%v, %v)", c.ID(), ok, err))
					return
				}
			}
			snd.Close(nil)
			ins[i] = rcv
		case libNested:
			ins[i] = stream.Merge(stream.Empty[uint64](), stream.FromIterator(iterator.Slice(vals)))
		case libError:
			ins[i] = stream.Error[uint64](errIn)
			hasErr = true
		}
		r.Count("stream.Merge over the library's own streams, input", libNames[in.Kind], 1)
	}
	witness := map[string]any{"function": "stream.Merge", "scenario": label, "inputs": fmt.Sprint(plan)}
	guard, ins := guardArgs(ins, func() stream.Stream[uint64] { return &recIn{} })

	var m stream.Stream[uint64]
	if pn := vkit.Try(func() { m = stream.Merge(ins...) }); pn != nil {
		c.Violation("smerge-panic", "stream.Merge panicked: "+pn.Msg, witness)
		return
	}
	var (
		got    []uint64
		repErr error
		ended  bool
		pn     *vkit.Panic
		phase  atomic.Int32
	)
	done := make(chan struct{})
	go func() {
		defer close(done)
		gs.add()
		phase.Store(phNext)
		for {
			var v uint64
			var err error
			pn = vkit.Try(func() { v, err = m.Next(context.Background()) })
			if pn != nil {
				return
			}
			if err == stream.End {
				ended = true
				break
			}
			if err != nil {
				repErr = err
				break
			}
			got = append(got, v)
		}
		clock.Tick()
		phase.Store(phClose)
		pn = vkit.Try(func() { m.Close() })
		phase.Store(phDone)
	}()
	r.Eval(1)
	verdict, dump := vkit.Await(done, vkit.AwaitOpts{Relevant: gs.relevant})
	switch verdict {
	case vkit.AwaitStuck:
		witness["goroutines"] = trunc(dump, 8000)
		if phase.Load() == phClose {
			c.Violation("smerge-close-stuck", fmt.Sprintf("Close of stream.Merge over %d library streams (%s) never returned", n, label), witness)
		} else {
			c.Violation("smerge-next-stuck", fmt.Sprintf("stream.Merge over %d library streams (%s): every input is exhausted at once, yet Next never returned: every goroutine of the case is parked for good", n, label), witness)
		}
		return
	case vkit.AwaitInconclusive:
		r.Inconclusive(fmt.Sprintf("%s: consumer had not finished after the hard limit but something was still runnable", c.ID()))
		return
	}
	witness["received"] = showVals(got)
	if pn != nil {
		c.Violation("smerge-panic", "stream.Merge Next/Close panicked: "+pn.Msg, witness)
		return
	}
	r.Eval(1)
	if sig, what, _ := checkValues(got, lens, ended); sig != "" {
		c.Violation("smerge-"+sig, fmt.Sprintf("stream.Merge over %d library streams (%s): %s", n, label, what), witness)
		return
	}
	r.Eval(1)
	switch {
	case ended && hasErr:
		c.Violation("smerge-error-swallowed", fmt.Sprintf("stream.Merge over %d library streams (%s) reported End although one input is stream.Error", n, label), witness)
		return
	case !ended && (!hasErr || repErr != errIn):
		witness["reported_error"] = repErr.Error()
		c.Violation("smerge-foreign-error", fmt.Sprintf("stream.Merge over %d library streams (%s) reported %q, which no input returned", n, label, repErr.Error()), witness)
		return
	}
	r.Eval(1)
	left := vkit.WaitNoGoroutine(func(g vkit.G) bool { return g.Has("juniper/stream.Merge") && gs.startedHere(g) }, 300*time.Millisecond, 40*time.Millisecond)
	if len(left) > 0 {
		c.Violation("smerge-goroutine-leak", fmt.Sprintf("after Close of stream.Merge over %d library streams (%s), %d of its goroutines stay parked for good", n, label, len(left)), witness)
		return
	}
	// (all library streams used here are pointers or comparable structs, so identity can be compared)
	if w := guard.verify(); w != "" {
		c.Violation("smerge-argument-mutated", fmt.Sprintf("stream.Merge(ins...) over %d library streams changed the caller's slice of inputs: %s", n, w), witness)
		return
	}
	what := "mixture"
	switch c.Index % 4 {
	case 0:
		what = fmt.Sprintf("all %d inputs stream.Empty()", n)
	case 1:
		what = "stream.Empty() at an enumerated position"
	case 2:
		what = "stream.Empty() after instantly finished inputs"
	}
	r.Count("stream.Merge over the library's own streams", what, 1)
	r.Distinct("lib|" + fmt.Sprint(plan) + "|" + fmt.Sprint(ended))
}

// ---------------------------------------------------------------------------------------------
// chans.Merge whose buffered inputs have a second receiver (a plain goroutine, or a second Merge
// over the same slice): every value Merge outputs was sent, and across Merge's output and the
// competitor's receipts every sent value appears exactly once.

var sharedArities = []int{1, 2, 3, 4, 5, 7}

func chansSharedCase(c *vkit.Case) {
	if c.R.NViolations() >= maxViolations {
		return
	}
	isolated(func() { chansShared1(c) })
}

func chansShared1(c *vkit.Case) {
	r := c.R
	rnd := c.Rand
	n := sharedArities[c.Index%len(sharedArities)]
	secondMerge := (c.Index/len(sharedArities))%4 == 3 // the competitor is a second chans.Merge over the same slice
	type inp struct {
		N, Cap int
		Shared bool
	}
	plan := make([]inp, n)
	anyShared := false
	for i := range plan {
		plan[i] = inp{N: rnd.Range(0, 12), Cap: vkit.Pick(rnd, []int{0, 1, 1, 2, 3, 4, 8}), Shared: secondMerge || rnd.Bool(0.6)}
		anyShared = anyShared || plan[i].Shared
	}
	if !anyShared {
		plan[rnd.Intn(n)].Shared = true
	}
	for i := range plan { // a shared input is buffered
		if plan[i].Shared && plan[i].Cap == 0 && !secondMerge {
			plan[i].Cap = rnd.Range(1, 8)
		}
	}
	outCap := vkit.Pick(rnd, []int{0, 0, 1, 4})
	witness := map[string]any{"function": "chans.Merge", "scenario": "buffered inputs shared with a competing receiver", "inputs(n,cap,shared)": fmt.Sprint(plan), "out_cap": outCap, "competitor_is_a_second_Merge": secondMerge}

	clock := &vkit.Clock{}
	gs := newGset()
	gs.add()
	chs := make([]chan uint64, n)
	ro := make([]<-chan uint64, n)
	lens := make([]int, n)
	closeCall := make([]atomic.Int64, n)
	var pwg sync.WaitGroup
	for i, in := range plan {
		chs[i] = make(chan uint64, in.Cap)
		ro[i] = chs[i]
		lens[i] = in.N
	}
	for i, in := range plan {
		vals := make([]uint64, in.N)
		for s := range vals {
			vals[s] = mkval(i, s)
		}
		pwg.Add(1)
		go producer(gs, clock, chs[i], vals, vkit.NewPerturber(rnd, 16, vkit.Pick(rnd, intensities)), vkit.Pick(rnd, []int{0, 0, 0, 1}), &closeCall[i], &pwg)
	}
	// Competitors.
	var cwg sync.WaitGroup
	var cmu sync.Mutex
	var comp []uint64
	out2 := make(chan uint64, 1)
	var got2 []recv
	cons2Done := make(chan struct{})
	merge2Done := make(chan struct{})
	if secondMerge {
		go consumer(gs, clock, out2, vkit.NewPerturber(rnd, 16, vkit.Pick(rnd, intensities)), &got2, cons2Done)
		go func() {
			defer close(merge2Done)
			gs.add()
			chans.Merge(out2, ro...)
		}()
	} else {
		close(merge2Done)
		close(cons2Done)
		for i, in := range plan {
			if !in.Shared {
				continue
			}
			cwg.Add(1)
			ch := chs[i]
			pert := vkit.NewPerturber(rnd, 16, vkit.Pick(rnd, []float64{0, 0, 0.15, 0.4}))
			go func() {
				defer cwg.Done()
				gs.add()
				var mine []uint64
				for v := range ch {
					mine = append(mine, v)
					pert.Do()
				}
				cmu.Lock()
				comp = append(comp, mine...)
				cmu.Unlock()
			}()
		}
	}
	out := make(chan uint64, outCap)
	var got []recv
	consDone := make(chan struct{})
	go consumer(gs, clock, out, vkit.NewPerturber(rnd, 16, vkit.Pick(rnd, intensities)), &got, consDone)
	var mergeRet atomic.Int64
	var mp *vkit.Panic
	mergeDone := make(chan struct{})
	go func() {
		defer close(mergeDone)
		gs.add()
		mp = vkit.Try(func() { chans.Merge(out, ro...) })
		mergeRet.Store(clock.Tick())
	}()
	both := make(chan struct{})
	go func() {
		<-mergeDone
		<-merge2Done
		close(both)
	}()
	r.Eval(1)
	verdict, dump := vkit.Await(both, vkit.AwaitOpts{Relevant: gs.relevant})
	switch verdict {
	case vkit.AwaitStuck:
		witness["goroutines"] = trunc(dump, 8000)
		c.Violation("merge-stuck", fmt.Sprintf("chans.Merge with %d inputs (%s) sharing inputs with a competing receiver never returned although every input was closed", n, mergePath(n)), witness)
		return
	case vkit.AwaitInconclusive:
		r.Inconclusive(fmt.Sprintf("%s: chans.Merge (shared inputs) had not returned after the hard limit but something was still runnable", c.ID()))
		return
	}
	close(out)
	<-consDone
	if secondMerge {
		close(out2)
		<-cons2Done
	}
	pwg.Wait()
	cwg.Wait()
	if mp != nil {
		c.Violation("merge-panic", "chans.Merge (shared inputs) panicked: "+mp.Msg, witness)
		return
	}
	ret := mergeRet.Load()
	r.Eval(1)
	for i := range closeCall {
		if cc := closeCall[i].Load(); cc == 0 || cc > ret {
			c.Violation("return-before-close", fmt.Sprintf("chans.Merge with %d inputs (shared) returned (tick %d) before input %d was closed (close tick %d)", n, ret, i, cc), witness)
			return
		}
	}
	gv := make([]uint64, len(got))
	for i, g := range got {
		gv[i] = g.v
	}
	for _, g := range got2 {
		comp = append(comp, g.v)
	}
	witness["merge_output"] = showVals(gv)
	witness["competitor_received"] = showVals(comp)
	// Every value Merge put out was sent, once, in its input's order.
	r.Eval(1)
	if sig, what, _ := checkValues(gv, lens, false); sig != "" {
		c.Violation(sig, fmt.Sprintf("chans.Merge with %d inputs (%s) whose buffered inputs have a second receiver: %s", n, mergePath(n), what), witness)
		return
	}
	// Across both receivers: each sent value exactly once.
	r.Eval(1)
	seen := make(map[uint64]int, len(gv)+len(comp))
	for _, v := range gv {
		seen[v]++
	}
	for _, v := range comp {
		in, seq := unval(v)
		if in < 0 || in >= n || seq >= lens[in] {
			c.Violation("unsent-value", fmt.Sprintf("the competing receiver of chans.Merge's inputs (second chans.Merge: %v) received %#x, which nobody sent", secondMerge, v), witness)
			return
		}
		seen[v]++
	}
	for i, l := range lens {
		for s := 0; s < l; s++ {
			switch k := seen[mkval(i, s)]; {
			case k == 0:
				c.Violation("lost-value", fmt.Sprintf("chans.Merge with %d inputs (%s), inputs shared with a second receiver: value %d:%d reached neither of them", n, mergePath(n), i, s), witness)
				return
			case k > 1:
				c.Violation("duplicate-value", fmt.Sprintf("chans.Merge with %d inputs (%s), inputs shared with a second receiver: value %d:%d was received %d times", n, mergePath(n), i, s, k), witness)
				return
			}
		}
	}
	who := "a plain goroutine"
	if secondMerge {
		who = "a second chans.Merge over the same slice"
	}
	r.Count("chans.Merge with inputs shared with", who, 1)
	r.Count("chans.Merge with shared inputs, path", mergePath(n), 1)
	if len(gv) > 0 && len(comp) > 0 {
		r.Count("chans.Merge with shared inputs", "both receivers got values", 1)
	}
	r.Distinct(fmt.Sprintf("shared|%v|%d|%v|%d/%d", plan, outCap, secondMerge, len(gv), len(comp)))
}
