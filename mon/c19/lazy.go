package main

import (
	"fmt"

	"github.com/bradenaw/juniper/iterator"
	"github.com/bradenaw/juniper/xsort"
)

// Lazy results built from a variadic list of sources (xsort.Merge is the only helper of these
// packages that returns an iterator): after the call - at once, or after j items were consumed -
// the caller overwrites every cell of its argument slice, and its spare capacity, with decoy
// iterators. The merged output must still be the merge of the ORIGINAL sources and no decoy may
// ever be pulled.

type decoyIter struct {
	val    int
	pulled *int
}

func (d *decoyIter) Next() (item, bool) {
	*d.pulled++
	return item{K: d.val, ID: d.val}, true
}

func mergeLazyArgs(x *cx, o orderSpec, ins [][]item, j int) {
	if x.failed {
		return
	}
	less := lessOf(o, keyItem)
	var all []item
	plain := make([]iterator.Iterator[item], len(ins))
	for i, s := range ins {
		all = append(all, s...)
		plain[i] = &idIter[item]{id: i, items: cloneOf(s)}
	}
	n := len(all)
	if j > n {
		j = n
	}
	pulled := 0
	var sentIt iterator.Iterator[item] = &idIter[item]{id: -1}
	ol := guardOuter(plain, sentIt)
	in := fmt.Sprintf("less = %s, %v; argument slice overwritten with decoys after %d items", o.name, ins, j)
	var got []item
	p := x.try("xsort.Merge", func() {
		it := xsort.Merge(less, ol.s...)
		overwrite := func() {
			for c := range ol.arr {
				ol.arr[c] = &decoyIter{val: -901 - c%2, pulled: &pulled}
			}
		}
		for k := 0; k < j; k++ {
			v, ok := it.Next()
			if !ok {
				break
			}
			got = append(got, v)
		}
		overwrite()
		for len(got) <= n+2 {
			v, ok := it.Next()
			if !ok {
				break
			}
			got = append(got, v)
		}
	})
	nt := ""
	if n > 0 {
		nt = "Merge|lazy-args|" + in
	}
	x.eval(nt)
	if x.unexpectedPanic("xsort.Merge", p, in) {
		return
	}
	if pulled > 0 || len(got) != n || !sameMultiset(got, all) || !sortedBy(got, o, keyItem) {
		x.fail("xsort.Merge-reads-arguments-lazily", fmt.Sprintf("Merge(%s) yielded %v (decoys pulled %d times); the merge of the original sources is %v: the returned iterator keeps reading the caller's argument slice",
			in, show(got), pulled, show(refStableSort(all, o, keyItem))), map[string]any{"input": in, "got": show(got), "decoy_pulls": pulled})
		return
	}
	x.observe("argument integrity", "xsort.Merge: caller's argument slice overwritten after the call")
}

// mergeLazyTuple: tuple number t of nIn sorted slices from pool; j = 0, 1, 2 and half of the items.
func mergeLazyTuple(x *cx, o orderSpec, pool []int, nIn, t int) {
	ins := make([][]item, nIn)
	total := 0
	for i := 0; i < nIn; i++ {
		ins[i] = itemsOf(smallSlice(pool[t%len(pool)]), 10*i)
		total += len(ins[i])
		t /= len(pool)
	}
	for _, j := range []int{0, 1, 2, total / 2} {
		mergeLazyArgs(x, o, ins, j)
	}
}
