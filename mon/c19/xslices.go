package main

import (
	"fmt"
	"math"
	"strconv"

	"github.com/bradenaw/juniper/xslices"

	"verif/vkit"
)

// env bundles what the xslices checks need to know about the element type.
type env[T comparable] struct {
	x     *cx
	sent  T
	key   func(T) int
	tn    string // element type name (part of the distinct-case key)
	inKey string // canonical name of the current input (part of the distinct-case key)
}

func (e *env[T]) nt(fn string, elems []T, args ...any) string {
	if len(elems) == 0 {
		return ""
	}
	return fmt.Sprint(fn, "|", e.tn, "|", e.inKey, "|", args)
}

// pureScalar: a call that only reads s and returns a comparable value.
func pureScalar[T comparable, R comparable](e *env[T], fn string, elems []T, spare int, in string, nt string, want R, call func(s []T) R) {
	x := e.x
	if x.failed {
		return
	}
	g := guard(elems, spare, e.sent)
	var got R
	p := x.try(fn, func() { got = call(g.s) })
	x.eval(nt)
	if x.unexpectedPanic(fn, p, in) {
		return
	}
	if got != want {
		x.wrong(fn, in, got, want)
		return
	}
	if !g.same(elems) || !g.spareOK() {
		x.fail(fn+"-modified-input", fmt.Sprintf("%s(%s) modified its input (now %v with backing array %v)", fn, in, show(g.s), show(g.arr)),
			map[string]any{"fn": fn, "input": in})
	}
}

// pureSlice: a call that only reads s and returns a slice with specified contents.
func pureSlice[T comparable, R comparable](e *env[T], fn string, elems []T, spare int, in string, nt string, want []R, call func(s []T) []R) (got []R, g *gslice[T], ok bool) {
	x := e.x
	if x.failed {
		return nil, nil, false
	}
	g = guard(elems, spare, e.sent)
	p := x.try(fn, func() { got = call(g.s) })
	x.eval(nt)
	if x.unexpectedPanic(fn, p, in) {
		return nil, g, false
	}
	if !eqSlice(got, want) {
		x.wrong(fn, in, show(got), show(want))
		return got, g, false
	}
	if !g.same(elems) || !g.spareOK() {
		x.fail(fn+"-modified-input", fmt.Sprintf("%s(%s) modified its input (now %v with backing array %v)", fn, in, show(g.s), show(g.arr)),
			map[string]any{"fn": fn, "input": in})
		return got, g, false
	}
	if !independentOf(x, fn, in, got, []*gslice[T]{g}) {
		return got, g, false
	}
	return got, g, true
}

// poisons returns two values of T that no workload generates (T is int, string or item).
func poisons[T comparable]() (T, T) {
	var z T
	switch any(z).(type) {
	case int:
		return any(-8).(T), any(-9).(T)
	case string:
		return any("\x00poison1").(T), any("\x00poison2").(T)
	case item:
		return any(item{-8, -8}).(T), any(item{-9, -9}).(T)
	}
	panic("poisons: unsupported element type")
}

// independentOf: result independence of a helper that returns a new slice and is not documented to
// share storage with its inputs. First every cell of the inputs' backing arrays is overwritten: the
// result must not change. Then every cell of the result, including its spare capacity, is
// overwritten: the inputs' arrays must not change. (Both slices are dead afterwards.)
func independentOf[T comparable, R comparable](x *cx, fn, in string, got []R, inputs []*gslice[T]) bool {
	if x.failed {
		return false
	}
	p1, _ := poisons[T]()
	_, p2 := poisons[R]()
	snap := cloneOf(got)
	for _, g := range inputs {
		for i := range g.arr {
			g.arr[i] = p1
		}
	}
	x.evals++
	if !eqSlice(got, snap) {
		x.fail(fn+"-result-aliases-input", fmt.Sprintf("%s(%s) returned %v; overwriting the input afterwards changed the returned slice to %v: the result shares storage with its input, which the documentation does not promise", fn, in, show(snap), show(got)),
			map[string]any{"fn": fn, "input": in})
		return false
	}
	full := got[:cap(got)]
	for i := range full {
		full[i] = p2
	}
	for k, g := range inputs {
		for i := range g.arr {
			if g.arr[i] != p1 {
				x.fail(fn+"-result-aliases-input", fmt.Sprintf("%s(%s): overwriting the returned slice (and its spare capacity) wrote into the backing array of input %d: the result shares storage with its input, which the documentation does not promise", fn, in, k),
					map[string]any{"fn": fn, "input": in})
				return false
			}
		}
	}
	x.observe("result independence", fn)
	return true
}

// inPlace: a call documented to work in place and return the modified slice: the result has the
// specified contents, is a prefix of s (same first cell), and nothing beyond s[:len(s)] was written.
// Whether the abandoned tail s[len(res):] is zeroed is recorded, not judged.
func inPlace[T comparable](e *env[T], fn string, elems []T, spare int, in string, nt string, want []T, call func(s []T) []T) {
	x := e.x
	if x.failed {
		return
	}
	g := guard(elems, spare, e.sent)
	var got []T
	p := x.try(fn, func() { got = call(g.s) })
	x.eval(nt)
	if x.unexpectedPanic(fn, p, in) {
		return
	}
	if !eqSlice(got, want) {
		x.wrong(fn, in, show(got), show(want))
		return
	}
	if !g.isPrefix(got) {
		x.fail(fn+"-not-in-place", fmt.Sprintf("%s(%s) is documented to work in place and return the modified slice, but the result %v does not start at s[0]", fn, in, show(got)),
			map[string]any{"fn": fn, "input": in})
		return
	}
	if !g.spareOK() {
		x.fail(fn+"-wrote-outside", fmt.Sprintf("%s(%s) wrote outside s[:len(s)]: backing array is now %v (sentinel %v)", fn, in, show(g.arr), e.sent),
			map[string]any{"fn": fn, "input": in})
		return
	}
	if len(got) < len(elems) {
		if g.tailCleared(len(got)) {
			x.observe("in-place tail (recorded, not judged)", fn+": zeroed")
		} else {
			x.observe("in-place tail (recorded, not judged)", fn+": left as is")
		}
	}
}

// ---------------------------------------------------------------------------------------------

// predFns: All, Any, CountFunc, IndexFunc, LastIndexFunc, Filter, FilterInPlace, Partition.
func (e *env[T]) predFns(elems []T, spare int, ps predSpec) {
	x := e.x
	f := func(t T) bool { return ps.of(e.key(t)) }
	var kept []T
	first, last, cnt := -1, -1, 0
	for i, v := range elems {
		if ps.of(e.key(v)) {
			kept = append(kept, v)
			if first < 0 {
				first = i
			}
			last = i
			cnt++
		}
	}
	in := fmt.Sprintf("%s, f = %v", show(elems), ps)
	arg := ps.String()

	pureScalar(e, "xslices.All", elems, spare, in, e.nt("All", elems, arg), cnt == len(elems), func(s []T) bool { return xslices.All(s, f) })
	pureScalar(e, "xslices.Any", elems, spare, in, e.nt("Any", elems, arg), cnt > 0, func(s []T) bool { return xslices.Any(s, f) })
	pureScalar(e, "xslices.CountFunc", elems, spare, in, e.nt("CountFunc", elems, arg), cnt, func(s []T) int { return xslices.CountFunc(s, f) })
	pureScalar(e, "xslices.IndexFunc", elems, spare, in, e.nt("IndexFunc", elems, arg), first, func(s []T) int { return xslices.IndexFunc(s, f) })
	pureScalar(e, "xslices.LastIndexFunc", elems, spare, in, e.nt("LastIndexFunc", elems, arg), last, func(s []T) int { return xslices.LastIndexFunc(s, f) })
	if got, g, ok := pureSlice(e, "xslices.Filter", elems, spare, in, e.nt("Filter", elems, arg), kept, func(s []T) []T { return xslices.Filter(s, f) }); ok && len(got) > 0 {
		if g.aliases(got) {
			x.observe("result storage (recorded, not judged)", "xslices.Filter: shares s's array")
		} else {
			x.observe("result storage (recorded, not judged)", "xslices.Filter: fresh")
		}
	}
	inPlace(e, "xslices.FilterInPlace", elems, spare, in, e.nt("FilterInPlace", elems, arg), kept, func(s []T) []T { return xslices.FilterInPlace(s, f) })

	// Partition: post-condition oracle (permutation + false-prefix + returned index).
	if x.failed {
		return
	}
	g := guard(elems, spare, e.sent)
	var idx int
	p := x.try("xslices.Partition", func() { idx = xslices.Partition(g.s, f) })
	x.eval(e.nt("Partition", elems, arg))
	if x.unexpectedPanic("xslices.Partition", p, in) {
		return
	}
	bad := ""
	switch {
	case idx != len(elems)-cnt:
		bad = fmt.Sprintf("returned %d, but %d elements have f false (the first true element must be at that index)", idx, len(elems)-cnt)
	case !sameMultiset(g.s, elems):
		bad = "the slice is no longer a permutation of the input"
	case !g.spareOK():
		bad = fmt.Sprintf("wrote outside s[:len(s)] (backing array %v)", show(g.arr))
	default:
		for i, v := range g.s {
			if f(v) != (i >= idx) {
				bad = fmt.Sprintf("element %d (%v) has f = %v on the wrong side of the returned index %d", i, v, f(v), idx)
				break
			}
		}
	}
	if bad != "" {
		x.fail("xslices.Partition-postcondition", fmt.Sprintf("Partition(%s) left %v: %s", in, show(g.s), bad),
			map[string]any{"fn": "xslices.Partition", "input": in, "after": show(g.s), "returned": idx})
		return
	}
	if cnt > 0 && cnt < len(elems) {
		x.observe("partition", "both sides non-empty")
		if len(elems) >= 6 {
			x.sample("partition", func() map[string]any {
				return map[string]any{"fn": "xslices.Partition", "in (items {key id})": show(elems), "f": ps.String(), "after": show(g.s), "returned": idx}
			})
		}
	}
}

// eqvFns: Runs, CompactFunc, CompactInPlaceFunc, Group, EqualFunc against itself.
func (e *env[T]) eqvFns(elems []T, spare int, es eqvSpec) {
	x := e.x
	cl := func(t T) int { return es.class(e.key(t)) }
	same := func(a, b T) bool { return cl(a) == cl(b) }
	in := fmt.Sprintf("%s, same = %v", show(elems), es)
	arg := es.String()

	// reference: run boundaries
	var starts []int
	var firsts []T
	for i, v := range elems {
		if i == 0 || cl(elems[i-1]) != cl(v) {
			starts = append(starts, i)
			firsts = append(firsts, v)
		}
	}

	// Runs
	if !x.failed {
		g := guard(elems, spare, e.sent)
		var got [][]T
		p := x.try("xslices.Runs", func() { got = xslices.Runs(g.s, same) })
		x.eval(e.nt("Runs", elems, arg))
		if !x.unexpectedPanic("xslices.Runs", p, in) {
			bad := ""
			if len(got) != len(starts) {
				bad = fmt.Sprintf("%d runs, want %d", len(got), len(starts))
			} else {
				for i, st := range starts {
					end := len(elems)
					if i+1 < len(starts) {
						end = starts[i+1]
					}
					if !eqSlice(got[i], elems[st:end]) {
						bad = fmt.Sprintf("run %d = %v, want %v", i, show(got[i]), show(elems[st:end]))
						break
					}
					if &got[i][0] != &g.s[st] {
						bad = fmt.Sprintf("run %d does not use the same underlying array as s", i)
						break
					}
				}
			}
			if bad == "" && (!g.same(elems) || !g.spareOK()) {
				bad = "the input was modified"
			}
			if bad != "" {
				x.fail("xslices.Runs-result", fmt.Sprintf("Runs(%s) = %v: %s", in, got, bad), map[string]any{"fn": "xslices.Runs", "input": in, "got": fmt.Sprint(got)})
			} else {
				if len(starts) > 0 && (len(starts) == 1 || starts[1] == 1) {
					x.observe("runs", "leading run of length one")
				}
				// runs are documented views of s: they may share s's array, but not each other's cells
				names := make([]string, len(got))
				for i := range names {
					names[i] = fmt.Sprint("run ", i)
				}
				partsIndependent(x, "xslices.Runs", in, names, got, false, nil)
			}
		}
	}

	pureSlice(e, "xslices.CompactFunc", elems, spare, in, e.nt("CompactFunc", elems, arg), firsts, func(s []T) []T { return xslices.CompactFunc(s, same) })
	inPlace(e, "xslices.CompactInPlaceFunc", elems, spare, in, e.nt("CompactInPlaceFunc", elems, arg), firsts, func(s []T) []T { return xslices.CompactInPlaceFunc(s, same) })

	// Group: map from class to the items of that class (multiset per group; order recorded).
	if !x.failed {
		want := make(map[int][]T)
		for _, v := range elems {
			want[cl(v)] = append(want[cl(v)], v)
		}
		g := guard(elems, spare, e.sent)
		var got map[int][]T
		p := x.try("xslices.Group", func() { got = xslices.Group(g.s, cl) })
		x.eval(e.nt("Group", elems, arg))
		if !x.unexpectedPanic("xslices.Group", p, in) {
			bad := len(got) != len(want)
			ordered := true
			for k, w := range want {
				if !sameMultiset(got[k], w) {
					bad = true
				} else if !eqSlice(got[k], w) {
					ordered = false
				}
			}
			if bad || !g.same(elems) || !g.spareOK() {
				x.wrong("xslices.Group", in, got, want)
			} else {
				var names []string
				var parts [][]T
				for k := 0; k < 16; k++ {
					if grp, ok := got[k]; ok {
						names, parts = append(names, fmt.Sprintf("of group %d", k)), append(parts, grp)
					}
				}
				partsIndependent(x, "xslices.Group", in, names, parts, true, func() bool { return g.same(elems) && g.spareOK() })
			}
			if !x.failed && !bad && len(elems) > 1 {
				if ordered {
					x.observe("group order (recorded, not judged)", "input order kept within groups")
				} else {
					x.observe("group order (recorded, not judged)", "input order not kept")
				}
			}
		}
	}
}

// cmpFns: the helpers that need T comparable: Count, Index, LastIndex, Unique, UniqueInPlace,
// Compact, CompactInPlace.
func (e *env[T]) cmpFns(elems []T, spare int, probes []T) {
	in := show(elems)
	for _, pv := range probes {
		first, last, cnt := -1, -1, 0
		for i, v := range elems {
			if v == pv {
				if first < 0 {
					first = i
				}
				last = i
				cnt++
			}
		}
		inp := fmt.Sprintf("%s, %v", in, pv)
		pv := pv
		pureScalar(e, "xslices.Count", elems, spare, inp, e.nt("Count", elems, pv), cnt, func(s []T) int { return xslices.Count(s, pv) })
		pureScalar(e, "xslices.Index", elems, spare, inp, e.nt("Index", elems, pv), first, func(s []T) int { return xslices.Index(s, pv) })
		pureScalar(e, "xslices.LastIndex", elems, spare, inp, e.nt("LastIndex", elems, pv), last, func(s []T) int { return xslices.LastIndex(s, pv) })
	}
	var uniq, compact []T
	seen := make(map[T]bool)
	for i, v := range elems {
		if !seen[v] {
			seen[v] = true
			uniq = append(uniq, v)
		}
		if i == 0 || elems[i-1] != v {
			compact = append(compact, v)
		}
	}
	pureSlice(e, "xslices.Unique", elems, spare, in, e.nt("Unique", elems), uniq, func(s []T) []T { return xslices.Unique(s) })
	inPlace(e, "xslices.UniqueInPlace", elems, spare, in, e.nt("UniqueInPlace", elems), uniq, func(s []T) []T { return xslices.UniqueInPlace(s) })
	pureSlice(e, "xslices.Compact", elems, spare, in, e.nt("Compact", elems), compact, func(s []T) []T { return xslices.Compact(s) })
	inPlace(e, "xslices.CompactInPlace", elems, spare, in, e.nt("CompactInPlace", elems), compact, func(s []T) []T { return xslices.CompactInPlace(s) })
}

// plainFns: Clear, Fill, Clone, Map, Reduce, Reverse (no further arguments to enumerate).
func (e *env[T]) plainFns(elems []T, spare int, fillWith T) {
	x := e.x
	in := show(elems)
	var zero T

	voidInPlace := func(fn string, want []T, call func(s []T)) {
		if x.failed {
			return
		}
		g := guard(elems, spare, e.sent)
		p := x.try(fn, func() { call(g.s) })
		x.eval(e.nt(fn, elems))
		if x.unexpectedPanic(fn, p, in) {
			return
		}
		if !eqSlice(g.s, want) {
			x.fail(fn+"-result", fmt.Sprintf("after %s(%s) the slice holds %v, documentation specifies %v", fn, in, show(g.s), show(want)),
				map[string]any{"fn": fn, "input": in, "got": show(g.s), "want": show(want)})
		} else if !g.spareOK() {
			x.fail(fn+"-wrote-outside", fmt.Sprintf("%s(%s) wrote outside s[:len(s)]: backing array %v", fn, in, show(g.arr)), map[string]any{"fn": fn, "input": in})
		}
	}
	zeros := make([]T, len(elems))
	filled := make([]T, len(elems))
	rev := make([]T, len(elems))
	for i := range elems {
		zeros[i] = zero
		filled[i] = fillWith
		rev[len(elems)-1-i] = elems[i]
	}
	voidInPlace("xslices.Clear", zeros, func(s []T) { xslices.Clear(s) })
	voidInPlace("xslices.Fill", filled, func(s []T) { xslices.Fill(s, fillWith) })
	voidInPlace("xslices.Reverse", rev, func(s []T) { xslices.Reverse(s) })

	// Clone: equal contents in a new slice.
	if got, g, ok := pureSlice(e, "xslices.Clone", elems, spare, in, e.nt("Clone", elems), elems, func(s []T) []T { return xslices.Clone(s) }); ok && len(got) > 0 {
		if g.aliases(got) {
			x.fail("xslices.Clone-aliases", fmt.Sprintf("Clone(%s) is documented to create a new slice but the result shares s's array", in), map[string]any{"input": in})
		}
	}

	// Map
	mf := func(t T) string { return "<" + strconv.Itoa(e.key(t)) + ">" }
	wantM := make([]string, len(elems))
	for i, v := range elems {
		wantM[i] = "<" + strconv.Itoa(e.key(v)) + ">"
	}
	pureSlice(e, "xslices.Map", elems, spare, in+", f = \"<key>\"", e.nt("Map", elems), wantM, func(s []T) []string { return xslices.Map(s, mf) })

	// Reduce: the documentation does not fix the direction of the fold, so an order-sensitive f
	// accepts the left and the right fold; an order-insensitive one (sum) is exact.
	sum := 1000
	left, right := "i", "i"
	for i := range elems {
		sum += e.key(elems[i]) + 1
		left += "," + strconv.Itoa(e.key(elems[i]))
		right += "," + strconv.Itoa(e.key(elems[len(elems)-1-i]))
	}
	pureScalar(e, "xslices.Reduce", elems, spare, in+", 1000, f = acc+key+1", e.nt("Reduce", elems, "sum"), sum,
		func(s []T) int { return xslices.Reduce(s, 1000, func(acc int, t T) int { return acc + e.key(t) + 1 }) })
	if !x.failed {
		g := guard(elems, spare, e.sent)
		var got string
		p := x.try("xslices.Reduce", func() {
			got = xslices.Reduce(g.s, "i", func(acc string, t T) string { return acc + "," + strconv.Itoa(e.key(t)) })
		})
		x.eval(e.nt("Reduce", elems, "concat"))
		if !x.unexpectedPanic("xslices.Reduce", p, in) {
			if got != left && got != right {
				x.wrong("xslices.Reduce", in+", \"i\", f = acc+\",\"+key", got, left)
			} else if got == left && left != right {
				x.observe("reduce direction (recorded, not judged)", "left fold")
			} else if left != right {
				x.observe("reduce direction (recorded, not judged)", "right fold")
			}
		}
	}
}

// chunk: Chunk(s, c) for one c.
func (e *env[T]) chunk(elems []T, spare int, c int) {
	x := e.x
	if x.failed {
		return
	}
	in := fmt.Sprintf("%s, %d", show(elems), c)
	g := guard(elems, spare, e.sent)
	var got [][]T
	p := x.try("xslices.Chunk", func() { got = xslices.Chunk(g.s, c) })
	x.eval(e.nt("Chunk", elems, c))
	if c <= 0 {
		if p == nil {
			x.fail("xslices.Chunk-no-panic", fmt.Sprintf("Chunk(%s) returned %v; documentation: panics if chunkSize <= 0", in, got),
				map[string]any{"fn": "xslices.Chunk", "input": in, "got": fmt.Sprint(got)})
		} else {
			x.observe("documented panics seen", "xslices.Chunk chunkSize <= 0")
		}
		return
	}
	n := len(elems)
	if p != nil {
		if c > math.MaxInt-n {
			// len(s)+chunkSize overflows int: its own signature, so that it is not confused with any
			// other failure of Chunk.
			x.fail("chunk-huge-size", fmt.Sprintf("Chunk(%s) panicked (%s); chunkSize is positive, so the documented result is the single chunk [s]", in, p.Msg),
				map[string]any{"fn": "xslices.Chunk", "len": n, "chunkSize": c, "panic": p.Msg})
			return
		}
		x.unexpectedPanic("xslices.Chunk", p, in)
		return
	}
	nChunks := n / c
	if n%c != 0 {
		nChunks++
	}
	bad := ""
	if len(got) != nChunks {
		bad = fmt.Sprintf("%d chunks, want %d", len(got), nChunks)
	} else {
		start := 0
		shares := true
		for i := 0; i < nChunks; i++ {
			end := n
			if c < n-start {
				end = start + c
			}
			if !eqSlice(got[i], elems[start:end]) {
				bad = fmt.Sprintf("chunk %d = %v, want %v", i, show(got[i]), show(elems[start:end]))
				break
			}
			if &got[i][0] != &g.s[start] {
				shares = false
			}
			start = end
		}
		if bad == "" && nChunks > 0 {
			if shares {
				x.observe("result storage (recorded, not judged)", "xslices.Chunk: chunks are sub-slices of s")
			} else {
				x.observe("result storage (recorded, not judged)", "xslices.Chunk: chunks are copies")
			}
		}
	}
	if bad == "" && (!g.same(elems) || !g.spareOK()) {
		bad = "the input was modified"
	}
	if bad == "" && len(got) > 1 {
		names := make([]string, len(got))
		for i := range names {
			names[i] = fmt.Sprint("chunk ", i)
		}
		partsIndependent(x, "xslices.Chunk", in, names, got, false, nil)
	}
	if bad != "" {
		sig := "xslices.Chunk-result"
		if c > math.MaxInt-n {
			sig = "chunk-huge-size"
		}
		x.fail(sig, fmt.Sprintf("Chunk(%s) = %v: %s", in, got, bad), map[string]any{"fn": "xslices.Chunk", "input": in, "got": fmt.Sprint(got)})
	}
}

// removeFns: Remove and RemoveUnordered of n items at idx (0 <= idx, 0 <= n, idx+n <= len).
func (e *env[T]) removeFns(elems []T, spare int, idx, n int) {
	x := e.x
	in := fmt.Sprintf("%s, %d, %d", show(elems), idx, n)
	want := make([]T, 0, len(elems)-n)
	want = append(want, elems[:idx]...)
	want = append(want, elems[idx+n:]...)
	inPlace(e, "xslices.Remove", elems, spare, in, e.nt("Remove", elems, idx, n), want, func(s []T) []T { return xslices.Remove(s, idx, n) })

	// RemoveUnordered: post-condition oracle (length and multiset).
	if x.failed {
		return
	}
	g := guard(elems, spare, e.sent)
	var got []T
	p := x.try("xslices.RemoveUnordered", func() { got = xslices.RemoveUnordered(g.s, idx, n) })
	x.eval(e.nt("RemoveUnordered", elems, idx, n))
	if x.unexpectedPanic("xslices.RemoveUnordered", p, in) {
		return
	}
	switch {
	case len(got) != len(want):
		x.fail("xslices.RemoveUnordered-length", fmt.Sprintf("RemoveUnordered(%s) has length %d, want %d", in, len(got), len(want)), map[string]any{"input": in, "got": show(got)})
	case !sameMultiset(got, want):
		x.fail("xslices.RemoveUnordered-multiset", fmt.Sprintf("RemoveUnordered(%s) = %v, which is not the input without its items [%d,%d) (those are %v)", in, show(got), idx, idx+n, show(want)),
			map[string]any{"input": in, "got": show(got), "want_as_multiset": show(want)})
	case !g.spareOK():
		x.fail("xslices.RemoveUnordered-wrote-outside", fmt.Sprintf("RemoveUnordered(%s) wrote outside s[:len(s)]: backing array %v", in, show(g.arr)), map[string]any{"input": in})
	default:
		if g.isPrefix(got) {
			x.observe("result storage (recorded, not judged)", "xslices.RemoveUnordered: prefix of s")
		} else {
			x.observe("result storage (recorded, not judged)", "xslices.RemoveUnordered: elsewhere")
		}
		if n > 0 && idx+n < len(elems) {
			x.observe("remove-unordered", "gap filled from the end")
			if len(elems) >= 6 && idx > 0 {
				x.sample("remove-unordered", func() map[string]any {
					return map[string]any{"fn": "xslices.RemoveUnordered", "in (items {key id})": show(elems), "idx": idx, "n": n, "result": show(got)}
				})
			}
		}
	}
}

// insert: Insert(s, idx, values...) with 0 <= idx <= len(s).
func (e *env[T]) insert(elems []T, spare int, idx int, values []T) {
	x := e.x
	if x.failed {
		return
	}
	in := fmt.Sprintf("%s (cap %d), %d, %s", show(elems), len(elems)+spare, idx, show(values))
	want := make([]T, 0, len(elems)+len(values))
	want = append(want, elems[:idx]...)
	want = append(want, values...)
	want = append(want, elems[idx:]...)
	g := guard(elems, spare, e.sent)
	vals := cloneOf(values)
	var got []T
	p := x.try("xslices.Insert", func() { got = xslices.Insert(g.s, idx, vals...) })
	x.eval(e.nt("Insert", elems, idx, len(values), spare))
	if x.unexpectedPanic("xslices.Insert", p, in) {
		return
	}
	if !eqSlice(got, want) {
		x.wrong("xslices.Insert", in, show(got), show(want))
		return
	}
	if !g.padsOK() || !eqSlice(vals, values) {
		x.fail("xslices.Insert-wrote-outside", fmt.Sprintf("Insert(%s) wrote outside the capacity of s or into values", in), map[string]any{"input": in})
		return
	}
	if len(values) > 0 {
		if g.isPrefix(got) {
			x.observe("result storage (recorded, not judged)", fmt.Sprintf("xslices.Insert: reused s's array (fits in cap: %v)", len(want) <= len(elems)+spare))
		} else {
			x.observe("result storage (recorded, not judged)", fmt.Sprintf("xslices.Insert: reallocated (fits in cap: %v)", len(want) <= len(elems)+spare))
		}
	}
}

// capFns: Grow(s, n) and Shrink(s, n), n >= 0.
func (e *env[T]) capFns(elems []T, spare int, n int) {
	x := e.x
	in := fmt.Sprintf("%s (cap %d), %d", show(elems), max(0, len(elems)+spare), n)
	if !x.failed {
		g := guard(elems, spare, e.sent)
		var got []T
		p := x.try("xslices.Grow", func() { got = xslices.Grow(g.s, n) })
		x.eval(e.nt("Grow", elems, n, spare))
		if !x.unexpectedPanic("xslices.Grow", p, in) {
			switch {
			case !eqSlice(got, elems):
				x.wrong("xslices.Grow", in, show(got), show(elems)+" (same length and contents)")
			case cap(got)-len(got) < n:
				x.fail("xslices.Grow-capacity", fmt.Sprintf("Grow(%s) has cap %d, len %d: fewer than %d appends fit without reallocating", in, cap(got), len(got), n), map[string]any{"input": in})
			case !g.same(elems) || !g.spareOK():
				x.fail("xslices.Grow-modified-input", fmt.Sprintf("Grow(%s) changed the contents of s's array: %v", in, show(g.arr)), map[string]any{"input": in})
			}
		}
	}
	if !x.failed {
		g := guard(elems, spare, e.sent)
		var got []T
		p := x.try("xslices.Shrink", func() { got = xslices.Shrink(g.s, n) })
		x.eval(e.nt("Shrink", elems, n, spare))
		if !x.unexpectedPanic("xslices.Shrink", p, in) {
			switch {
			case !eqSlice(got, elems):
				x.wrong("xslices.Shrink", in, show(got), show(elems)+" (same length and contents)")
			case cap(got) > len(got)+n:
				x.fail("xslices.Shrink-capacity", fmt.Sprintf("Shrink(%s) has cap %d > len %d + n", in, cap(got), len(got)), map[string]any{"input": in, "cap": cap(got)})
			case !g.same(elems) || !g.spareOK():
				x.fail("xslices.Shrink-modified-input", fmt.Sprintf("Shrink(%s) changed the contents of s's array: %v", in, show(g.arr)), map[string]any{"input": in})
			default:
				if spare > n {
					x.observe("shrink", "had to reallocate")
				}
			}
		}
	}
}

// repeat: Repeat(v, n), n >= 0.
func (e *env[T]) repeat(v T, n int) {
	x := e.x
	if x.failed {
		return
	}
	want := make([]T, n)
	for i := range want {
		want[i] = v
	}
	var got []T
	in := fmt.Sprintf("%v, %d", v, n)
	p := x.try("xslices.Repeat", func() { got = xslices.Repeat(v, n) })
	nt := ""
	if n > 0 {
		nt = fmt.Sprint("Repeat|", e.tn, "|", in)
	}
	x.eval(nt)
	if x.unexpectedPanic("xslices.Repeat", p, in) {
		return
	}
	if !eqSlice(got, want) {
		x.wrong("xslices.Repeat", in, show(got), show(want))
	}
}

// pairFns: Equal and EqualFunc on (a, b).
func (e *env[T]) pairFns(a, b []T, es []eqvSpec, keyB string) {
	x := e.x
	in := fmt.Sprintf("%s, %s", show(a), show(b))
	nt := func(fn string, args ...any) string {
		if len(a)+len(b) == 0 {
			return ""
		}
		return fmt.Sprint(fn, "|", e.tn, "|", e.inKey, "|", keyB, "|", args)
	}
	if !x.failed {
		ga, gb := guard(a, 0, e.sent), guard(b, 1, e.sent)
		var got bool
		p := x.try("xslices.Equal", func() { got = xslices.Equal(ga.s, gb.s) })
		x.eval(nt("Equal"))
		if !x.unexpectedPanic("xslices.Equal", p, in) {
			if want := eqSlice(a, b); got != want {
				x.wrong("xslices.Equal", in, got, want)
			} else if !ga.same(a) || !gb.same(b) || !ga.spareOK() || !gb.spareOK() {
				x.fail("xslices.Equal-modified-input", "Equal("+in+") modified an input", nil)
			}
		}
	}
	rel := func(name string, f func(ka, kb int) bool) {
		if x.failed {
			return
		}
		want := len(a) == len(b)
		if want {
			for i := range a {
				if !f(e.key(a[i]), e.key(b[i])) {
					want = false
					break
				}
			}
		}
		ga, gb := guard(a, 1, e.sent), guard(b, 0, e.sent)
		var got bool
		p := x.try("xslices.EqualFunc", func() {
			got = xslices.EqualFunc(ga.s, gb.s, func(u, v T) bool { return f(e.key(u), e.key(v)) })
		})
		x.eval(nt("EqualFunc", name))
		inp := in + ", eq = " + name
		if !x.unexpectedPanic("xslices.EqualFunc", p, inp) {
			if got != want {
				x.wrong("xslices.EqualFunc", inp, got, want)
			} else if !ga.same(a) || !gb.same(b) || !ga.spareOK() || !gb.spareOK() {
				x.fail("xslices.EqualFunc-modified-input", "EqualFunc("+inp+") modified an input", nil)
			}
		}
	}
	for _, s := range es {
		s := s
		rel(s.String(), func(ka, kb int) bool { return s.class(ka) == s.class(kb) })
	}
	rel("a<=b", func(ka, kb int) bool { return ka <= kb })
}

// join: Join(in...) for 0..4 inputs.
func (e *env[T]) join(ins [][]T, key string) {
	x := e.x
	if x.failed {
		return
	}
	var want []T
	gs := make([]*gslice[T], len(ins))
	args := make([][]T, len(ins))
	total := 0
	for i, s := range ins {
		want = append(want, s...)
		sp := i % 3
		if len(s) == 0 && i%2 == 1 {
			sp = -1 // a nil input
		}
		gs[i] = guard(s, sp, e.sent)
		args[i] = gs[i].s
		total += len(s)
	}
	in := fmt.Sprint(ins)
	var got []T
	ol := guardOuter(args, []T{e.sent})
	p := x.try("xslices.Join", func() { got = xslices.Join(ol.s...) })
	nt := ""
	if total > 0 {
		nt = fmt.Sprint("Join|", e.tn, "|", key)
	}
	x.eval(nt)
	x.observe("number of inputs", fmt.Sprintf("xslices.Join: %d", len(ins)))
	if x.unexpectedPanic("xslices.Join", p, in) {
		return
	}
	if !eqSlice(got, want) {
		x.wrong("xslices.Join", in, show(got), show(want))
		return
	}
	for i, g := range gs {
		if !g.same(ins[i]) || !g.spareOK() {
			x.fail("xslices.Join-modified-input", fmt.Sprintf("Join(%s) modified input %d", in, i), nil)
			return
		}
	}
	if why := ol.changed(sameSlice[T]); why != "" {
		x.fail("xslices.Join-modified-arguments", fmt.Sprintf("Join(%s) modified the caller's variadic argument slice: %s", in, why), map[string]any{"input": in})
		return
	}
	for i := range ol.s {
		if !eqSlice(ol.s[i], ins[i]) {
			x.fail("xslices.Join-modified-arguments", fmt.Sprintf("Join(%s): the caller's input %d now reads %v", in, i, show(ol.s[i])), nil)
			return
		}
	}
	x.observe("argument integrity", "xslices.Join")
	independentOf(x, "xslices.Join", in, got, gs)
}

// ---------------------------------------------------------------------------------------------
// Drivers

// xslicesSmall runs every xslices helper on one base slice over {0,1,2} with every argument.
func xslicesSmall(x *cx, keys []int) {
	inKey := fmt.Sprint(keys)
	ei := &env[int]{x: x, sent: sentInt, key: keyInt, tn: "int", inKey: inKey}
	et := &env[item]{x: x, sent: sentItem, key: keyItem, tn: "item", inKey: inKey}
	es := &env[string]{x: x, sent: sentStr, key: keyString, tn: "string", inKey: inKey}
	items := itemsOf(keys, 0)
	strs := stringsOf(keys)
	n := len(keys)
	spares := []int{0, 2}
	if n == 0 {
		spares = []int{-1, 0, 2} // nil, empty with no capacity, empty with capacity
	}
	for _, sp := range spares {
		for _, ps := range smallPreds {
			et.predFns(items, sp, ps)
		}
		for _, q := range smallEqvs {
			et.eqvFns(items, sp, q)
		}
		ei.predFns(keys, sp, smallPreds[(n+sp+5)%8]) // int elements too, one predicate
		ei.cmpFns(keys, sp, []int{0, 1, 2, 3})
		es.cmpFns(strs, sp, []string{"0", "1", "2", "x"})
		et.cmpFns(items, sp, []item{{0, 0}, {1, 0}, {2, n - 1}})
		et.plainFns(items, sp, item{9, 9})
		ei.plainFns(keys, sp, 5)
		for c := -3; c <= n+2; c++ {
			et.chunk(items, sp, c)
		}
		for _, c := range []int{math.MinInt, math.MinInt + 1, -n - 1, -n, math.MaxInt/2 + 1, math.MaxInt - n, math.MaxInt - 1, math.MaxInt} {
			ei.chunk(keys, sp, c)
		}
		for idx := 0; idx <= n; idx++ {
			for cnt := 0; idx+cnt <= n; cnt++ {
				et.removeFns(items, sp, idx, cnt)
			}
			for nv := 0; nv <= 2; nv++ {
				et.insert(items, sp, idx, []item{{7, 100}, {8, 101}}[:nv])
			}
		}
		for k := 0; k <= 3; k++ {
			et.capFns(items, sp, k)
		}
		if x.failed {
			return
		}
	}
	// more capacity shapes for Grow / Shrink / Insert
	for _, sp := range []int{1, 5} {
		for k := 0; k <= 3; k++ {
			et.capFns(items, sp, k)
		}
		for idx := 0; idx <= n; idx++ {
			et.insert(items, sp, idx, []item{{7, 100}, {8, 101}})
		}
	}
	if n <= 3 {
		// Repeat(x, n): every count up to 7 for each value (run once per value: on the slices [v])
		if n == 1 {
			for k := 0; k <= 7; k++ {
				et.repeat(items[0], k)
				ei.repeat(keys[0], k)
			}
		}
	}
}

// xslicesPairsSmall: Equal / EqualFunc on every pair of slices over {0,1,2} of length <= maxLen.
func xslicesPairsSmall(x *cx, a []int, maxLen int) {
	ei := &env[int]{x: x, sent: sentInt, key: keyInt, tn: "int", inKey: fmt.Sprint(a)}
	for j := 0; j < nSmall(maxLen); j++ {
		b := smallSlice(j)
		ei.pairFns(a, b, smallEqvs, fmt.Sprint(b))
		if x.failed {
			return
		}
	}
}

// xslicesJoinSmall: Join of 0..4 slices; tuple number t in mixed radix over the pool.
func xslicesJoinSmall(x *cx, nIn int, t int, poolLen int) {
	pool := nSmall(poolLen)
	ins := make([][]item, nIn)
	for i := 0; i < nIn; i++ {
		ins[i] = itemsOf(smallSlice(t%pool), 10*i)
		t /= pool
	}
	et := &env[item]{x: x, sent: sentItem, key: keyItem, tn: "item"}
	et.join(ins, fmt.Sprint(ins))
}

// xslicesLarge: one random large input through every helper with random arguments.
func xslicesLarge(x *cx, rnd *vkit.Rand, maxN int) {
	n := rnd.Range(7, maxN)
	if rnd.Bool(0.2) {
		n = rnd.Range(7, 40)
	}
	keyRange := []int{2, 3, 10, 1000}[rnd.Intn(4)]
	keys := make([]int, n)
	runny := rnd.Bool(0.5)
	for i := range keys {
		if runny && i > 0 && rnd.Bool(0.6) {
			keys[i] = keys[i-1]
		} else {
			keys[i] = rnd.Intn(keyRange)
		}
	}
	inKey := x.c.ID()
	ei := &env[int]{x: x, sent: sentInt, key: keyInt, tn: "int", inKey: inKey}
	et := &env[item]{x: x, sent: sentItem, key: keyItem, tn: "item", inKey: inKey}
	es := &env[string]{x: x, sent: sentStr, key: keyString, tn: "string", inKey: inKey}
	items := itemsOf(keys, 0)
	sp := []int{0, 1, 3, 64}[rnd.Intn(4)]
	for i := 0; i < 3; i++ {
		et.predFns(items, sp, randPred(rnd))
		et.eqvFns(items, sp, randEqv(rnd))
	}
	ei.predFns(keys, sp, randPred(rnd))
	ei.eqvFns(keys, sp, randEqv(rnd))
	ei.cmpFns(keys, sp, []int{keys[rnd.Intn(n)], keys[0], keys[n-1], keyRange + 1})
	es.cmpFns(stringsOf(keys), sp, []string{strconv.Itoa(keys[rnd.Intn(n)]), "absent"})
	et.plainFns(items, sp, item{9, 9})
	ei.plainFns(keys, sp, 5)
	for _, c := range []int{1, 2, n - 1, n, n + 1, rnd.Range(1, n), rnd.Range(1, n), -rnd.Range(0, n+2), -rnd.Range(0, 3)} {
		et.chunk(items, sp, c)
	}
	for i := 0; i < 6; i++ {
		idx := rnd.Range(0, n)
		cnt := rnd.Range(0, n-idx)
		switch i {
		case 0:
			idx, cnt = 0, rnd.Range(0, n)
		case 1:
			cnt = n - idx
		case 2:
			cnt = min(cnt, 2)
		}
		et.removeFns(items, sp, idx, cnt)
		vals := itemsOf([]int{7, 8, 9, 7, 8, 9, 7, 8, 9}[:rnd.Intn(10)], 1_000_000)
		et.insert(items, []int{0, 1, 3, 64}[rnd.Intn(4)], idx, vals)
		k := []int{0, 1, 2, 63, 64, 65, rnd.Intn(200)}[rnd.Intn(7)]
		et.capFns(items, []int{0, 1, 3, 64}[rnd.Intn(4)], k)
	}
	et.repeat(items[0], rnd.Intn(300))
	// Equal / EqualFunc: against itself, a copy with one item changed, a prefix
	other := cloneOf(keys)
	other[rnd.Intn(n)] += rnd.Intn(2)
	eqvs := []eqvSpec{randEqv(rnd), {[]int{0}}}
	ei.pairFns(keys, cloneOf(keys), eqvs, "copy")
	ei.pairFns(keys, other, eqvs, "one-changed")
	ei.pairFns(keys, keys[:rnd.Intn(n)], eqvs, "prefix")
	// Join of 0..4 pieces of the input
	k := rnd.Intn(5)
	ins := make([][]item, k)
	for i := range ins {
		a := rnd.Intn(n)
		ins[i] = items[a : a+rnd.Intn(n-a+1)]
		if rnd.Bool(0.2) {
			ins[i] = nil
		}
	}
	et.join(ins, inKey)
}
