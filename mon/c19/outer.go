package main

import (
	"fmt"
	"reflect"
	"unsafe"
)

// Argument integrity of variadic parameters: the caller's argument list `f(xs...)` is a slice the
// callee receives as is. None of the helpers is documented to modify it, so it is handed over as a
// sub-slice, with spare capacity, of an array whose other cells hold a sentinel; afterwards every
// cell (the arguments, the spare capacity, the cells around) must be identical to what the caller
// put there, and the arguments are used again through the caller's list.

const outerPad, outerSpare = 1, 2

type outerList[E any] struct {
	arr  []E
	s    []E // the argument list handed to the library
	want []E // private copy of what the caller put there
	sent E
}

func guardOuter[E any](elems []E, sent E) *outerList[E] {
	n := len(elems)
	arr := make([]E, outerPad+n+outerSpare+outerPad)
	for i := range arr {
		arr[i] = sent
	}
	copy(arr[outerPad:], elems)
	want := make([]E, n)
	copy(want, elems)
	return &outerList[E]{arr: arr, s: arr[outerPad : outerPad+n : outerPad+n+outerSpare], want: want, sent: sent}
}

// changed describes the first cell that is no longer identical to what the caller put there.
func (o *outerList[E]) changed(same func(a, b E) bool) string {
	for i := range o.arr {
		j := i - outerPad
		if j >= 0 && j < len(o.want) {
			if !same(o.arr[i], o.want[j]) {
				return fmt.Sprintf("argument %d of %d was replaced in the caller's argument list", j, len(o.want))
			}
		} else if !same(o.arr[i], o.sent) {
			return fmt.Sprintf("the cell at offset %d from the caller's argument list (its spare capacity / neighbourhood) was overwritten", j)
		}
	}
	return ""
}

// sameSlice: identical slice headers (same first cell, length and capacity).
func sameSlice[T any](a, b []T) bool {
	return len(a) == len(b) && cap(a) == cap(b) && (a == nil) == (b == nil) && unsafe.SliceData(a) == unsafe.SliceData(b)
}

// sameMap: the same map object (or both nil).
func sameMap[M any](a, b M) bool {
	va, vb := reflect.ValueOf(a), reflect.ValueOf(b)
	return va.IsNil() == vb.IsNil() && va.Pointer() == vb.Pointer()
}

// idIter is a slice iterator that knows which argument it is.
type idIter[T any] struct {
	id    int
	items []T
	pos   int
}

func (it *idIter[T]) Next() (T, bool) {
	if it.pos >= len(it.items) {
		var zero T
		return zero, false
	}
	it.pos++
	return it.items[it.pos-1], true
}
