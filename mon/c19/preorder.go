package main

import (
	"fmt"
	"strings"

	"github.com/bradenaw/juniper/xslices"

	"verif/vkit"
)

// Runs asks only that same be reflexive and transitive, not symmetric: preorders such as a <= b
// (ascending runs) or "a divides b" are legal. Reference: the greedy neighbour rule (a run is
// extended while same(previous item, next item) holds), which under transitivity is exactly
// "same(a, b) for any a before b in the run".
// (CompactFunc / CompactInPlaceFunc call their relation `eq` and are documented through
// slices.CompactFunc; they are only given equivalences.)

func runsPreorder[T comparable](x *cx, elems []T, name string, same func(a, b T) bool, sent T) {
	if x.failed {
		return
	}
	var starts []int
	for i := range elems {
		if i == 0 || !same(elems[i-1], elems[i]) {
			starts = append(starts, i)
		}
	}
	g := guard(elems, 1, sent)
	in := fmt.Sprintf("%s, same = %s", show(elems), name)
	var got [][]T
	p := x.try("xslices.Runs", func() { got = xslices.Runs(g.s, same) })
	nt := ""
	if len(elems) > 0 {
		nt = "Runs|preorder|" + in
	}
	x.eval(nt)
	if x.unexpectedPanic("xslices.Runs", p, in) {
		return
	}
	bad := ""
	if len(got) != len(starts) {
		bad = fmt.Sprintf("%d runs, want %d", len(got), len(starts))
	} else {
		for i, st := range starts {
			end := len(elems)
			if i+1 < len(starts) {
				end = starts[i+1]
			}
			if !eqSlice(got[i], elems[st:end]) || &got[i][0] != &g.s[st] {
				bad = fmt.Sprintf("run %d = %v, want s[%d:%d] = %v", i, show(got[i]), st, end, show(elems[st:end]))
				break
			}
		}
	}
	if bad == "" && (!g.same(elems) || !g.spareOK()) {
		bad = "the input was modified"
	}
	if bad != "" {
		x.fail("xslices.Runs-preorder", fmt.Sprintf("Runs(%s) = %v: %s (same is reflexive and transitive, as documented, but not symmetric)", in, got, bad), map[string]any{"input": in, "got": fmt.Sprint(got)})
		return
	}
	// a run whose head is not related to a later item's predecessor chain end: the head/neighbour
	// distinction is exercised when some run has an item that its head is related to but its
	// predecessor is not, or vice versa
	for i, st := range starts {
		end := len(elems)
		if i+1 < len(starts) {
			end = starts[i+1]
		}
		if end < len(elems) && end-st >= 2 && same(elems[st], elems[end]) {
			x.observe("runs", "preorder: run ends although its head is related to the next item")
		}
	}
}

var divDomain = []int{1, 2, 3, 4, 6, 12}
var prefDomain = []string{"", "a", "ab", "b"}

var intPreorders = []struct {
	name string
	f    func(a, b int) bool
}{
	{"a <= b", func(a, b int) bool { return a <= b }},
	{"a >= b", func(a, b int) bool { return a >= b }},
	{"a divides b", func(a, b int) bool { return b%a == 0 }},
}

// runsPreorderSmall: sequence number t over divDomain (length <= 6), all three relations.
func runsPreorderSmall(x *cx, t int) {
	l, p := 0, 1
	for t >= p {
		t -= p
		p *= len(divDomain)
		l++
	}
	s := make([]int, l)
	for i := range s {
		s[i] = divDomain[t%len(divDomain)]
		t /= len(divDomain)
	}
	for _, r := range intPreorders {
		runsPreorder(x, s, r.name, r.f, sentInt)
	}
}

func runsPrefixSmall(x *cx, t int) {
	l, p := 0, 1
	for t >= p {
		t -= p
		p *= len(prefDomain)
		l++
	}
	s := make([]string, l)
	for i := range s {
		s[i] = prefDomain[t%len(prefDomain)]
		t /= len(prefDomain)
	}
	runsPreorder(x, s, "a is a prefix of b", func(a, b string) bool { return strings.HasPrefix(b, a) }, sentStr)
}

func nSeq(dom, maxLen int) int {
	n, p := 0, 1
	for l := 0; l <= maxLen; l++ {
		n += p
		p *= dom
	}
	return n
}

func runsPreorderLarge(x *cx, rnd *vkit.Rand) {
	n := rnd.Range(7, 3000)
	s := make([]int, n)
	for i := range s {
		s[i] = divDomain[rnd.Intn(len(divDomain))]
		if rnd.Bool(0.3) {
			s[i] = 1 + rnd.Intn(50)
		}
	}
	for _, r := range intPreorders {
		runsPreorder(x, s, r.name, r.f, sentInt)
	}
}
