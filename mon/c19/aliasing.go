package main

import (
	"fmt"

	"github.com/bradenaw/juniper/xmaps"
	"github.com/bradenaw/juniper/xslices"
)

// Aliasing arguments: calls whose slice-ish arguments overlap each other. Expected results come
// from a reference that first copies every input. Only overlaps with a defined meaning are judged:
// read-only helpers (Join, Equal, EqualFunc, the set algebra with one set passed several times),
// Insert with values taken from s itself (juniper's Insert is documented as slices.Insert, which
// handles that), and reuse of the slice returned by Remove. MergeSlices with `out` overlapping an
// input is not documented and not called.

func distinctItems(n int) []item {
	out := make([]item, n)
	for i := range out {
		out[i] = item{K: i % 3, ID: i}
	}
	return out
}

// insertAliased: Insert(s, idx, s[j:j+m]...) for every idx, j, m and several capacities.
func insertAliased(x *cx, n int) {
	base := distinctItems(n)
	for _, spare := range []int{0, 1, 2, n, n + 3} {
		for idx := 0; idx <= n; idx++ {
			for j := 0; j <= n; j++ {
				for m := 0; j+m <= n; m++ {
					if x.failed {
						return
					}
					g := guard(base, spare, sentItem)
					want := make([]item, 0, n+m)
					want = append(want, base[:idx]...)
					want = append(want, base[j:j+m]...)
					want = append(want, base[idx:]...)
					in := fmt.Sprintf("s = %s (cap %d), %d, s[%d:%d]...", show(base), n+spare, idx, j, j+m)
					var got []item
					p := x.try("xslices.Insert", func() { got = xslices.Insert(g.s, idx, g.s[j:j+m]...) })
					nt := ""
					if m > 0 {
						nt = "aliased|Insert|" + in
					}
					x.eval(nt)
					if x.unexpectedPanic("xslices.Insert", p, in) {
						return
					}
					if !eqSlice(got, want) || !g.padsOK() {
						x.fail("xslices.Insert-aliased-values", fmt.Sprintf("Insert(%s) = %v, want %v (the values as they were when the call was made)", in, show(got), show(want)),
							map[string]any{"input": in, "got": show(got), "want": show(want)})
						return
					}
					if m > 0 && n+m <= n+spare {
						x.observe("aliasing arguments", "Insert in place with values from s itself")
					} else if m > 0 {
						x.observe("aliasing arguments", "Insert reallocating with values from s itself")
					}
				}
			}
		}
	}
}

// windows returns all (from, to) windows of a slice of length n.
func windows(n int) [][2]int {
	var out [][2]int
	for a := 0; a <= n; a++ {
		for b := a; b <= n; b++ {
			out = append(out, [2]int{a, b})
		}
	}
	return out
}

// readOnlyAliased: Join of overlapping windows of one array; Equal / EqualFunc of overlapping
// windows.
func readOnlyAliased(x *cx, n int) {
	base := distinctItems(n)
	for i := range base {
		base[i].ID = 0 // so that different windows can be equal
	}
	ws := windows(n)
	for _, w1 := range ws {
		for _, w2 := range ws {
			if x.failed {
				return
			}
			g := guard(base, 1, sentItem)
			a, b := g.s[w1[0]:w1[1]], g.s[w2[0]:w2[1]]
			ca, cb := cloneOf(base[w1[0]:w1[1]]), cloneOf(base[w2[0]:w2[1]])
			in := fmt.Sprintf("s = %s: s[%d:%d], s[%d:%d]", show(base), w1[0], w1[1], w2[0], w2[1])
			var gotEq, gotEqF bool
			var gotJ []item
			p := x.try("xslices.Equal", func() { gotEq = xslices.Equal(a, b) })
			p2 := x.try("xslices.EqualFunc", func() { gotEqF = xslices.EqualFunc(a, b, func(u, v item) bool { return u.K == v.K }) })
			p3 := x.try("xslices.Join", func() { gotJ = xslices.Join(a, b, a) })
			x.evals += 3
			x.dist = append(x.dist, "aliased|read-only|"+in)
			if x.unexpectedPanic("xslices.Equal", p, in) || x.unexpectedPanic("xslices.EqualFunc", p2, in) || x.unexpectedPanic("xslices.Join", p3, in) {
				return
			}
			wantJ := append(append(cloneOf(ca), cb...), ca...)
			switch {
			case gotEq != eqSlice(ca, cb):
				x.wrong("xslices.Equal", in, gotEq, eqSlice(ca, cb))
			case gotEqF != eqSlice(ca, cb):
				x.wrong("xslices.EqualFunc", in, gotEqF, eqSlice(ca, cb))
			case !eqSlice(gotJ, wantJ):
				x.wrong("xslices.Join", in+", s[first window] again", show(gotJ), show(wantJ))
			case !g.same(base) || !g.spareOK():
				x.fail("xslices.Join-modified-input", "a read-only helper modified its overlapping inputs: "+in, nil)
			default:
				independentOf(x, "xslices.Join", in, gotJ, []*gslice[item]{g})
			}
			x.observe("aliasing arguments", "Equal/EqualFunc/Join of overlapping windows")
		}
	}
}

// removeReuse: r := Remove(s, i, k); then Insert(r, j, v...) (in place: r has the capacity) and
// RemoveUnordered / Remove again, against a model on copies.
func removeReuse(x *cx, n int) {
	base := distinctItems(n)
	vals := []item{{7, 100}, {8, 101}}
	for i := 0; i <= n; i++ {
		for k := 0; i+k <= n; k++ {
			model := append(cloneOf(base[:i]), base[i+k:]...)
			for j := 0; j <= len(model); j++ {
				for m := 0; m <= 2; m++ {
					if x.failed {
						return
					}
					g := guard(base, 0, sentItem)
					in := fmt.Sprintf("s = %s: r = Remove(s, %d, %d); Insert(r, %d, %d values); Remove(that, 0, 1)", show(base), i, k, j, m)
					var r, r2, r3 []item
					p := x.try("xslices.Remove", func() { r = xslices.Remove(g.s, i, k) })
					if x.unexpectedPanic("xslices.Remove", p, in) {
						return
					}
					p = x.try("xslices.Insert", func() { r2 = xslices.Insert(r, j, vals[:m]...) })
					if x.unexpectedPanic("xslices.Insert", p, in) {
						return
					}
					want2 := append(append(cloneOf(model[:j]), vals[:m]...), model[j:]...)
					x.evals += 2
					x.dist = append(x.dist, "aliased|reuse|"+in)
					if !eqSlice(r2, want2) {
						x.wrong("xslices.Insert", in, show(r2), show(want2))
						return
					}
					if len(r2) > 0 {
						p = x.try("xslices.Remove", func() { r3 = xslices.Remove(r2, 0, 1) })
						if x.unexpectedPanic("xslices.Remove", p, in) {
							return
						}
						if !eqSlice(r3, want2[1:]) {
							x.wrong("xslices.Remove", in, show(r3), show(want2[1:]))
							return
						}
					}
					if !g.padsOK() {
						x.fail("xslices.Remove-wrote-outside", "reusing the slice returned by Remove wrote outside the original array: "+in, nil)
						return
					}
					x.observe("aliasing arguments", "reuse of the slice returned by Remove")
				}
			}
		}
	}
}

// setsAliased: the same set object passed two and three times.
func setsAliased(x *cx) {
	for code := 0; code <= 8; code++ {
		var el []int
		for b := 0; b < 3; b++ {
			if code>>uint(b)&1 == 1 && code < 8 {
				el = append(el, b)
			}
		}
		a := setOf[xmaps.Set[int]](el, code == 8)
		other := setOf[xmaps.Set[int]]([]int{1, 2}, false)
		setAlgebra(x, []xmaps.Set[int]{a, a}, "same set twice")
		setAlgebra(x, []xmaps.Set[int]{a, a, a}, "same set three times")
		setAlgebra(x, []xmaps.Set[int]{a, other, a}, "same set twice around another")
		x.observe("aliasing arguments", "set algebra with one set passed several times")
	}
}
