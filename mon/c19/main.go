// C19 — the pure helpers of xslices, xsort, xmaps, xmath, xerrors and xmath/xrand match their
// documentation.
//
// Oracle: one reference function per exported helper, written from its doc comment (post-condition
// oracles where the documentation under-specifies the result), compared on the spot on a complete
// small scope and on random large inputs; for xrand additionally a chi-square frequency monitor
// over the possible subsets / permutations with a critical value for p = 1e-9.
package main

import (
	"errors"
	"fmt"
	"math"
	"math/rand"
	"runtime"

	"github.com/bradenaw/juniper/xslices"

	"verif/vkit"
)

// Every exported function (and method) of the six packages; each must have been called.
var exported = []string{
	"xslices.All", "xslices.Any", "xslices.Chunk", "xslices.Clear", "xslices.Clone", "xslices.Compact", "xslices.CompactFunc",
	"xslices.CompactInPlace", "xslices.CompactInPlaceFunc", "xslices.Count", "xslices.CountFunc", "xslices.Equal", "xslices.EqualFunc",
	"xslices.Fill", "xslices.Filter", "xslices.FilterInPlace", "xslices.Group", "xslices.Grow", "xslices.Index", "xslices.IndexFunc",
	"xslices.Insert", "xslices.Join", "xslices.LastIndex", "xslices.LastIndexFunc", "xslices.Map", "xslices.Partition", "xslices.Reduce",
	"xslices.Remove", "xslices.RemoveUnordered", "xslices.Repeat", "xslices.Reverse", "xslices.Runs", "xslices.Shrink", "xslices.Unique",
	"xslices.UniqueInPlace",
	"xsort.Greater", "xsort.LessOrEqual", "xsort.GreaterOrEqual", "xsort.Equal", "xsort.Reverse", "xsort.LessCompare", "xsort.Slice",
	"xsort.SliceStable", "xsort.SliceIsSorted", "xsort.Search", "xsort.Merge", "xsort.MergeSlices", "xsort.MinK", "xsort.OrderedLess",
	"xmaps.Reverse", "xmaps.ReverseSingle", "xmaps.ToIndex", "xmaps.FromKeysAndValues", "xmaps.Set.Add", "xmaps.Set.Remove",
	"xmaps.Set.Contains", "xmaps.SetFromSlice", "xmaps.Union", "xmaps.Intersection", "xmaps.Intersects", "xmaps.Difference",
	"xmath.Abs", "xmath.Min", "xmath.Max", "xmath.Clamp",
	"xerrors.WithStack",
	"xrand.Shuffle", "xrand.RShuffle", "xrand.Sample", "xrand.RSample", "xrand.SampleIterator", "xrand.RSampleIterator",
	"xrand.SampleStream", "xrand.RSampleStream", "xrand.SampleSlice", "xrand.RSampleSlice",
}

func main() {
	vkit.Main("C19", "exploration", func(r *vkit.Report) {
		r.SetRule("evaluation = one library call compared with its reference function / post-condition (a frequency table of 200000 draws counts as one). " +
			"non-trivial = the call's input is non-empty (slices/sets/maps: total length >= 1; xmath: every call; xerrors: the chain contains at least one WithStack of a non-nil error; " +
			"xrand: n >= 1 and k >= 1, Shuffle n >= 2; frequency tables: all). distinct = by (function, element type, input, every further argument incl. predicate/equivalence/order, capacity shape). " +
			"Small scope, enumerated completely: every slice over {0,1,2} of length <= L (L = 6 quick, 7 thorough) x every index/count argument within the documented range " +
			"(plus the out-of-range ones that are documented to panic) x all 8 predicates / 5 equivalences / 4 orders on {0,1,2} x capacity shapes; 0-4 input slices/sets for the variadic helpers; " +
			"error chains of depth <= 4 (5 thorough); (n, k) <= 8 for sampling. Then random large inputs.")
		r.Assume("predicates, equivalences and orders given to the library are functions of the element's key only, equivalences are equivalence relations, orders are strict weak orders (incl. ones with ties); inputs of Search/Merge/MergeSlices are sorted")
		r.Assume("index/count arguments are within the documented range except where a panic is documented (Chunk <= 0, FromKeysAndValues length mismatch, Abs of the minimum); Clamp is called with min <= max; no NaN")
		r.Assume("'every subset equally likely' is decided statistically: Pearson chi-square over all C(n,k) <= 35 subsets, 200000 seeded draws per table, critical value for p = 1e-9 (Wilson-Hilferty); a bias of a few percent is out of reach")
		r.Assume("not judged (recorded under 'observed'): whether in-place variants zero the abandoned tail, whether non-in-place results share storage, order within Group's groups and Reverse's key lists, which duplicate wins in ToIndex/FromKeysAndValues/ReverseSingle, which of several equal items Search returns, direction of Reduce, Intersection()/Intersects() of zero sets, order of sampled items")

		workers := min(8, runtime.GOMAXPROCS(0))
		L := r.Scale(6, 7)

		fixes(r)

		// ---- complete small scope
		r.Cases("xslices-small", nSmall(L), workers, func(c *vkit.Case) {
			x := newCx(c, true)
			xslicesSmall(x, smallSlice(c.Index))
			x.flush()
		})
		pairLen := r.Scale(4, 5)
		r.Cases("xslices-pairs", nSmall(pairLen), workers, func(c *vkit.Case) {
			x := newCx(c, true)
			xslicesPairsSmall(x, smallSlice(c.Index), pairLen)
			x.flush()
		})
		// Join of 0..4 slices: pool lengths per number of inputs
		joinLens := []int{0, L, 4, r.Scale(2, 3), 2}
		for nIn := 0; nIn <= 4; nIn++ {
			nIn := nIn
			total := ipow(nSmall(joinLens[nIn]), nIn)
			batched(r, fmt.Sprintf("xslices-join%d", nIn), total, 256, workers, func(x *cx, t int) {
				xslicesJoinSmall(x, nIn, t, joinLens[nIn])
			})
		}

		// Runs under non-symmetric preorders (its doc asks only for reflexive + transitive)
		batched(r, "runs-preorder", nSeq(len(divDomain), 6), 512, workers, runsPreorderSmall)
		batched(r, "runs-prefix", nSeq(len(prefDomain), 6), 512, workers, runsPrefixSmall)
		r.Cases("runs-preorder-large", r.Scale(60, 1500), workers, func(c *vkit.Case) {
			x := newCx(c, false)
			runsPreorderLarge(x, c.Rand)
			x.flush()
		})
		r.Floor("Runs under a preorder: run ends although its head is related to the next item", r.Table("runs", "preorder: run ends although its head is related to the next item"), 1)
		r.Cases("xsort-small", nSmall(L), workers, func(c *vkit.Case) {
			x := newCx(c, true)
			xsortSmall(x, smallSlice(c.Index))
			x.flush()
		})
		r.Cases("xsort-cmp", 1, 1, func(c *vkit.Case) {
			x := newCx(c, true)
			var universe []item
			for k := -1; k <= 3; k++ {
				universe = append(universe, item{k, 0}, item{k, 1})
			}
			for _, o := range smallOrders {
				cmpHelpers(x, universe, o)
			}
			orderedLessAll(x)
			x.flush()
		})
		mergeLens := []int{0, L, L, r.Scale(3, 4), r.Scale(2, 3)}
		for oi, o := range smallOrders {
			for nIn := 0; nIn <= 4; nIn++ {
				o, nIn := o, nIn
				pool := sortedPool(o, mergeLens[nIn])
				total := ipow(len(pool), nIn)
				if o.name == "all equal" && nIn >= 2 {
					// every slice is sorted under this order: keep the pool small
					pool = sortedPool(o, []int{0, 0, 3, 2, 1}[nIn])
					total = ipow(len(pool), nIn)
				}
				batched(r, fmt.Sprintf("xsort-merge-o%d-in%d", oi, nIn), total, 256, workers, func(x *cx, t int) {
					xsortMergeTuple(x, o, pool, nIn, t)
				})
			}
		}

		for nIn := 0; nIn <= 4; nIn++ {
			nIn := nIn
			pool := sortedPool(smallOrders[0], []int{0, 3, 3, 3, 2}[nIn])
			batched(r, fmt.Sprintf("xsort-merge-lazy-args%d", nIn), ipow(len(pool), nIn), 256, workers, func(x *cx, t int) {
				mergeLazyTuple(x, smallOrders[0], pool, nIn, t)
			})
		}
		r.Floor("Merge with the caller's argument slice overwritten after the call", r.Table("argument integrity", "xsort.Merge: caller's argument slice overwritten after the call"), 1)
		for nIn := 0; nIn <= 4; nIn++ {
			nIn := nIn
			batched(r, fmt.Sprintf("xmaps-sets%d", nIn), ipow(9, nIn), 256, workers, func(x *cx, t int) { xmapsSetTuple(x, nIn, t) })
		}
		r.Cases("xmaps-keys", nSmall(L), workers, func(c *vkit.Case) {
			x := newCx(c, true)
			keys := smallSlice(c.Index)
			lens := make([]int, 0, len(keys)+3)
			for l := 0; l <= len(keys)+2; l++ {
				lens = append(lens, l)
			}
			keysFns(x, "int", keys, lens, fmt.Sprint(keys))
			keysFns(x, "string", stringsOf(keys), []int{len(keys), len(keys) + 1}, fmt.Sprint(keys))
			if c.Index == 0 {
				keysFns[int](x, "int (nil)", nil, []int{0, 1}, "nil")
			}
			x.flush()
		})
		batched(r, "xmaps-reverse", 256, 64, workers, func(x *cx, t int) { xmapsReverseSmall(x, t) })
		r.Cases("xmaps-set-methods", 1, 1, func(c *vkit.Case) {
			x := newCx(c, true)
			setMethods(x)
			x.flush()
		})

		r.Cases("xmath", 3, 3, func(c *vkit.Case) {
			x := newCx(c, true)
			switch c.Index {
			case 0:
				absAll(x, c.Rand, true)
			case 1:
				for i := 0; i < r.Scale(3, 30); i++ {
					orderedAll(x, c.Rand)
				}
			default:
				int8Exhaustive(x)
			}
			x.flush()
		})

		chainDepth := r.Scale(4, 5)
		batched(r, "xerrors-small", nChains(chainDepth), 64, workers, func(x *cx, t int) { xerrorsSmall(x, t, chainDepth) })
		r.Cases("xerrors-trees", r.Scale(200, 4000), workers, func(c *vkit.Case) {
			x := newCx(c, true)
			if c.Index == 0 {
				for _, t := range fixedTrees(c.Rand) {
					treeCase(x, c.Rand, t)
				}
			}
			for i := 0; i < 10 && !x.failed; i++ {
				treeCase(x, c.Rand, genTree(c.Rand, 3))
			}
			x.flush()
		})
		r.Cases("twin", r.Scale(120, 2000), workers, func(c *vkit.Case) {
			x := newCx(c, true)
			if c.Index%2 == 0 {
				twinErrors(x, c.Rand)
			} else {
				twinCalls(x, c.Rand)
			}
			x.flush()
		})
		r.Cases("xerrors-fixed", 1, 1, func(c *vkit.Case) {
			x := newCx(c, true)
			xerrorsFixed(x)
			x.flush()
		})

		nkMax := 8
		r.Cases("xrand-small", (nkMax+1)*(nkMax+1), workers, func(c *vkit.Case) {
			x := newCx(c, true)
			n, k := c.Index/(nkMax+1), c.Index%(nkMax+1)
			rr := rand.New(rand.NewSource(int64(c.Rand.Uint64() >> 1)))
			reps := r.Scale(40, 400)
			if slow32 {
				reps = 40
			}
			for rep := 0; rep < reps && !x.failed; rep++ {
				sampleCheck(x, rr, n, k)
			}
			if k == 0 {
				for rep := 0; rep < 20; rep++ {
					shuffleCheck(x, rr, n, false)
					shuffleCheck(x, rr, n, true)
				}
			}
			x.flush()
		})

		// ---- legal arguments near math.MaxInt (zero-size element types make astronomic lengths real)
		r.Cases("astronomic", 4, min(4, workers), func(c *vkit.Case) {
			x := newCx(c, true)
			switch c.Index {
			case 0:
				astroZeroSize[struct{}](x, "[]struct{}")
			case 1:
				astroZeroSize[[0]int](x, "[][0]int")
			case 2:
				astroCounts(x)
			default:
				astroSample(x, c.Rand)
			}
			x.flush()
		})

		// ---- arguments that overlap each other
		r.Cases("aliasing", 9, workers, func(c *vkit.Case) {
			x := newCx(c, true)
			if c.Index == 8 {
				setsAliased(x)
			} else {
				insertAliased(x, c.Index)
				if c.Index <= 5 {
					readOnlyAliased(x, c.Index)
					removeReuse(x, c.Index)
				}
			}
			x.flush()
		})

		// ---- 32-bit only: lengths above MaxInt/2 with real memory (thorough; strictly one at a time)
		if slow32 && r.Thorough() {
			r.Cases("big32", 1, 1, func(c *vkit.Case) {
				x := newCx(c, true)
				big32(x)
				x.flush()
			})
			r.Floor("big32: Search moving right over more than MaxInt/2 one-byte items", r.Table("big32", "Search moving right over more than MaxInt/2 one-byte items"), 1)
			r.Floor("big32: zero-size slices longer than 2^30 through the looping helpers", r.Table("big32", "zero-size slices longer than 2^30 through the looping helpers"), 2)
		}

		// ---- random large
		nLarge := r.Scale(240, 4000)
		maxN := r.Scale(1500, 20000)
		r.Cases("large", nLarge, workers, func(c *vkit.Case) {
			x := newCx(c, false)
			rnd := c.Rand
			switch c.Index % 6 {
			case 0, 1:
				xslicesLarge(x, rnd, maxN)
			case 2:
				xsortLarge(x, rnd, maxN)
			case 3:
				xmapsLarge(x, rnd, maxN)
			case 4:
				for i := 0; i < 20; i++ {
					xerrorsLarge(x, rnd)
				}
				absExtremes[int64](x, "int64", math.MinInt64, math.MaxInt64, rnd)
				absExtremes[int32](x, "int32", math.MinInt32, math.MaxInt32, rnd)
				orderedAll(x, rnd)
			default:
				rr := rand.New(rand.NewSource(int64(rnd.Uint64() >> 1)))
				for i := 0; i < 10 && !x.failed; i++ {
					n := rnd.Range(9, maxN)
					if rnd.Bool(0.5) {
						n = rnd.Range(9, 100)
					}
					k := []int{1, 2, rnd.Range(0, n), rnd.Range(0, n), n - 1, n, n + 1, n + rnd.Intn(50), rnd.Range(0, 20)}[rnd.Intn(9)]
					sampleCheck(x, rr, n, k)
					shuffleCheck(x, rr, n, rnd.Bool(0.3))
				}
			}
			x.flush()
		})

		// ---- frequency monitor
		tables := freqTables()
		draws := 200000
		perTable := r.Scale(1, 4) // quick: each table through one of the four RSample* functions (rotating); thorough: all four
		if slow32 {
			draws, perTable = 20000, 1 // 32-bit: the sampler's float code is ~50x slower; same false-alarm bound
		}
		r.Cases("frequency", len(tables)*perTable, workers, func(c *vkit.Case) {
			x := newCx(c, true)
			t := tables[c.Index/perTable]
			fi := c.Index % perTable
			if perTable == 1 {
				fi = (c.Index + int(r.Seed()%4)) % 4
			}
			frequencyCase(x, c.Rand, t, fi, draws)
			x.flush()
		})
		shuffleNs := []int{2, 3, 4, 5, 6, 7, 8, 10, 16, 35}
		r.Cases("shuffle-frequency", len(shuffleNs), workers, func(c *vkit.Case) {
			x := newCx(c, true)
			shuffleFrequencyCase(x, c.Rand, shuffleNs[c.Index], draws)
			x.flush()
		})

		// ---- floors
		for _, fn := range exported {
			r.Floor("calls of "+fn, r.Table("calls", fn), 1)
		}
		r.Floor("frequency tables over subsets (every (n,k) with 2 <= C(n,k) <= 35)", r.Table("frequency tables", "subsets"), int64(len(tables)*perTable))
		r.Floor("frequency tables over shuffle permutations", r.Table("frequency tables", "shuffle permutations"), 3)
		r.Floor("frequency tables over shuffle positions", r.Table("frequency tables", "shuffle position of one item"), 90)
		r.Floor("documented panic seen: Chunk", r.Table("documented panics seen", "xslices.Chunk chunkSize <= 0"), 1)
		r.Floor("documented panic seen: FromKeysAndValues", r.Table("documented panics seen", "xmaps.FromKeysAndValues length mismatch"), 1)
		for _, tn := range []string{"int8", "int16", "int32", "int64", "int", "named int", "named int8", "named int32", "named int64"} {
			r.Floor("documented panic seen: Abs of the minimum of "+tn, r.Table("documented panics seen", "xmath.Abs of the minimum of "+tn), 1)
		}
		r.Floor("astronomic: Chunk into >= 2 chunks with 2*chunkSize > MaxInt", r.Table("astronomic", "Chunk with >= 2 chunks and 2*chunkSize > MaxInt"), 1)
		hugeN, _, _ := hugeNs()
		r.Floor("astronomic: RSample tables with huge n (up to MaxInt)", r.Table("astronomic", "RSample tables with huge n"), int64(2*len(hugeN)))
		r.Floor("astronomic: RSample low-bit tables (position mod 2,3,4,8,16,256)", r.Table("astronomic", "RSample low-bit tables"), int64(12*len(hugeN)))
		for _, fn := range []string{"xsort.Merge", "xsort.MergeSlices", "xslices.Join", "xmaps.Union", "xmaps.Intersection", "xmaps.Intersects"} {
			r.Floor("argument-list integrity checks of "+fn, r.Table("argument integrity", fn), 1)
		}
		r.Floor("Merge with an empty input that is not last", r.Table("argument integrity", "xsort.Merge with an empty input that is not last"), 1)
		for _, k := range []string{"Insert in place with values from s itself", "Insert reallocating with values from s itself", "Equal/EqualFunc/Join of overlapping windows", "reuse of the slice returned by Remove", "set algebra with one set passed several times"} {
			r.Floor("aliasing arguments: "+k, r.Table("aliasing arguments", k), 1)
		}
		for _, fn := range []string{"xslices.Clone", "xslices.Filter", "xslices.Map", "xslices.Unique", "xslices.Compact", "xslices.CompactFunc", "xslices.Join", "xsort.MergeSlices", "xmaps.Union", "xmaps.Intersection", "xmaps.Difference"} {
			r.Floor("result-independence checks of "+fn, r.Table("result independence", fn), 1)
		}
		for _, k := range []string{"trees with at least one stack", "WithStack of an error with a stack somewhere in its tree", "WithStack inside a branch of a multi-error", "stacked target", "stacked target with a non-comparable inner error"} {
			r.Floor("error trees: "+k, r.Table("error trees", k), 1)
		}
		for _, k := range []string{"xerrors scenarios", "slice/map/sort/sample scenarios"} {
			r.Floor("twin oracle: "+k, r.Table("twin oracle", k), 1)
		}
		for _, fn := range []string{"xmaps.Reverse", "xslices.Group", "xslices.Runs", "xslices.Chunk"} {
			r.Floor("result parts independence checks of "+fn, r.Table("result parts independence", fn), 1)
		}
		r.Floor("Runs inputs with a leading run of length one", r.Table("runs", "leading run of length one"), 1)
		r.Floor("Partition inputs with both sides non-empty", r.Table("partition", "both sides non-empty"), 1)
		r.Floor("RemoveUnordered calls that fill a gap from the end", r.Table("remove-unordered", "gap filled from the end"), 1)
		r.Floor("Search for an item present more than once", r.Table("search", "present more than once"), 1)
		r.Floor("Search for an absent item", r.Table("search", "absent"), 1)
		r.Floor("MinK with 0 < k < n", r.Table("mink", "0 < k < n"), 1)
		r.Floor("MergeSlices into a provided out slice", r.Table("mergeslices", "result stored into the provided out"), 1)
		r.Floor("Shrink calls that had to reallocate", r.Table("shrink", "had to reallocate"), 1)
		r.Floor("WithStack applied directly to a stacked error", r.Table("withstack", "applied directly to a stacked error"), 1)
		r.Floor("WithStack applied to a chain with a stack deeper inside", r.Table("withstack", "applied to a chain with a stack deeper inside"), 1)
		for n := 0; n <= 4; n++ {
			r.Floor(fmt.Sprintf("Merge/MergeSlices of %d inputs", n), r.Table("number of inputs", fmt.Sprintf("xsort.Merge: %d", n)), 1)
			r.Floor(fmt.Sprintf("Join of %d inputs", n), r.Table("number of inputs", fmt.Sprintf("xslices.Join: %d", n)), 1)
			r.Floor(fmt.Sprintf("Union/Intersection/Intersects of %d sets", n), r.Table("number of inputs", fmt.Sprintf("xmaps set algebra: %d", n)), 1)
		}
		r.SetExtra("small_scope", map[string]any{
			"slices over {0,1,2} up to length": L, "slices": nSmall(L), "error chains up to depth": chainDepth, "error chains": nChains(chainDepth),
			"sampling (n,k) up to": nkMax, "frequency tables": len(tables) * perTable, "draws per table": draws, "enumerated completely": true,
		})
		r.SetExhaustive(false)
	})
}

// batched runs fn for t = 0..total-1, `batch` values of t per case.
func batched(r *vkit.Report, group string, total, batch, workers int, fn func(x *cx, t int)) {
	n := (total + batch - 1) / batch
	r.Cases(group, n, workers, func(c *vkit.Case) {
		x := newCx(c, true)
		for t := c.Index * batch; t < total && t < (c.Index+1)*batch && !x.failed; t++ {
			fn(x, t)
		}
		x.flush()
	})
}

// fixes: one named regression scenario per defect already repaired in /repo (KNOWN_FINDINGS.txt
// "fixed:" lines for C19), each failing again if the defect returns.
func fixes(r *vkit.Report) {
	r.Cases("fixes", 1, 1, func(c *vkit.Case) {
		x := newCx(c, true)
		defer x.flush()
		ei := &env[int]{x: x, sent: sentInt, key: keyInt, tn: "int", inKey: "fixes"}
		eq := func(a, b int) bool { return a == b }

		// D2 (71b658d): Runs lost a leading run of length one.
		for _, in := range [][]int{{1}, {1, 2, 2}, {1, 2}, {3, 1, 1, 1}} {
			var got [][]int
			p := x.try("xslices.Runs", func() { got = xslices.Runs(cloneOf(in), eq) })
			x.eval(fmt.Sprint("fix-D2|", in))
			if p != nil || len(got) == 0 || len(got[0]) != 1 || got[0][0] != in[0] {
				x.fail("fix-D2-runs-leading-run", fmt.Sprintf("Runs(%v) = %v: the leading run of length one is lost", in, got), map[string]any{"input": in})
				return
			}
		}
		// D14 (6c48d62): Chunk with a non-positive chunkSize always panics.
		for n := 0; n <= 12; n++ {
			for cs := -14; cs <= 0; cs++ {
				var got [][]int
				p := x.try("xslices.Chunk", func() { got = xslices.Chunk(make([]int, n), cs) })
				x.eval(fmt.Sprint("fix-D14|", n, cs))
				if p == nil {
					x.fail("fix-D14-chunk-nonpositive", fmt.Sprintf("Chunk(slice of length %d, %d) returned %v instead of panicking", n, cs, got), map[string]any{"len": n, "chunkSize": cs})
					return
				}
			}
		}
		// 93b90e7: Chunk with a chunkSize close to MaxInt returns the single chunk.
		for n := 0; n <= 5; n++ {
			for d := 0; d <= 6; d++ {
				ei.chunk(inputOf(n), 0, math.MaxInt-d)
			}
		}
		// D15 (8599d38): WithStack of an error that already has a stack returns it unchanged.
		{
			w1 := callWithStack(errors.New("x"))
			w2 := callWithStack(w1)
			mid := fmt.Errorf("mid: %w", w1)
			w3 := callWithStack(mid)
			x.calls["xerrors.WithStack"] += 3
			x.eval("fix-D15")
			if !sameErr(w1, w2) || !sameErr(w3, mid) {
				x.fail("fix-D15-withstack-idempotent", fmt.Sprintf("WithStack of an error that already has a stack wrapped it again (directly: %v, one wrapper above: %v)", !sameErr(w1, w2), !sameErr(w3, mid)), nil)
				return
			}
		}
		chainCheck(x, 0, []int{layStack, layStack})
		chainCheck(x, 0, []int{layStack, layFmt, layStack})
		chainCheck(x, 1, []int{layPtr, layStack, layPtr, layStack, layStack})
	})
}
