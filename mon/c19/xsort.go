package main

import (
	"cmp"
	"fmt"
	"math"

	"github.com/bradenaw/juniper/iterator"
	"github.com/bradenaw/juniper/xsort"

	"verif/vkit"
)

// orderSpec is a strict weak order on keys given by a rank function: a < b iff rank(a) < rank(b).
// Ranks with several keys per value give orders with ties.
type orderSpec struct {
	name string
	rank func(k int) int
}

var smallOrders = []orderSpec{
	{"by key", func(k int) int { return k }},
	{"by key, descending", func(k int) int { return -k }},
	{"by key/2 (0 and 1 tie)", func(k int) int { return (k + 10) / 2 }},
	{"all equal", func(k int) int { return 0 }},
}

func randOrder(r *vkit.Rand) orderSpec {
	switch r.Intn(5) {
	case 0:
		return orderSpec{"by key", func(k int) int { return k }}
	case 1:
		return orderSpec{"by key, descending", func(k int) int { return -k }}
	case 2:
		m := r.Range(2, 9)
		return orderSpec{fmt.Sprintf("by key/%d", m), func(k int) int { return (k + 1000*m) / m }}
	case 3:
		m := r.Range(2, 9)
		return orderSpec{fmt.Sprintf("by key%%%d", m), func(k int) int { return ((k % m) + m) % m }}
	default:
		return orderSpec{"by |key-500|", func(k int) int {
			if k < 500 {
				return 500 - k
			}
			return k - 500
		}}
	}
}

func lessOf[T any](o orderSpec, key func(T) int) xsort.Less[T] {
	return func(a, b T) bool { return o.rank(key(a)) < o.rank(key(b)) }
}

func sortedBy[T any](s []T, o orderSpec, key func(T) int) bool {
	for i := 1; i < len(s); i++ {
		if o.rank(key(s[i])) < o.rank(key(s[i-1])) {
			return false
		}
	}
	return true
}

// refStableSort: insertion sort (stable) by rank.
func refStableSort[T any](s []T, o orderSpec, key func(T) int) []T {
	out := cloneOf(s)
	for i := 1; i < len(out); i++ {
		v := out[i]
		j := i
		for j > 0 && o.rank(key(v)) < o.rank(key(out[j-1])) {
			out[j] = out[j-1]
			j--
		}
		out[j] = v
	}
	return out
}

// sortFns: Slice, SliceStable, SliceIsSorted, MinK on elems; Search if elems is sorted under o.
func (e *env[T]) sortFns(elems []T, spare int, o orderSpec, ks []int, probes []T) {
	x := e.x
	less := lessOf(o, e.key)
	in := fmt.Sprintf("%s, less = %s", show(elems), o.name)
	ref := refStableSort(elems, o, e.key)
	isSorted := sortedBy(elems, o, e.key)

	// Slice: sorted and a permutation.
	if !x.failed {
		g := guard(elems, spare, e.sent)
		p := x.try("xsort.Slice", func() { xsort.Slice(g.s, less) })
		x.eval(e.nt("xsort.Slice", elems, o.name))
		if !x.unexpectedPanic("xsort.Slice", p, in) {
			switch {
			case !sortedBy(g.s, o, e.key):
				x.fail("xsort.Slice-not-sorted", fmt.Sprintf("after Slice(%s) the slice is %v, not sorted", in, show(g.s)), map[string]any{"input": in, "after": show(g.s)})
			case !sameMultiset(g.s, elems):
				x.fail("xsort.Slice-not-permutation", fmt.Sprintf("after Slice(%s) the slice is %v, not a permutation of the input", in, show(g.s)), map[string]any{"input": in, "after": show(g.s)})
			case !g.spareOK():
				x.fail("xsort.Slice-wrote-outside", fmt.Sprintf("Slice(%s) wrote outside x[:len(x)]", in), nil)
			}
		}
	}
	// SliceStable: exactly the stable sort.
	if !x.failed {
		g := guard(elems, spare, e.sent)
		p := x.try("xsort.SliceStable", func() { xsort.SliceStable(g.s, less) })
		x.eval(e.nt("xsort.SliceStable", elems, o.name))
		if !x.unexpectedPanic("xsort.SliceStable", p, in) {
			if !eqSlice(g.s, ref) {
				x.fail("xsort.SliceStable-result", fmt.Sprintf("after SliceStable(%s) the slice is %v, the stable sort is %v", in, show(g.s), show(ref)),
					map[string]any{"input": in, "after": show(g.s), "want": show(ref)})
			} else if !g.spareOK() {
				x.fail("xsort.SliceStable-wrote-outside", fmt.Sprintf("SliceStable(%s) wrote outside x[:len(x)]", in), nil)
			}
		}
	}
	pureScalar(e, "xsort.SliceIsSorted", elems, spare, in, e.nt("xsort.SliceIsSorted", elems, o.name), isSorted, func(s []T) bool { return xsort.SliceIsSorted(s, less) })

	// MinK
	for _, k := range ks {
		if x.failed {
			return
		}
		g := guard(elems, spare, e.sent)
		var got []T
		ink := fmt.Sprintf("%s, k = %d", in, k)
		p := x.try("xsort.MinK", func() { got = xsort.MinK(less, iterator.Slice(g.s), k) })
		x.eval(e.nt("xsort.MinK", elems, o.name, k))
		if x.unexpectedPanic("xsort.MinK", p, ink) {
			return
		}
		bad := ""
		switch {
		case len(got) != min(k, len(elems)):
			bad = fmt.Sprintf("%d items, want min(k, n) = %d", len(got), min(k, len(elems)))
		case !subMultiset(got, elems):
			bad = "items are not taken from distinct positions of the input"
		case !g.same(elems):
			bad = "the input was modified"
		default:
			for i := range got {
				if o.rank(e.key(got[i])) != o.rank(e.key(ref[i])) {
					bad = fmt.Sprintf("item %d is %v, but the %d-th smallest is %v (or an equivalent)", i, got[i], i, ref[i])
					break
				}
			}
		}
		if bad != "" {
			x.fail("xsort.MinK-result", fmt.Sprintf("MinK(%s) = %v: %s", ink, show(got), bad), map[string]any{"input": ink, "got": show(got), "sorted_input": show(ref)})
			return
		}
		if k > 0 && k < len(elems) {
			x.observe("mink", "0 < k < n")
		}
	}

	// Search: only within the precondition (x sorted according to less).
	if !isSorted {
		return
	}
	for _, pv := range probes {
		if x.failed {
			return
		}
		rp := o.rank(e.key(pv))
		lo, hi := 0, 0
		for _, v := range elems {
			if o.rank(e.key(v)) < rp {
				lo++
			}
			if o.rank(e.key(v)) <= rp {
				hi++
			}
		}
		g := guard(elems, spare, e.sent)
		var got int
		inp := fmt.Sprintf("%s, item %v", in, pv)
		p := x.try("xsort.Search", func() { got = xsort.Search(g.s, less, pv) })
		x.eval(e.nt("xsort.Search", elems, o.name, e.key(pv)))
		if x.unexpectedPanic("xsort.Search", p, inp) {
			return
		}
		if hi == lo {
			if got != lo {
				x.fail("xsort.Search-absent", fmt.Sprintf("Search(%s) = %d; the item is not present and the index to insert it at is %d", inp, got, lo), map[string]any{"input": inp, "got": got, "want": lo})
				return
			}
			x.observe("search", "absent")
		} else {
			if got < lo || got >= hi {
				x.fail("xsort.Search-present", fmt.Sprintf("Search(%s) = %d; the item is present at indexes [%d,%d)", inp, got, lo, hi), map[string]any{"input": inp, "got": got, "present_from": lo, "present_to": hi})
				return
			}
			if hi-lo > 1 {
				x.observe("search", "present more than once")
				if got == lo {
					x.observe("search among equals (recorded, not judged)", "first of the equal items")
				} else {
					x.observe("search among equals (recorded, not judged)", "not the first")
				}
			} else {
				x.observe("search", "present once")
			}
		}
		if !g.same(elems) {
			x.fail("xsort.Search-modified-input", "Search("+inp+") modified x", nil)
		}
	}
}

// mergeFns: Merge and MergeSlices of the given sorted inputs.
func (e *env[T]) mergeFns(ins [][]T, o orderSpec, key string, outVariant int) {
	x := e.x
	if x.failed {
		return
	}
	less := lessOf(o, e.key)
	var all []T
	for _, s := range ins {
		all = append(all, s...)
	}
	n := len(all)
	in := fmt.Sprintf("less = %s, %v", o.name, ins)
	nt := ""
	if n > 0 {
		nt = fmt.Sprint("|", e.tn, "|", o.name, "|", key)
	}
	x.observe("number of inputs", fmt.Sprintf("xsort.Merge: %d", len(ins)))

	post := func(fn string, got []T) bool {
		switch {
		case len(got) != n || !sameMultiset(got, all):
			x.fail(fn+"-multiset", fmt.Sprintf("%s(%s) yielded %v, which is not all items of the inputs", fn, in, show(got)), map[string]any{"input": in, "got": show(got)})
		case !sortedBy(got, o, e.key):
			x.fail(fn+"-not-sorted", fmt.Sprintf("%s(%s) yielded %v, not in sorted order", fn, in, show(got)), map[string]any{"input": in, "got": show(got)})
		default:
			return true
		}
		return false
	}

	// Merge
	{
		gs := make([]*gslice[T], len(ins))
		plain := make([]iterator.Iterator[T], len(ins))
		ids := make([]*idIter[T], len(ins))
		for i, s := range ins {
			gs[i] = guard(s, i%2, e.sent)
			ids[i] = &idIter[T]{id: i, items: gs[i].s}
			plain[i] = ids[i]
		}
		var sentIt iterator.Iterator[T] = &idIter[T]{id: -1}
		ol := guardOuter(plain, sentIt)
		its := ol.s
		var got []T
		endedAgain := true
		p := x.try("xsort.Merge", func() {
			it := xsort.Merge(less, its...)
			for len(got) <= n+2 {
				v, ok := it.Next()
				if !ok {
					break
				}
				got = append(got, v)
			}
			if _, ok := it.Next(); ok && len(got) <= n {
				endedAgain = false
			}
		})
		mnt := ""
		if nt != "" {
			mnt = "Merge" + nt
		}
		x.eval(mnt)
		if x.unexpectedPanic("xsort.Merge", p, in) {
			return
		}
		if !post("xsort.Merge", got) {
			return
		}
		for i, g := range gs {
			if !g.same(ins[i]) || !g.spareOK() {
				x.fail("xsort.Merge-modified-input", fmt.Sprintf("Merge(%s) modified input %d", in, i), nil)
				return
			}
		}
		// argument integrity: the caller's list still holds the iterators it put there, and each of
		// them (used again through the list) is the drained iterator over its own input
		if why := ol.changed(func(a, b iterator.Iterator[T]) bool { return a == b }); why != "" {
			x.fail("xsort.Merge-modified-arguments", fmt.Sprintf("Merge(%s) modified the caller's variadic argument slice: %s", in, why), map[string]any{"input": in})
			return
		}
		for i := range its {
			v, ok := its[i].Next()
			if it, isID := its[i].(*idIter[T]); !isID || it.id != i || it != ids[i] || ok {
				x.fail("xsort.Merge-modified-arguments", fmt.Sprintf("Merge(%s): after the merge, the caller's input %d is not the drained iterator over its own input (Next yielded %v, %v)", in, i, v, ok), map[string]any{"input": in})
				return
			}
		}
		x.observe("argument integrity", "xsort.Merge")
		if len(ins) >= 2 && len(ins[0]) == 0 && n > 0 {
			x.observe("argument integrity", "xsort.Merge with an empty input that is not last")
		}
		if endedAgain {
			x.observe("iterator end (recorded, not judged)", "xsort.Merge: Next stays false after the end")
		} else {
			x.observe("iterator end (recorded, not judged)", "xsort.Merge: Next yielded again after the end")
		}
	}

	// MergeSlices
	{
		gs := make([]*gslice[T], len(ins))
		args := make([][]T, len(ins))
		for i, s := range ins {
			sp := (i + 1) % 2
			if len(s) == 0 && i%2 == 0 {
				sp = -1
			}
			gs[i] = guard(s, sp, e.sent)
			args[i] = gs[i].s
		}
		var out []T
		outName := "nil"
		switch outVariant % 5 {
		case 1:
			out = make([]T, 0, n)
			outName = "len 0, cap n"
		case 2:
			out = make([]T, min(3, n+2), n+2)
			for i := range out {
				out[i] = e.sent
			}
			outName = "len min(3,n+2) of garbage, cap n+2"
		case 3:
			if n >= 1 {
				out = make([]T, n-1)
				for i := range out {
					out[i] = e.sent
				}
				outName = "len n-1 of garbage, cap n-1 (too small)"
			}
		case 4:
			out = make([]T, n, n+7)
			for i := range out {
				out[i] = e.sent
			}
			outName = "len n of garbage, cap n+7"
		}
		var got []T
		ino := in + ", out: " + outName
		ol := guardOuter(args, []T{e.sent})
		p := x.try("xsort.MergeSlices", func() { got = xsort.MergeSlices(less, out, ol.s...) })
		mnt := ""
		if nt != "" {
			mnt = "MergeSlices" + nt + "|" + outName
		}
		x.eval(mnt)
		if x.unexpectedPanic("xsort.MergeSlices", p, ino) {
			return
		}
		if !post("xsort.MergeSlices", got) {
			return
		}
		for i, g := range gs {
			if !g.same(ins[i]) || !g.spareOK() {
				x.fail("xsort.MergeSlices-modified-input", fmt.Sprintf("MergeSlices(%s) modified input %d", ino, i), nil)
				return
			}
		}
		if why := ol.changed(sameSlice[T]); why != "" {
			x.fail("xsort.MergeSlices-modified-arguments", fmt.Sprintf("MergeSlices(%s) modified the caller's variadic argument slice: %s", ino, why), map[string]any{"input": ino})
			return
		}
		for i := range ol.s {
			if !eqSlice(ol.s[i], ins[i]) {
				x.fail("xsort.MergeSlices-modified-arguments", fmt.Sprintf("MergeSlices(%s): the caller's input %d now reads %v", ino, i, show(ol.s[i])), nil)
				return
			}
		}
		x.observe("argument integrity", "xsort.MergeSlices")

		if len(ins) == 3 && n >= 5 {
			x.sample("mergeslices", func() map[string]any {
				return map[string]any{"fn": "xsort.MergeSlices", "less": o.name, "in (items {key id})": fmt.Sprint(ins), "out": outName, "result": show(got)}
			})
		}
		if n > 0 && cap(out) >= n {
			if &got[0] != &out[:1][0] {
				x.fail("xsort.MergeSlices-out-not-used", fmt.Sprintf("MergeSlices(%s): the pre-allocated out slice has room for the result but the result was stored elsewhere", ino), map[string]any{"input": ino})
				return
			}
			x.observe("mergeslices", "result stored into the provided out")
		} else if n > 0 && out != nil {
			x.observe("mergeslices", "provided out too small")
		}
		// the result may live in out (documented) but never in an input
		independentOf(x, "xsort.MergeSlices", ino, got, gs)
	}
}

// cmpHelpers: Greater, LessOrEqual, GreaterOrEqual, Equal, Reverse, LessCompare on every pair of
// the universe under o.
func cmpHelpers(x *cx, universe []item, o orderSpec) {
	less := lessOf(o, keyItem)
	rev := xsort.Reverse(less)
	cmpf := xsort.LessCompare(less)
	x.calls["xsort.Reverse"]++
	x.calls["xsort.LessCompare"]++
	for _, a := range universe {
		for _, b := range universe {
			if x.failed {
				return
			}
			ra, rb := o.rank(a.K), o.rank(b.K)
			in := fmt.Sprintf("less = %s, %v, %v", o.name, a, b)
			nt := func(fn string) string { return fmt.Sprint(fn, "|", o.name, "|", a, b) }
			chk := func(fn string, want bool, call func() bool) {
				if x.failed {
					return
				}
				var got bool
				p := x.try(fn, func() { got = call() })
				x.eval(nt(fn))
				if !x.unexpectedPanic(fn, p, in) && got != want {
					x.wrong(fn, in, got, want)
				}
			}
			chk("xsort.Greater", ra > rb, func() bool { return xsort.Greater(less, a, b) })
			chk("xsort.LessOrEqual", ra <= rb, func() bool { return xsort.LessOrEqual(less, a, b) })
			chk("xsort.GreaterOrEqual", ra >= rb, func() bool { return xsort.GreaterOrEqual(less, a, b) })
			chk("xsort.Equal", ra == rb, func() bool { return xsort.Equal(less, a, b) })
			chk("xsort.Reverse", ra > rb, func() bool { return rev(a, b) })
			if !x.failed {
				var got int
				p := x.try("xsort.LessCompare", func() { got = cmpf(a, b) })
				x.eval(nt("xsort.LessCompare"))
				want := 0
				if ra < rb {
					want = -1
				} else if ra > rb {
					want = 1
				}
				// sort.SortFunc-style comparison: only the sign is specified
				if !x.unexpectedPanic("xsort.LessCompare", p, in) && sign(got) != want {
					x.wrong("xsort.LessCompare", in, got, fmt.Sprintf("a value with sign %d", want))
				}
			}
		}
	}
}

func sign(v int) int {
	switch {
	case v < 0:
		return -1
	case v > 0:
		return 1
	}
	return 0
}

// orderedLess: OrderedLess[T] on every pair of vals ("by using the < operator").
func orderedLess[T cmp.Ordered](x *cx, tn string, vals []T) {
	for _, a := range vals {
		for _, b := range vals {
			if x.failed {
				return
			}
			var got bool
			in := fmt.Sprintf("%s: %v, %v", tn, a, b)
			p := x.try("xsort.OrderedLess", func() { got = xsort.OrderedLess(a, b) })
			x.eval(fmt.Sprint("OrderedLess|", in))
			if !x.unexpectedPanic("xsort.OrderedLess", p, in) && got != (a < b) {
				x.wrong("xsort.OrderedLess", in, got, a < b)
			}
		}
	}
}

func orderedLessAll(x *cx) {
	orderedLess(x, "int", []int{math.MinInt, math.MinInt + 1, -2, -1, 0, 1, 2, math.MaxInt - 1, math.MaxInt})
	orderedLess(x, "int8", []int8{math.MinInt8, math.MinInt8 + 1, -1, 0, 1, math.MaxInt8 - 1, math.MaxInt8})
	orderedLess(x, "int16", []int16{math.MinInt16, -1, 0, 1, math.MaxInt16})
	orderedLess(x, "int32", []int32{math.MinInt32, -1, 0, 1, math.MaxInt32})
	orderedLess(x, "int64", []int64{math.MinInt64, math.MinInt64 + 1, -1, 0, 1, math.MaxInt64 - 1, math.MaxInt64})
	orderedLess(x, "uint", []uint{0, 1, 2, math.MaxUint - 1, math.MaxUint})
	orderedLess(x, "uint8", []uint8{0, 1, 127, 128, 254, 255})
	orderedLess(x, "uint16", []uint16{0, 1, math.MaxUint16})
	orderedLess(x, "uint32", []uint32{0, 1, math.MaxUint32})
	orderedLess(x, "uint64", []uint64{0, 1, 1 << 63, math.MaxUint64})
	orderedLess(x, "uintptr", []uintptr{0, 1, ^uintptr(0)})
	orderedLess(x, "float64", []float64{math.Inf(-1), -math.MaxFloat64, -1, -math.SmallestNonzeroFloat64, math.Copysign(0, -1), 0, math.SmallestNonzeroFloat64, 1, math.MaxFloat64, math.Inf(1)})
	orderedLess(x, "float32", []float32{float32(math.Inf(-1)), -math.MaxFloat32, -1, 0, math.SmallestNonzeroFloat32, 1, math.MaxFloat32, float32(math.Inf(1))})
	orderedLess(x, "string", []string{"", "\x00", "a", "a\x00", "ab", "b", "\xff", "é"})
	type myInt int16
	orderedLess(x, "named int16", []myInt{math.MinInt16, -1, 0, 1, math.MaxInt16})
}

// ---------------------------------------------------------------------------------------------
// Drivers

var probeKeys = []int{-1, 0, 1, 2, 3}

func xsortSmall(x *cx, keys []int) {
	et := &env[item]{x: x, sent: sentItem, key: keyItem, tn: "item", inKey: fmt.Sprint(keys)}
	items := itemsOf(keys, 0)
	n := len(keys)
	ks := make([]int, 0, n+2)
	for k := 0; k <= n+1; k++ {
		ks = append(ks, k)
	}
	probes := make([]item, len(probeKeys))
	for i, k := range probeKeys {
		probes[i] = item{K: k, ID: -1}
	}
	for oi, o := range smallOrders {
		et.sortFns(items, (n+oi)%2*2, o, ks, probes)
	}
	if n == 0 {
		et.sortFns(nil, -1, smallOrders[0], []int{0, 1}, probes)
	}
}

// sortedPool returns the indexes (in the smallSlice enumeration) of the slices of length <= maxLen
// that are sorted under o.
func sortedPool(o orderSpec, maxLen int) []int {
	var out []int
	for i := 0; i < nSmall(maxLen); i++ {
		if sortedBy(smallSlice(i), o, keyInt) {
			out = append(out, i)
		}
	}
	return out
}

func ipow(b, e int) int {
	r := 1
	for i := 0; i < e; i++ {
		r *= b
	}
	return r
}

// xsortMergeTuple: tuple number t (mixed radix over pool) of nIn sorted slices.
func xsortMergeTuple(x *cx, o orderSpec, pool []int, nIn int, t int) {
	ins := make([][]item, nIn)
	tt := t
	for i := 0; i < nIn; i++ {
		ins[i] = itemsOf(smallSlice(pool[tt%len(pool)]), 10*i)
		tt /= len(pool)
	}
	et := &env[item]{x: x, sent: sentItem, key: keyItem, tn: "item"}
	et.mergeFns(ins, o, fmt.Sprint(ins), t)
}

func xsortLarge(x *cx, rnd *vkit.Rand, maxN int) {
	n := rnd.Range(7, maxN)
	if rnd.Bool(0.3) {
		n = rnd.Range(7, 64)
	}
	keyRange := []int{2, 3, 10, 1000, 1000}[rnd.Intn(5)]
	keys := make([]int, n)
	for i := range keys {
		keys[i] = rnd.Intn(keyRange)
	}
	items := itemsOf(keys, 0)
	et := &env[item]{x: x, sent: sentItem, key: keyItem, tn: "item", inKey: x.c.ID()}
	o := randOrder(rnd)
	ks := []int{0, 1, rnd.Intn(n + 1), n - 1, n, n + 5}
	et.sortFns(items, rnd.Intn(3), o, ks, nil)
	// Search on the sorted version
	sorted := refStableSort(items, o, keyItem)
	probes := []item{{K: sorted[0].K, ID: -1}, {K: sorted[n-1].K, ID: -1}, {K: -3, ID: -1}, {K: keyRange + 3, ID: -1}}
	for i := 0; i < 6; i++ {
		probes = append(probes, item{K: rnd.Range(-1, keyRange), ID: -1})
	}
	et.inKey += "|sorted"
	et.sortFns(sorted, rnd.Intn(3), o, nil, probes)
	// Merge of 0..6 sorted pieces
	k := rnd.Intn(7)
	ins := make([][]item, k)
	for _, it := range items {
		if k > 0 && rnd.Bool(0.9) {
			j := rnd.Intn(k)
			if k > 2 && j == 1 {
				continue // keep one input empty
			}
			ins[j] = append(ins[j], it)
		}
	}
	for i := range ins {
		ins[i] = refStableSort(ins[i], o, keyItem)
	}
	et.mergeFns(ins, o, x.c.ID(), rnd.Intn(5))
	// the same data as plain ints under OrderedLess
	if !x.failed {
		ei := &env[int]{x: x, sent: sentInt, key: keyInt, tn: "int", inKey: x.c.ID()}
		ei.sortFns(keys, 1, orderSpec{"OrderedLess[int]", func(k int) int { return k }}, []int{rnd.Intn(n + 1)}, nil)
		g := guard(keys, 0, sentInt)
		p := x.try("xsort.Slice", func() { xsort.Slice(g.s, xsort.OrderedLess[int]) })
		x.eval("")
		if !x.unexpectedPanic("xsort.Slice", p, "ints, OrderedLess") && (!sortedBy(g.s, smallOrders[0], keyInt) || !sameMultiset(g.s, keys)) {
			x.fail("xsort.Slice-orderedless", fmt.Sprintf("Slice(%s, OrderedLess[int]) left %s", show(keys), show(g.s)), nil)
		}
	}
}
