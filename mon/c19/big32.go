package main

import (
	"fmt"
	"math"
	"runtime/debug"
	"syscall"

	"github.com/bradenaw/juniper/xslices"
	"github.com/bradenaw/juniper/xsort"
)

// 32-bit only (the 386 variant, thorough tier): lengths above MaxInt32/2 are reachable with real
// memory there. (i) zero-size element slices of length 2^30+5 .. MaxInt32 through the helpers that
// do per-index work (2^31 iterations are affordable, unlike 2^63); (ii) one-byte elements: a
// VIRTUAL slice (anonymous mapping; only the probed pages are ever touched) for Search with targets
// that force moves to the right, and one real 1 GiB slice at a time for Fill / Clear / Repeat /
// large-tail RemoveUnordered. Expected results are position formulae; no second huge slice is built.
//
// Not called: Unique / UniqueInPlace at these lengths (they size a map for len(s) entries, which is
// a memory question, not one of the documented result).

func mapBytes(n int) []byte {
	b, err := syscall.Mmap(-1, 0, n, syscall.PROT_READ|syscall.PROT_WRITE, syscall.MAP_ANON|syscall.MAP_PRIVATE|syscall.MAP_NORESERVE)
	if err != nil {
		return nil
	}
	return b
}

func allBytes(b []byte, v byte) int {
	for i, c := range b {
		if c != v {
			return i
		}
	}
	return -1
}

func big32(x *cx) {
	if !slow32 {
		return
	}
	half := math.MaxInt32/2 + 1 // 2^30
	fail := func(fn, in, what string) {
		x.fail(fn+"-big32", fmt.Sprintf("%s(%s): %s", fn, in, what), map[string]any{"fn": fn, "input": in})
	}

	// (ii-a) Search over a virtual sorted []byte 0,...,0,1,2: every target > 0 moves right all the way
	for _, L := range []int{half + 5, half + half/4, half + half/2, math.MaxInt32 - 4096} {
		if x.failed {
			return
		}
		b := mapBytes(L)
		if b == nil {
			x.observe("big32", fmt.Sprintf("virtual []byte of length %d: mapping refused, skipped", L))
			continue
		}
		b[L-2], b[L-1] = 1, 2
		for item, want := range map[byte]int{0: 0, 1: L - 2, 2: L - 1, 3: L} {
			in := fmt.Sprintf("[]byte of length %d holding 0,...,0,1,2; item %d", L, item)
			var got int
			p := x.try("xsort.Search", func() { got = xsort.Search(b, xsort.OrderedLess[byte], item) })
			x.eval("big32|Search|" + in)
			if p != nil {
				fail("xsort.Search", in, "panicked: "+p.Msg)
				break
			}
			if got != want {
				fail("xsort.Search", in, fmt.Sprintf("= %d, want %d", got, want))
				break
			}
		}
		// and under the reversed order on 2,1,0,...,0
		b[L-2], b[L-1], b[0], b[1] = 0, 0, 2, 1
		desc := xsort.Reverse(xsort.OrderedLess[byte])
		for item, want := range map[byte]int{3: 0, 2: 0, 1: 1, 0: 2} {
			in := fmt.Sprintf("[]byte of length %d holding 2,1,0,...,0, descending order; item %d", L, item)
			var got int
			p := x.try("xsort.Search", func() { got = xsort.Search(b, desc, item) })
			x.eval("big32|Search|" + in)
			if p != nil || got != want {
				fail("xsort.Search", in, fmt.Sprintf("= %d (panic: %v), want %d", got, p, want))
				break
			}
		}
		x.observe("big32", "Search moving right over more than MaxInt/2 one-byte items")
		_ = syscall.Munmap(b)
	}

	// (ii-b) one real 1 GiB slice at a time
	L := half + 5
	if b := mapBytes(L); b == nil {
		x.observe("big32", "1 GiB []byte: mapping refused, skipped")
	} else if !x.failed {
		in := fmt.Sprintf("[]byte of length %d", L)
		p := x.try("xslices.Fill", func() { xslices.Fill(b, 7) })
		x.eval("big32|Fill|" + in)
		if p != nil {
			fail("xslices.Fill", in+", 7", "panicked: "+p.Msg)
		} else if i := allBytes(b, 7); i >= 0 {
			fail("xslices.Fill", in+", 7", fmt.Sprintf("cell %d holds %d", i, b[i]))
		}
		if !x.failed {
			// RemoveUnordered with a large tail: keep 1,2 at the front and 6,8,9 at the end
			b[0], b[1], b[L-3], b[L-2], b[L-1] = 1, 2, 6, 8, 9
			var got []byte
			p = x.try("xslices.RemoveUnordered", func() { got = xslices.RemoveUnordered(b, 2, L-5) })
			x.eval("big32|RemoveUnordered|" + in)
			if p != nil {
				fail("xslices.RemoveUnordered", in+", 2, len-5", "panicked: "+p.Msg)
			} else if !sameMultiset(got, []byte{1, 2, 6, 8, 9}) {
				fail("xslices.RemoveUnordered", in+", 2, len-5", fmt.Sprintf("= %v, want 1 2 6 8 9 in some order", show(got)))
			}
		}
		if !x.failed {
			p = x.try("xslices.Clear", func() { xslices.Clear(b) })
			x.eval("big32|Clear|" + in)
			if p != nil {
				fail("xslices.Clear", in, "panicked: "+p.Msg)
			} else if i := allBytes(b, 0); i >= 0 {
				fail("xslices.Clear", in, fmt.Sprintf("cell %d holds %d", i, b[i]))
			}
		}
		x.observe("big32", "Fill/Clear/RemoveUnordered of a real []byte longer than 2^30")
		_ = syscall.Munmap(b)
	}
	if !x.failed {
		in := fmt.Sprintf("byte 7, %d", L)
		var got []byte
		p := x.try("xslices.Repeat", func() { got = xslices.Repeat(byte(7), L) })
		x.eval("big32|Repeat|" + in)
		if p != nil {
			fail("xslices.Repeat", in, "panicked: "+p.Msg)
		} else if len(got) != L {
			fail("xslices.Repeat", in, fmt.Sprintf("length %d", len(got)))
		} else if i := allBytes(got, 7); i >= 0 {
			fail("xslices.Repeat", in, fmt.Sprintf("cell %d holds %d", i, got[i]))
		}
		got = nil
		debug.FreeOSMemory()
		x.observe("big32", "Repeat of more than 2^30 one-byte items")
	}

	// (i) zero-size elements through the helpers that loop over the indices
	for _, L := range []int{half + 5, math.MaxInt32} {
		if x.failed {
			return
		}
		big := make([]struct{}, L)
		in := fmt.Sprintf("[]struct{} of length %d", L)
		z := struct{}{}
		intIs := func(fn string, want int, call func() int) {
			if x.failed {
				return
			}
			var got int
			p := x.try(fn, func() { got = call() })
			x.eval("big32|" + fn + "|" + in)
			if p != nil {
				fail(fn, in, "panicked: "+p.Msg)
			} else if got != want {
				fail(fn, in, fmt.Sprintf("= %d, want %d", got, want))
			}
		}
		intIs("xslices.Fill", L, func() int { xslices.Fill(big, z); return len(big) })
		intIs("xslices.Clear", L, func() int { xslices.Clear(big); return len(big) })
		intIs("xslices.Repeat", L, func() int { return len(xslices.Repeat(z, L)) })
		intIs("xslices.Count", L, func() int { return xslices.Count(big, z) })
		intIs("xslices.Reverse", L, func() int { xslices.Reverse(big); return len(big) })
		intIs("xslices.RemoveUnordered", 3, func() int { return len(xslices.RemoveUnordered(make([]struct{}, L), 1, L-3)) })
		if L == half+5 {
			n := 0
			intIs("xslices.CountFunc", L, func() int { return xslices.CountFunc(big, func(struct{}) bool { return true }) })
			intIs("xslices.All", 1, func() int { return b2i(xslices.All(big, func(struct{}) bool { return true })) })
			intIs("xslices.Any", 0, func() int { return b2i(xslices.Any(big, func(struct{}) bool { return false })) })
			intIs("xslices.IndexFunc", -1, func() int { return xslices.IndexFunc(big, func(struct{}) bool { return false }) })
			intIs("xslices.LastIndexFunc", -1, func() int { return xslices.LastIndexFunc(big, func(struct{}) bool { return false }) })
			intIs("xslices.Partition", L, func() int { return xslices.Partition(make([]struct{}, L), func(struct{}) bool { return false }) })
			intIs("xslices.Partition", 0, func() int { return xslices.Partition(make([]struct{}, L), func(struct{}) bool { return true }) })
			intIs("xslices.Reduce", L, func() int { return xslices.Reduce(big, 0, func(a int, _ struct{}) int { return a + 1 }) })
			intIs("xslices.Map", L, func() int { return len(xslices.Map(big, func(struct{}) struct{} { n++; return z })) })
			intIs("xslices.Filter", L, func() int { return len(xslices.Filter(big, func(struct{}) bool { return true })) })
			intIs("xslices.Compact", 1, func() int { return len(xslices.Compact(big)) })
			intIs("xslices.Runs", L, func() int {
				r := xslices.Runs(big, func(a, b struct{}) bool { return true })
				if len(r) != 1 {
					return -len(r)
				}
				return len(r[0])
			})
			intIs("xslices.Equal", 1, func() int { return b2i(xslices.Equal(big, make([]struct{}, L))) })
			intIs("xsort.SliceIsSorted", 1, func() int {
				return b2i(xsort.SliceIsSorted(big, func(a, b struct{}) bool { return false }))
			})
			intIs("xslices.Chunk", L, func() int {
				c := xslices.Chunk(big, 1<<29)
				t := 0
				for _, ch := range c {
					t += len(ch)
				}
				return t
			})
		}
		x.observe("big32", "zero-size slices longer than 2^30 through the looping helpers")
	}
}
