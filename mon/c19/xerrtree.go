package main

import (
	"errors"
	"fmt"
	"reflect"
	"strings"
	"sync/atomic"

	"verif/vkit"
)

// Error TREES (errors.Join, fmt.Errorf with several %w, a custom Unwrap() []error) with WithStack at
// any position. Oracle: transparency. The same tree is built twice: once with xerrors.WithStack and
// once with refWrap, a trivial wrapper of the monitor's own (Unwrap() error only; like withStack a
// non-comparable value type) that is applied exactly where the documentation says a stack is
// attached: to an error in whose tree errors.As would not already find one. errors.Is / errors.As /
// errors.Unwrap must then give identical results and identical panics on both trees for a pool of
// corresponding targets (nodes of the tree, stacked and unstacked; stacked outsiders; the tree
// itself), and WithStack of an error that already has a stack anywhere in its tree must return it
// unchanged.

type refWrap struct {
	inner error
	pc    []uintptr // makes the type non-comparable, like the real one
}

func (r refWrap) Error() string { return r.inner.Error() + "\n\n(reference stack)" }
func (r refWrap) Unwrap() error { return r.inner }

type sliceErr []string

func (e sliceErr) Error() string { return "fields: " + strings.Join(e, ",") }

type structSliceErr struct {
	fields []string
	extra  map[string]int
}

func (e structSliceErr) Error() string { return "struct fields: " + strings.Join(e.fields, ",") }

// asErr has its own As method: it can present itself as a *codeErr.
type asErr struct{ code *codeErr }

func (e *asErr) Error() string { return "as-error" }
func (e *asErr) As(target any) bool {
	if p, ok := target.(**codeErr); ok {
		*p = e.code
		return true
	}
	return false
}

type nilPtrErr struct{ msg string }

func (e *nilPtrErr) Error() string {
	if e == nil {
		return "nil-valued pointer error"
	}
	return e.msg
}

type multiErr struct{ errs []error }

func (m *multiErr) Error() string   { return fmt.Sprintf("multi(%d)", len(m.errs)) }
func (m *multiErr) Unwrap() []error { return m.errs }

const (
	tLeaf = iota
	tStack
	tFmt1
	tPtrWrap
	tJoin
	tFmtN
	tMulti
)

var tKindNames = [...]string{"leaf", "WithStack", "fmt.Errorf(%w)", "*ptrWrap", "errors.Join", "fmt.Errorf(%w...%w)", "custom Unwrap() []error"}
var leafNames = [...]string{"errors.New", "*codeErr", "valErr", "sliceErr", "struct with slice+map", "*isErr(custom Is)", "*asErr(custom As)", "nil *nilPtrErr"}

type tnode struct {
	kind     int
	leafKind int
	leaf     error // shared by both builds
	kids     []*tnode
}

func newLeaf(kind int, r *vkit.Rand) error {
	switch kind {
	case 0:
		return errors.New("sentinel")
	case 1:
		return &codeErr{code: r.Intn(3)}
	case 2:
		return valErr{code: r.Intn(2)}
	case 3:
		return sliceErr{"a", "b"}[:1+r.Intn(2)]
	case 4:
		return structSliceErr{fields: []string{"f"}, extra: map[string]int{"k": 1}}
	case 5:
		return &isErr{tag: "t"}
	case 6:
		return &asErr{code: &codeErr{code: 9}}
	default:
		return (*nilPtrErr)(nil)
	}
}

func genTree(r *vkit.Rand, depth int) *tnode {
	if depth == 0 || r.Bool(0.25) {
		k := r.Intn(len(leafNames))
		return &tnode{kind: tLeaf, leafKind: k, leaf: newLeaf(k, r)}
	}
	kind := []int{tStack, tStack, tStack, tFmt1, tPtrWrap, tJoin, tJoin, tFmtN, tFmtN, tMulti}[r.Intn(10)]
	n := &tnode{kind: kind}
	nk := 1
	if kind >= tJoin {
		nk = r.Range(1, 3)
		if kind == tFmtN {
			nk = r.Range(2, 3)
		}
	}
	for i := 0; i < nk; i++ {
		n.kids = append(n.kids, genTree(r, depth-1))
	}
	return n
}

func (n *tnode) String() string {
	if n.kind == tLeaf {
		return leafNames[n.leafKind]
	}
	parts := make([]string, len(n.kids))
	for i, k := range n.kids {
		parts[i] = k.String()
	}
	return tKindNames[n.kind] + "(" + strings.Join(parts, ", ") + ")"
}

// built is one realisation of a tree; nodes are in post-order, so index i means the same position
// in the real and in the reference realisation.
type built struct {
	nodes    []error
	hasStack []bool
}

// build realises n. real: with xerrors.WithStack; else with refWrap. Returns "" or what went wrong
// with a WithStack call (real only).
func (b *built) build(x *cx, n *tnode, real bool, desc string) (err error, stacked bool, bad string) {
	var kids []error
	for _, k := range n.kids {
		e, st, bad := b.build(x, k, real, desc)
		if bad != "" {
			return nil, false, bad
		}
		kids = append(kids, e)
		stacked = stacked || st
	}
	switch n.kind {
	case tLeaf:
		err = n.leaf
	case tFmt1:
		err = fmt.Errorf("ctx: %w", kids[0])
	case tPtrWrap:
		err = &ptrWrap{inner: kids[0], tag: len(b.nodes)}
	case tJoin:
		err = errors.Join(kids...)
	case tFmtN:
		if len(kids) == 2 {
			err = fmt.Errorf("%w and %w", kids[0], kids[1])
		} else {
			err = fmt.Errorf("%w, %w and %w", kids[0], kids[1], kids[2])
		}
	case tMulti:
		err = &multiErr{errs: kids}
	case tStack:
		err, bad = applyStack(x, kids[0], stacked, real, desc)
		if bad != "" {
			return nil, false, bad
		}
		stacked = true
	}
	b.nodes = append(b.nodes, err)
	b.hasStack = append(b.hasStack, stacked)
	return err, stacked, ""
}

// applyStack attaches a stack to in (whose tree already has one iff stacked).
func applyStack(x *cx, in error, stacked, real bool, desc string) (error, string) {
	if !real {
		if stacked {
			return in, ""
		}
		return refWrap{inner: in, pc: []uintptr{refWrapSerial.Add(1)}}, ""
	}
	var res error
	p := x.try("xerrors.WithStack", func() { res = callWithStack(in) })
	x.evals++
	if p != nil {
		return nil, "WithStack panicked: " + p.Msg
	}
	if stacked {
		if !sameErr(res, in) {
			return nil, fmt.Sprintf("WithStack of an error (%T) in whose tree errors.As finds a stack returned a new %T instead of the error itself", in, res)
		}
		x.observe("error trees", "WithStack of an error with a stack somewhere in its tree")
		return res, ""
	}
	if res == nil || !sameErr(errors.Unwrap(res), in) || sameErr(res, in) {
		return nil, fmt.Sprintf("WithStack of an error (%T) without a stack did not return a new error that unwraps to it", in)
	}
	return res, ""
}

func indexOf(list []error, e error) int {
	for i, v := range list {
		if sameErr(v, e) {
			return i
		}
	}
	return -1
}

// corresponding: a and b are the same position of the real and of the reference realisation.
// (Identity of non-comparable values falls back to DeepEqual, which may hold for several positions;
// so ask whether SOME position matches both.)
func corresponding(real, ref *built, a, b error) bool {
	for i := range real.nodes {
		if sameErr(real.nodes[i], a) && sameErr(ref.nodes[i], b) {
			return true
		}
	}
	return false
}

var refWrapSerial atomic.Uintptr

type outcome struct {
	ok    bool
	panic bool
}

func tryIs(err, target error) (o outcome) {
	if p := vkit.Try(func() { o.ok = errors.Is(err, target) }); p != nil {
		o.panic = true
	}
	return o
}

// asProbe runs errors.As(err, &T) and reports found, the value found and whether it panicked.
func asProbe[T any](err error) (found bool, val any, panicked bool) {
	var t T
	if p := vkit.Try(func() { found = errors.As(err, &t) }); p != nil {
		return false, nil, true
	}
	return found, t, false
}

func treeCase(x *cx, r *vkit.Rand, root *tnode) {
	if x.failed {
		return
	}
	desc := root.String()
	fail := func(sig, what string) {
		x.fail(sig, fmt.Sprintf("error tree %s: %s", desc, what), map[string]any{"tree": desc})
	}
	var real, ref built
	realRoot, anyStack, bad := real.build(x, root, true, desc)
	if bad != "" {
		fail("xerrors.WithStack-tree", bad)
		return
	}
	refRoot, _, _ := ref.build(x, root, false, desc)
	nt := ""
	if anyStack {
		nt = "tree|" + desc
	}
	x.eval(nt)

	// corresponding targets
	type pair struct {
		what      string
		real, ref error
	}
	var targets []pair
	for i := range real.nodes {
		targets = append(targets, pair{fmt.Sprintf("node %d of the tree", i), real.nodes[i], ref.nodes[i]})
		// WithStack at this position: idempotence where a stack is present, a fresh stack otherwise
		rs, bad := applyStack(x, real.nodes[i], real.hasStack[i], true, desc)
		if bad != "" {
			fail("xerrors.WithStack-tree", fmt.Sprintf("at node %d (%T): %s", i, real.nodes[i], bad))
			return
		}
		fs, _ := applyStack(x, ref.nodes[i], ref.hasStack[i], false, desc)
		targets = append(targets, pair{fmt.Sprintf("WithStack(node %d of the tree)", i), rs, fs})
	}
	for k := range leafNames {
		out := newLeaf(k, r)
		rs, bad := applyStack(x, out, false, true, desc)
		if bad != "" {
			fail("xerrors.WithStack-tree", "outside leaf "+leafNames[k]+": "+bad)
			return
		}
		targets = append(targets, pair{"outside " + leafNames[k], out, out}, pair{"WithStack(outside " + leafNames[k] + ")", rs, refWrap{inner: out}})
	}
	m := errors.New("match:t")
	targets = append(targets, pair{"errors.New(\"match:t\")", m, m}, pair{"nil", nil, nil})

	for _, t := range targets {
		checks := []struct {
			what           string
			re, rt, fe, ft error
		}{
			{"errors.Is(tree, " + t.what + ")", realRoot, t.real, refRoot, t.ref},
			{"errors.Is(" + t.what + ", tree)", t.real, realRoot, t.ref, refRoot},
			{"errors.Is(" + t.what + ", same)", t.real, t.real, t.ref, t.ref},
		}
		for _, c := range checks {
			got, want := tryIs(c.re, c.rt), tryIs(c.fe, c.ft)
			x.evals++
			if got != want {
				fail("xerrors.WithStack-tree-is", fmt.Sprintf("%s: with WithStack %s, with a plain Unwrap-only wrapper in its place %s (target type %T)", c.what, showOutcome(got), showOutcome(want), c.rt))
				return
			}
			if want.panic {
				x.observe("error trees", "errors.Is panics in the reference too")
			}
		}
		if _, isStack := t.ref.(refWrap); isStack {
			x.observe("error trees", "stacked target")
			if t.ref != nil && !reflect.TypeOf(t.ref.(refWrap).inner).Comparable() {
				x.observe("error trees", "stacked target with a non-comparable inner error")
			}
		}
	}

	// errors.As for every leaf / wrapper type, from the root and from every node
	for i := range real.nodes {
		asCheck := func(what string, probe func(error) (bool, any, bool)) bool {
			fR, vR, pR := probe(real.nodes[i])
			fF, vF, pF := probe(ref.nodes[i])
			x.evals++
			same := fR == fF && pR == pF
			if same && fR {
				eR, isErrR := vR.(error)
				eF, isErrF := vF.(error)
				if isErrR && isErrF && indexOf(real.nodes, eR) >= 0 {
					same = corresponding(&real, &ref, eR, eF)
				} else {
					same = reflect.DeepEqual(vR, vF)
				}
			}
			if !same {
				fail("xerrors.WithStack-tree-as", fmt.Sprintf("errors.As(node %d, %s): with WithStack found=%v panic=%v value %v; with a plain wrapper found=%v panic=%v value %v", i, what, fR, pR, vR, fF, pF, vF))
			}
			return same
		}
		if !asCheck("**codeErr", asProbe[*codeErr]) || !asCheck("*valErr", asProbe[valErr]) || !asCheck("*sliceErr", asProbe[sliceErr]) ||
			!asCheck("*structSliceErr", asProbe[structSliceErr]) || !asCheck("**isErr", asProbe[*isErr]) || !asCheck("**asErr", asProbe[*asErr]) ||
			!asCheck("**nilPtrErr", asProbe[*nilPtrErr]) || !asCheck("**ptrWrap", asProbe[*ptrWrap]) || !asCheck("**multiErr", asProbe[*multiErr]) {
			return
		}
		// errors.Unwrap
		uR, uF := errors.Unwrap(real.nodes[i]), errors.Unwrap(ref.nodes[i])
		x.evals++
		if (uR == nil) != (uF == nil) || (uR != nil && !corresponding(&real, &ref, uR, uF)) {
			fail("xerrors.WithStack-tree-unwrap", fmt.Sprintf("errors.Unwrap(node %d, %T) leads to node %d, with a plain wrapper to node %d", i, real.nodes[i], indexOf(real.nodes, uR), indexOf(ref.nodes, uF)))
			return
		}
		// Error() must not panic where the reference does not
		pR := vkit.Try(func() { _ = real.nodes[i].Error() })
		pF := vkit.Try(func() { _ = ref.nodes[i].Error() })
		if (pR != nil) != (pF != nil) {
			fail("xerrors.WithStack-tree-error", fmt.Sprintf("Error() of node %d: panic with WithStack = %v, with a plain wrapper = %v", i, pR != nil, pF != nil))
			return
		}
	}
	// shape observations
	var walk func(n *tnode, underMulti bool)
	walk = func(n *tnode, underMulti bool) {
		if n.kind == tStack && underMulti {
			x.observe("error trees", "WithStack inside a branch of a multi-error")
		}
		for _, k := range n.kids {
			walk(k, underMulti || (n.kind >= tJoin && len(n.kids) > 1))
		}
	}
	walk(root, false)
	if anyStack {
		x.observe("error trees", "trees with at least one stack")
	}
	x.sample("error tree", func() map[string]any {
		return map[string]any{"fn": "xerrors.WithStack", "error tree": desc, "nodes": len(real.nodes), "targets compared": len(targets)}
	})
}

func showOutcome(o outcome) string {
	if o.panic {
		return "panics"
	}
	return fmt.Sprint("= ", o.ok)
}

// fixedTrees: the shapes named in the defect reports, built explicitly.
func fixedTrees(r *vkit.Rand) []*tnode {
	leaf := func(k int) *tnode { return &tnode{kind: tLeaf, leafKind: k, leaf: newLeaf(k, r)} }
	st := func(n *tnode) *tnode { return &tnode{kind: tStack, kids: []*tnode{n}} }
	node := func(kind int, kids ...*tnode) *tnode { return &tnode{kind: kind, kids: kids} }
	var out []*tnode
	for k := range leafNames {
		out = append(out,
			st(leaf(k)), st(st(leaf(k))),
			st(node(tJoin, leaf(0), st(leaf(k)))),
			st(node(tFmtN, leaf(1), st(leaf(k)))),
			st(node(tMulti, leaf(2), leaf(3), st(leaf(k)))),
			st(node(tJoin, st(leaf(k)), leaf(0))),
			node(tJoin, st(leaf(k)), st(leaf(k)), leaf(k)),
			st(node(tFmt1, node(tMulti, node(tPtrWrap, leaf(0)), node(tFmt1, st(leaf(k)))))),
		)
	}
	return out
}
