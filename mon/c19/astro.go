package main

import (
	"fmt"
	"math"
	"math/rand"

	"github.com/bradenaw/juniper/xmath/xrand"
	"github.com/bradenaw/juniper/xslices"
	"github.com/bradenaw/juniper/xsort"

	"verif/vkit"
)

// "Astronomic" scenarios: legal arguments near math.MaxInt. Slices of a zero-size element type
// ([]struct{}, [][0]int) cost no memory at any length, so lengths up to MaxInt are real inputs;
// every helper whose cost does not grow with the length (for zero-size elements: no per-index loop)
// is called there and its result lengths are compared with a reference computed with
// overflow-free arithmetic. Plus: huge count arguments on ordinary slices, and sampling from
// [0, n) for n up to MaxInt.

// (derived from MaxInt so that the same scenarios exist on 32-bit platforms: MaxInt/2+1 is 2^62 or 2^30)
var astroLens = []int{math.MaxInt, math.MaxInt - 1, math.MaxInt/2 + 3, math.MaxInt/2 + 2, math.MaxInt/2 + 1, math.MaxInt / 2, math.MaxInt/4 + 1, math.MaxInt>>23 + 1}

// hugeNs: the n of the huge-range sampling tables, and from which n on only positions above 2^54
// enter the low-bit tables. 64-bit values are skipped when int has 32 bits.
func hugeNs() (ns []int, lowBitFrom int64, threshold int64) {
	for _, v := range []int64{1 << 30, math.MaxInt32 - 1, math.MaxInt32, 1 << 40, 1 << 53, 1<<54 + 3, 1 << 55, 1 << 56, 1 << 58, 1 << 62, math.MaxInt64 - 1, math.MaxInt64} {
		if v <= math.MaxInt {
			ns = append(ns, int(v))
		}
	}
	return ns, 1 << 55, 1 << 54
}

func astroZeroSize[T comparable](x *cx, tn string) {
	var zero T
	always := func(T) bool { return true }
	never := func(T) bool { return false }
	fail := func(fn, in, what string) {
		x.fail(fn+"-astronomic", fmt.Sprintf("%s(%s) on %s: %s", fn, in, tn, what), map[string]any{"fn": fn, "input": in, "element type": tn})
	}
	for _, L := range astroLens {
		if x.failed {
			return
		}
		big := make([]T, L)

		// Chunk: only chunk sizes that give at most 4 chunks.
		cands := []int{L/4 + 1, L / 3, L/3 + 1, L/2 - 1, L / 2, L/2 + 1, L/2 + 2, L - 2, L - 1, L, math.MaxInt - L + 1, math.MaxInt - L + 2, math.MaxInt / 2, math.MaxInt/2 + 2, math.MaxInt - 1, math.MaxInt}
		for _, c := range cands {
			if c <= L/4 || c <= 0 || x.failed {
				continue
			}
			in := fmt.Sprintf("len %d, chunkSize %d", L, c)
			var got [][]T
			p := x.try("xslices.Chunk", func() { got = xslices.Chunk(big, c) })
			x.eval(fmt.Sprint("astro|Chunk|", tn, "|", in))
			if p != nil {
				fail("xslices.Chunk", in, "panicked: "+p.Msg+"; chunkSize is positive, so the documented result is the chunks of s")
				return
			}
			// i*c < L for every chunk index i, so none of this overflows
			nChunks := L / c
			if L%c != 0 {
				nChunks++
			}
			if len(got) != nChunks {
				fail("xslices.Chunk", in, fmt.Sprintf("%d chunks, want %d", len(got), nChunks))
				return
			}
			for i := range got {
				want := min(c, L-i*c)
				if len(got[i]) != want {
					fail("xslices.Chunk", in, fmt.Sprintf("chunk %d has length %d, want %d", i, len(got[i]), want))
					return
				}
			}
			if nChunks >= 2 {
				x.observe("astronomic", "Chunk with >= 2 chunks of a slice longer than MaxInt/4")
				if c > math.MaxInt-c {
					x.observe("astronomic", "Chunk with >= 2 chunks and 2*chunkSize > MaxInt")
				}
			}
		}

		// Shrink / Grow on s = big[:l:cp]
		for _, l := range []int{0, 5, L / 2, L - 1, L} {
			for _, n := range []int{0, 1, 3, L - l - 1, L - l, math.MaxInt - l, math.MaxInt} {
				if n < 0 || x.failed {
					continue
				}
				in := fmt.Sprintf("len %d cap %d, n %d", l, L, n)
				var got []T
				p := x.try("xslices.Shrink", func() { got = xslices.Shrink(big[:l:L], n) })
				x.eval(fmt.Sprint("astro|Shrink|", tn, "|", in))
				sig := "xslices.Shrink-astronomic"
				if n > math.MaxInt-l {
					sig = "shrink-huge-n" // len(s)+n is not representable; cap(s) <= len(s)+n holds anyway
				}
				if p != nil {
					x.fail(sig, fmt.Sprintf("Shrink(%s) on %s panicked: %s", in, tn, p.Msg), map[string]any{"input": in, "element type": tn})
					return
				}
				if len(got) != l || cap(got)-len(got) > n {
					x.fail(sig, fmt.Sprintf("Shrink(%s) on %s has len %d cap %d, want len %d and cap <= len+n", in, tn, len(got), cap(got), l), map[string]any{"input": in})
					return
				}
				if n > math.MaxInt-l {
					continue // Grow: len+n elements cannot exist
				}
				for _, cp := range []int{l, l + min(1, L-l), L} {
					in := fmt.Sprintf("len %d cap %d, n %d", l, cp, n)
					p := x.try("xslices.Grow", func() { got = xslices.Grow(big[:l:cp], n) })
					x.eval(fmt.Sprint("astro|Grow|", tn, "|", in))
					if p != nil {
						fail("xslices.Grow", in, "panicked: "+p.Msg)
						return
					}
					if len(got) != l || cap(got)-len(got) < n {
						fail("xslices.Grow", in, fmt.Sprintf("len %d cap %d, want len %d and room for n more", len(got), cap(got), l))
						return
					}
				}
			}
		}

		// Remove (any n: no per-element work for zero-size elements) and RemoveUnordered (small n
		// only: it clears the n vacated cells one by one).
		type rm struct{ idx, n int }
		for _, a := range []rm{{0, 0}, {0, 1}, {0, L}, {1, L - 1}, {L - 1, 1}, {L, 0}, {L - 3, 2}, {L / 2, L / 2}, {L / 2, L - L/2}, {5, L - 7}} {
			if x.failed {
				return
			}
			in := fmt.Sprintf("len %d, idx %d, n %d", L, a.idx, a.n)
			var got []T
			p := x.try("xslices.Remove", func() { got = xslices.Remove(make([]T, L), a.idx, a.n) })
			x.eval(fmt.Sprint("astro|Remove|", tn, "|", in))
			if p != nil {
				fail("xslices.Remove", in, "panicked: "+p.Msg)
				return
			}
			if len(got) != L-a.n {
				fail("xslices.Remove", in, fmt.Sprintf("length %d, want %d", len(got), L-a.n))
				return
			}
		}
		for _, a := range []rm{{0, 0}, {0, 2}, {5, 1}, {L / 2, 3}, {L - 3, 2}, {L - 3, 3}, {L - 1, 1}, {L, 0}} {
			if x.failed {
				return
			}
			in := fmt.Sprintf("len %d, idx %d, n %d", L, a.idx, a.n)
			var got []T
			p := x.try("xslices.RemoveUnordered", func() { got = xslices.RemoveUnordered(make([]T, L), a.idx, a.n) })
			x.eval(fmt.Sprint("astro|RemoveUnordered|", tn, "|", in))
			if p != nil {
				fail("xslices.RemoveUnordered", in, "panicked: "+p.Msg)
				return
			}
			if len(got) != L-a.n {
				fail("xslices.RemoveUnordered", in, fmt.Sprintf("length %d, want %d", len(got), L-a.n))
				return
			}
		}

		// Insert m values into a slice of length L-m (the result has length L <= MaxInt), with and
		// without room in the capacity.
		for _, m := range []int{1, 2} {
			l := L - m
			vals := make([]T, m)
			for _, idx := range []int{0, 5, l / 2, l - 1, l} {
				for _, room := range []bool{false, true} {
					if x.failed {
						return
					}
					s := make([]T, l)
					if room {
						s = big[:l]
					}
					in := fmt.Sprintf("len %d cap %d, idx %d, %d values", l, cap(s), idx, m)
					var got []T
					p := x.try("xslices.Insert", func() { got = xslices.Insert(s, idx, vals...) })
					x.eval(fmt.Sprint("astro|Insert|", tn, "|", in))
					if p != nil {
						fail("xslices.Insert", in, "panicked: "+p.Msg)
						return
					}
					if len(got) != L {
						fail("xslices.Insert", in, fmt.Sprintf("length %d, want %d", len(got), L))
						return
					}
				}
			}
		}

		// Join (total length <= MaxInt), Clone
		{
			a, b := L/2, L-L/2
			var got []T
			in := fmt.Sprintf("lengths %d, 0, %d, 3 (nil in between)", a, b-3)
			if b >= 3 {
				p := x.try("xslices.Join", func() { got = xslices.Join(big[:a], nil, big[:b-3], big[:3]) })
				x.eval(fmt.Sprint("astro|Join|", tn, "|", in))
				if p != nil {
					fail("xslices.Join", in, "panicked: "+p.Msg)
					return
				}
				if len(got) != L {
					fail("xslices.Join", in, fmt.Sprintf("length %d, want %d", len(got), L))
					return
				}
			}
			p := x.try("xslices.Clone", func() { got = xslices.Clone(big) })
			x.eval(fmt.Sprint("astro|Clone|", tn, "|", L))
			if p != nil || len(got) != L {
				fail("xslices.Clone", fmt.Sprint("len ", L), fmt.Sprintf("length %d (panic: %v), want %d", len(got), p, L))
				return
			}
		}

		// Searches that stop at the first cell they look at, and length-only comparisons.
		intCheck := func(fn, in string, want int, call func() int) {
			if x.failed {
				return
			}
			var got int
			p := x.try(fn, func() { got = call() })
			x.eval(fmt.Sprint("astro|", fn, "|", tn, "|", in))
			if p != nil {
				fail(fn, in, "panicked: "+p.Msg)
			} else if got != want {
				fail(fn, in, fmt.Sprintf("= %d, want %d", got, want))
			}
		}
		boolCheck := func(fn, in string, want bool, call func() bool) {
			intCheck(fn, in, b2i(want), func() int { return b2i(call()) })
		}
		ls := fmt.Sprint("len ", L)
		intCheck("xslices.Index", ls+", zero value", 0, func() int { return xslices.Index(big, zero) })
		intCheck("xslices.IndexFunc", ls+", always true", 0, func() int { return xslices.IndexFunc(big, always) })
		intCheck("xslices.LastIndex", ls+", zero value", L-1, func() int { return xslices.LastIndex(big, zero) })
		intCheck("xslices.LastIndexFunc", ls+", always true", L-1, func() int { return xslices.LastIndexFunc(big, always) })
		boolCheck("xslices.All", ls+", always false", false, func() bool { return xslices.All(big, never) })
		boolCheck("xslices.Any", ls+", always true", true, func() bool { return xslices.Any(big, always) })
		boolCheck("xslices.Equal", ls+" against len-1", false, func() bool { return xslices.Equal(big, big[:L-1]) })
		boolCheck("xslices.EqualFunc", ls+" against len-1", false, func() bool {
			return xslices.EqualFunc(big, big[:L-1], func(a, b T) bool { return true })
		})
		// Search: all items equal, so the item is present at every index
		if !x.failed {
			var got int
			p := x.try("xsort.Search", func() { got = xsort.Search(big, func(a, b T) bool { return false }, zero) })
			x.eval(fmt.Sprint("astro|Search|", tn, "|", L))
			if p != nil || got < 0 || got >= L {
				fail("xsort.Search", ls+", all items equal", fmt.Sprintf("= %d (panic: %v), want an index of the slice", got, p))
			}
		}
		// Sampling k of the L positions of a zero-size slice: k items
		if !x.failed {
			r := rand.New(rand.NewSource(int64(L)))
			var got []T
			p := x.try("xrand.RSampleSlice", func() { got = xrand.RSampleSlice(r, big, 3) })
			x.eval(fmt.Sprint("astro|RSampleSlice|", tn, "|", L))
			if p != nil || len(got) != 3 {
				fail("xrand.RSampleSlice", ls+", k = 3", fmt.Sprintf("%d items (panic: %v), want 3", len(got), p))
			}
		}
	}
	// Repeat with a zero-size element
	for _, n := range []int{0, 1, 1 << 20} {
		if x.failed {
			return
		}
		var got []T
		p := x.try("xslices.Repeat", func() { got = xslices.Repeat(zero, n) })
		x.eval(fmt.Sprint("astro|Repeat|", tn, "|", n))
		if p != nil || len(got) != n {
			fail("xslices.Repeat", fmt.Sprint("zero value, ", n), fmt.Sprintf("length %d (panic: %v)", len(got), p))
		}
	}
}

func b2i(b bool) int {
	if b {
		return 1
	}
	return 0
}

// astroCounts: huge count arguments on ordinary (memory-occupying) slices.
func astroCounts(x *cx) {
	et := &env[item]{x: x, sent: sentItem, key: keyItem, tn: "item", inKey: "astro"}
	for n := 0; n <= 4; n++ {
		items := itemsOf([]int{0, 1, 2, 1}[:n], 0)
		for _, sp := range []int{0, 2} {
			for _, c := range []int{math.MaxInt, math.MaxInt - 1, math.MaxInt - n, math.MaxInt - n + 1, math.MaxInt/2 + 1} {
				et.chunk(items, sp, c)
			}
			// Shrink(s, n): cap(s) <= len(s)+n is trivially true for huge n; s is the documented result
			for _, k := range []int{math.MaxInt, math.MaxInt - 1, math.MaxInt - n, math.MaxInt - n + 1, math.MaxInt - n - sp, math.MaxInt / 2} {
				if x.failed {
					return
				}
				if k < 0 {
					continue // MaxInt-n+1 wrapped for n = 0
				}
				g := guard(items, sp, sentItem)
				in := fmt.Sprintf("%s (cap %d), %d", show(items), n+sp, k)
				var got []item
				p := x.try("xslices.Shrink", func() { got = xslices.Shrink(g.s, k) })
				x.eval(fmt.Sprint("astro|Shrink|item|", in))
				sig := "xslices.Shrink-result"
				if k > math.MaxInt-n {
					sig = "shrink-huge-n"
				}
				if p != nil {
					x.fail(sig, fmt.Sprintf("Shrink(%s) panicked (%s); cap(s) <= len(s)+n already holds, so the documented result is s", in, p.Msg), map[string]any{"input": in, "panic": p.Msg})
					return
				}
				if !eqSlice(got, items) || cap(got)-len(got) > k {
					x.fail(sig, fmt.Sprintf("Shrink(%s) = %v with cap %d", in, show(got), cap(got)), map[string]any{"input": in})
					return
				}
			}
		}
	}
}

// astroSample: RSample(r, n, k) for n up to MaxInt: post-conditions; a coarse uniformity test (the
// share of values in the upper half of [0, n): 50% +- 0.25% at 40000 draws, judged at 40%/60%, more
// than 40 standard deviations off); and LOW-BIT statistics of one value per draw (the first of the
// shuffled result, so the values are independent): chi-square with the p = 1e-9 critical value of
// the value mod 2, 3, 4, 8, 16 and 256. For n >= 2^55 only values above 2^54 enter the low-bit
// tables (there a position computed in float64 would lose its low bits).
func astroSample(x *cx, rnd *vkit.Rand) {
	draws := 40000
	if slow32 {
		draws = 4000
	}
	mods := []int{2, 3, 4, 8, 16, 256}
	ns, lowBitFrom, above := hugeNs()
	for _, n := range ns {
		for _, k := range []int{1, 3} {
			if x.failed {
				return
			}
			r := rand.New(rand.NewSource(int64(rnd.Uint64() >> 1)))
			upper, total := 0, 0
			threshold := 0
			if int64(n) >= lowBitFrom {
				threshold = int(above)
			}
			tables := make([][]int, len(mods))
			for i, m := range mods {
				tables[i] = make([]int, m)
			}
			used := 0
			x.calls["xrand.RSample"] += draws
			for d := 0; d < draws; d++ {
				var got []int
				if p := vkit.Try(func() { got = xrand.RSample(r, n, k) }); p != nil {
					x.fail("sample-huge-n", fmt.Sprintf("RSample(n = %d, k = %d) panicked: %s", n, k, p.Msg), map[string]any{"n": n, "k": k})
					return
				}
				bad := len(got) != k
				for i, v := range got {
					if v < 0 || v >= n {
						bad = true
					}
					for _, w := range got[:i] {
						if w == v {
							bad = true
						}
					}
					total++
					if v >= n/2 {
						upper++
					}
				}
				if bad {
					x.fail("sample-huge-n", fmt.Sprintf("RSample(n = %d, k = %d) = %v: not k distinct ints of [0, n)", n, k, got), map[string]any{"n": n, "k": k})
					return
				}
				if v := got[0]; v > threshold {
					used++
					for i, m := range mods {
						tables[i][v%m]++
					}
				}
			}
			x.eval(fmt.Sprint("astro|RSample|", n, "|", k))
			share := float64(upper) / float64(total)
			x.observe("astronomic", "RSample tables with huge n")
			x.r.Max("astronomic RSample: |share of draws in the upper half of [0,n) - 50%|, per mille", fmt.Sprintf("n = %d", n), int(math.Abs(share-0.5)*1000))
			if share < 0.40 || share > 0.60 {
				x.fail("sample-huge-n", fmt.Sprintf("RSample(n = %d, k = %d): of %d seeded draws (%d values) %.1f%% lie in the upper half of [0, n); picked uniformly it would be 50%% +- 0.3%%", n, k, draws, total, 100*share),
					map[string]any{"n": n, "k": k, "draws": draws, "share_upper_half": share})
				return
			}
			// with the share above judged fine, at least ~40% of the draws are above the threshold
			if used < draws/4 {
				x.r.Inconclusive(fmt.Sprintf("astronomic RSample(n = %d, k = %d): only %d of %d draws above 2^54", n, k, used, draws))
				continue
			}
			for i, m := range mods {
				chi := chiSquare(tables[i], used)
				crit := chiCritical(m - 1)
				x.eval("")
				x.observe("astronomic", "RSample low-bit tables")
				x.r.Max("chi-square / critical value, per mille", fmt.Sprintf("huge-n sample positions mod %d", m), int(1000*chi/crit))
				if chi > crit {
					show := tables[i]
					if len(show) > 16 {
						show = show[:16]
					}
					x.fail("sample-low-bits", fmt.Sprintf("RSample(n = %d, k = %d): over %d seeded draws, the sampled positions above %d taken mod %d have counts %v (first cells): chi-square %.1f > %.1f (critical value for p = 1e-9): positions are not equally likely in their low bits",
						n, k, used, threshold, m, show, chi, crit), map[string]any{"n": n, "k": k, "mod": m, "counts": tables[i], "chi_square": chi, "critical": crit})
					return
				}
			}
		}
	}
}
