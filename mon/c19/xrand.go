package main

import (
	"context"
	"fmt"
	"math"
	"math/rand"

	"github.com/bradenaw/juniper/iterator"
	"github.com/bradenaw/juniper/stream"
	"github.com/bradenaw/juniper/xmath/xrand"

	"verif/vkit"
)

// The eight sampling entry points, all reduced to "pick k of the n positions 0..n-1" by sampling
// from the input 1000, 1001, ..., 1000+n-1 (so a returned item names its position).
const itemBase = 1000

var sampleFns = []string{
	"xrand.RSample", "xrand.RSampleSlice", "xrand.RSampleIterator", "xrand.RSampleStream",
	"xrand.Sample", "xrand.SampleSlice", "xrand.SampleIterator", "xrand.SampleStream",
}

func inputOf(n int) []int {
	a := make([]int, n)
	for i := range a {
		a[i] = itemBase + i
	}
	return a
}

// drawPositions calls sampling function fi and returns the positions picked.
func drawPositions(fi int, r *rand.Rand, a []int, k int) (pos []int, err error) {
	n := len(a)
	switch fi {
	case 0:
		return xrand.RSample(r, n, k), nil
	case 4:
		return xrand.Sample(n, k), nil
	}
	var out []int
	switch fi {
	case 1:
		out = xrand.RSampleSlice(r, a, k)
	case 2:
		out = xrand.RSampleIterator(r, iterator.Slice(a), k)
	case 3:
		out, err = xrand.RSampleStream(context.Background(), r, stream.FromIterator(iterator.Slice(a)), k)
	case 5:
		out = xrand.SampleSlice(a, k)
	case 6:
		out = xrand.SampleIterator(iterator.Slice(a), k)
	case 7:
		out, err = xrand.SampleStream(context.Background(), stream.FromIterator(iterator.Slice(a)), k)
	}
	pos = make([]int, len(out))
	for i, v := range out {
		pos[i] = v - itemBase
	}
	return pos, err
}

// samplePost: length min(k, n), every position in range, no position twice. Returns the bitmask of
// the positions when n <= 64.
func samplePost(pos []int, n, k int) (mask uint64, bad string) {
	if len(pos) != min(k, n) {
		return 0, fmt.Sprintf("%d items, want min(k, n) = %d", len(pos), min(k, n))
	}
	if n <= 64 {
		for _, p := range pos {
			if p < 0 || p >= n {
				return 0, fmt.Sprintf("item %d is not from the input", p)
			}
			if mask>>uint(p)&1 == 1 {
				return 0, fmt.Sprintf("position %d was picked twice", p)
			}
			mask |= 1 << uint(p)
		}
		return mask, ""
	}
	seen := make(map[int]bool, len(pos))
	for _, p := range pos {
		if p < 0 || p >= n {
			return 0, fmt.Sprintf("item %d is not from the input", p)
		}
		if seen[p] {
			return 0, fmt.Sprintf("position %d was picked twice", p)
		}
		seen[p] = true
	}
	return 0, ""
}

// sampleCheck: one call of every sampling function at (n, k).
func sampleCheck(x *cx, r *rand.Rand, n, k int) {
	a := inputOf(n)
	orig := cloneOf(a)
	for fi, fn := range sampleFns {
		if x.failed {
			return
		}
		var pos []int
		var err error
		in := fmt.Sprintf("n = %d, k = %d", n, k)
		p := x.try(fn, func() { pos, err = drawPositions(fi, r, a, k) })
		nt := ""
		if n >= 1 && k >= 1 {
			nt = fmt.Sprint(fn, "|", n, "|", k)
		}
		x.eval(nt)
		if x.unexpectedPanic(fn, p, in) {
			return
		}
		if err != nil {
			x.fail(fn+"-error", fmt.Sprintf("%s(%s) on a stream that never fails returned error %v", fn, in, err), nil)
			return
		}
		if _, bad := samplePost(pos, n, k); bad != "" {
			x.fail(fn+"-postcondition", fmt.Sprintf("%s(%s) = positions %v: %s", fn, in, show(pos), bad), map[string]any{"fn": fn, "n": n, "k": k, "positions": show(pos)})
			return
		}
		if !eqSlice(a, orig) {
			x.fail(fn+"-modified-input", fmt.Sprintf("%s(%s) modified its input", fn, in), nil)
			return
		}
		switch {
		case k == 0 || n == 0:
			x.observe("sample shapes", "k = 0 or n = 0")
		case k < n:
			x.observe("sample shapes", "0 < k < n")
		case k == n:
			x.observe("sample shapes", "k = n")
		default:
			x.observe("sample shapes", "k > n")
		}
	}
	// items from the input also when the input has duplicates: a sub-multiset
	if n > 0 && !x.failed {
		d := make([]int, n)
		for i := range d {
			d[i] = i % 3
		}
		var got []int
		p := x.try("xrand.RSampleSlice", func() { got = xrand.RSampleSlice(r, d, k) })
		x.eval("")
		if !x.unexpectedPanic("xrand.RSampleSlice", p, "duplicates") && (len(got) != min(k, n) || !subMultiset(got, d)) {
			x.fail("xrand.RSampleSlice-postcondition", fmt.Sprintf("RSampleSlice(%v, %d) = %v is not min(k,n) items from distinct positions", show(d), k, show(got)), nil)
		}
	}
}

// shuffleCheck: Shuffle / RShuffle leave a permutation.
func shuffleCheck(x *cx, r *rand.Rand, n int, dup bool) {
	if x.failed {
		return
	}
	a := inputOf(n)
	if dup {
		for i := range a {
			a[i] = i % 3
		}
	}
	for _, fn := range []string{"xrand.RShuffle", "xrand.Shuffle"} {
		g := guard(a, 1, -7)
		p := x.try(fn, func() {
			if fn == "xrand.RShuffle" {
				xrand.RShuffle(r, g.s)
			} else {
				xrand.Shuffle(g.s)
			}
		})
		nt := ""
		if n >= 2 {
			nt = fmt.Sprint(fn, "|", n, "|", dup)
		}
		x.eval(nt)
		if x.unexpectedPanic(fn, p, fmt.Sprint(a)) {
			return
		}
		if !sameMultiset(g.s, a) || !g.spareOK() {
			x.fail(fn+"-not-permutation", fmt.Sprintf("%s(%s) left %s, not a permutation", fn, show(a), show(g.s)), nil)
			return
		}
	}
}

// ---------------------------------------------------------------------------------------------
// Frequency monitor

// zTail9 is the standard normal quantile with upper tail 1e-9.
const zTail9 = 5.997807015

// chiCritical: critical value of chi-square with df degrees of freedom for p = 1e-9 by the
// Wilson-Hilferty approximation (errs high, i.e. lenient, for small df).
func chiCritical(df int) float64 {
	d := float64(df)
	t := 1 - 2/(9*d) + zTail9*math.Sqrt(2/(9*d))
	return d * t * t * t
}

func binom(n, k int) int {
	if k < 0 || k > n {
		return 0
	}
	r := 1
	for i := 1; i <= k; i++ {
		r = r * (n - k + i) / i
	}
	return r
}

type freqTable struct {
	n, k int
}

// freqTables: every (n, k), 1 <= k < n, with 2 <= C(n, k) <= 35.
func freqTables() []freqTable {
	var out []freqTable
	for n := 2; n <= 35; n++ {
		for k := 1; k < n; k++ {
			if c := binom(n, k); c >= 2 && c <= 35 {
				out = append(out, freqTable{n, k})
			}
		}
	}
	return out
}

// chiSquare: Pearson statistic of counts against the uniform distribution.
func chiSquare(counts []int, total int) float64 {
	exp := float64(total) / float64(len(counts))
	s := 0.0
	for _, c := range counts {
		d := float64(c) - exp
		s += d * d / exp
	}
	return s
}

// frequencyCase: N seeded draws of k out of n through RSample* function fi; chi-square over the
// C(n,k) subsets.
func frequencyCase(x *cx, rnd *vkit.Rand, t freqTable, fi int, N int) {
	if x.failed {
		return
	}
	fn := sampleFns[fi]
	r := rand.New(rand.NewSource(int64(rnd.Uint64() >> 1)))
	a := inputOf(t.n)
	cells := binom(t.n, t.k)
	index := make(map[uint64]int, cells)
	// enumerate the k-subsets of n positions
	var rec func(start int, left int, mask uint64)
	rec = func(start, left int, mask uint64) {
		if left == 0 {
			index[mask] = len(index)
			return
		}
		for p := start; p <= t.n-left; p++ {
			rec(p+1, left-1, mask|1<<uint(p))
		}
	}
	rec(0, t.k, 0)
	counts := make([]int, cells)
	x.calls[fn] += N
	for i := 0; i < N; i++ {
		pos, err := drawPositions(fi, r, a, t.k)
		mask, bad := samplePost(pos, t.n, t.k)
		if err != nil {
			bad = "error " + err.Error()
		}
		if bad != "" {
			x.fail(fn+"-postcondition", fmt.Sprintf("%s(n = %d, k = %d), draw %d = positions %v: %s", fn, t.n, t.k, i, pos, bad), map[string]any{"fn": fn, "n": t.n, "k": t.k, "draw": i})
			return
		}
		counts[index[mask]]++
	}
	chi := chiSquare(counts, N)
	crit := chiCritical(cells - 1)
	x.eval(fmt.Sprint("frequency|", fn, "|", t.n, "|", t.k))
	x.observe("frequency tables by function", fn)
	x.observe("frequency tables", "subsets")
	x.r.Max("chi-square / critical value, per mille", "sample subsets", int(1000*chi/crit))
	if cells >= 10 {
		x.sample("frequency", func() map[string]any {
			return map[string]any{"frequency_table": fn, "n": t.n, "k": t.k, "draws": N, "subsets": cells, "chi_square": math.Round(chi*100) / 100, "critical_value_p_1e-9": math.Round(crit*100) / 100, "counts": counts}
		})
	}
	if chi > crit {
		never := 0
		for _, c := range counts {
			if c == 0 {
				never++
			}
		}
		x.fail("sample-frequency", fmt.Sprintf("%s(n = %d, k = %d): %d seeded draws over the %d possible subsets give chi-square %.1f > %.1f (critical value for p = 1e-9, %d degrees of freedom); %d subsets never drawn: the subsets are not equally likely",
			fn, t.n, t.k, N, cells, chi, crit, cells-1, never),
			map[string]any{"fn": fn, "n": t.n, "k": t.k, "draws": N, "chi_square": chi, "critical": crit, "counts": counts})
	}
}

// shuffleFrequencyCase: N seeded RShuffle calls on 0..n-1. For n! <= 35 one chi-square over the
// permutations; otherwise one chi-square per item over its final position.
func shuffleFrequencyCase(x *cx, rnd *vkit.Rand, n int, N int) {
	if x.failed {
		return
	}
	r := rand.New(rand.NewSource(int64(rnd.Uint64() >> 1)))
	fact := 1
	for i := 2; i <= n; i++ {
		fact *= i
		if fact > 35 {
			fact = 0
			break
		}
	}
	a := make([]int, n)
	perms := make(map[string]int)
	posCount := make([][]int, n) // posCount[item][position]
	for i := range posCount {
		posCount[i] = make([]int, n)
	}
	x.calls["xrand.RShuffle"] += N
	seen := make([]bool, n)
	for d := 0; d < N; d++ {
		for i := range a {
			a[i] = i
			seen[i] = false
		}
		xrand.RShuffle(r, a)
		for p, v := range a {
			if v < 0 || v >= n || seen[v] {
				x.fail("xrand.RShuffle-not-permutation", fmt.Sprintf("RShuffle of 0..%d left %v", n-1, a), nil)
				return
			}
			seen[v] = true
			posCount[v][p]++
		}
		if fact > 0 {
			perms[fmt.Sprint(a)]++
		}
	}
	x.eval(fmt.Sprint("frequency|RShuffle|", n))
	if fact > 0 {
		counts := make([]int, fact)
		i := 0
		for _, c := range perms {
			counts[i] = c
			i++
		}
		chi := chiSquare(counts, N)
		crit := chiCritical(fact - 1)
		x.observe("frequency tables", "shuffle permutations")
		x.r.Max("chi-square / critical value, per mille", "shuffle permutations", int(1000*chi/crit))
		if chi > crit {
			x.fail("shuffle-frequency", fmt.Sprintf("RShuffle of %d items: %d seeded calls over the %d permutations (%d seen) give chi-square %.1f > %.1f (p = 1e-9): the permutations are not equally likely", n, N, fact, len(perms), chi, crit),
				map[string]any{"n": n, "chi_square": chi, "critical": crit, "permutations_seen": len(perms)})
			return
		}
	}
	crit := chiCritical(n - 1)
	for it := 0; it < n; it++ {
		chi := chiSquare(posCount[it], N)
		x.observe("frequency tables", "shuffle position of one item")
		x.r.Max("chi-square / critical value, per mille", "shuffle positions", int(1000*chi/crit))
		if chi > crit {
			x.fail("shuffle-frequency", fmt.Sprintf("RShuffle of %d items: over %d seeded calls item %d lands on the positions with counts %v: chi-square %.1f > %.1f (p = 1e-9)", n, N, it, posCount[it], chi, crit),
				map[string]any{"n": n, "item": it, "counts": posCount[it], "chi_square": chi, "critical": crit})
			return
		}
	}
}
