package main

import (
	"fmt"
	"sort"

	"github.com/bradenaw/juniper/xmaps"

	"verif/vkit"
)

type mySet map[int]struct{}
type myMap map[int]int

func setOf[S ~map[int]struct{}](elems []int, isNil bool) S {
	if isNil {
		return nil
	}
	s := make(S, len(elems))
	for _, v := range elems {
		s[v] = struct{}{}
	}
	return s
}

func showSet[S ~map[int]struct{}](s S) string {
	if s == nil {
		return "nil"
	}
	ks := make([]int, 0, len(s))
	for k := range s {
		ks = append(ks, k)
	}
	sort.Ints(ks)
	return fmt.Sprint(ks)
}

func showSets[S ~map[int]struct{}](sets []S) string {
	out := "("
	for i, s := range sets {
		if i > 0 {
			out += ", "
		}
		out += showSet(s)
	}
	return out + ")"
}

func eqSet[A, B ~map[int]struct{}](a A, b B) bool {
	if len(a) != len(b) {
		return false
	}
	for k := range a {
		if _, ok := b[k]; !ok {
			return false
		}
	}
	return true
}

// setAlgebra: Union, Intersection, Intersects of the given sets (0..n of them), and Difference of
// the first two.
func setAlgebra[S ~map[int]struct{}](x *cx, sets []S, tn string) {
	if x.failed {
		return
	}
	in := showSets(sets)
	before := make([]map[int]struct{}, len(sets))
	wasNil := make([]bool, len(sets))
	total := 0
	for i, s := range sets {
		wasNil[i] = s == nil
		before[i] = setOf[map[int]struct{}](nil, false)
		for k := range s {
			before[i][k] = struct{}{}
		}
		total += len(s)
	}
	nt := func(fn string) string {
		if total == 0 {
			return ""
		}
		return fmt.Sprint(fn, "|", tn, "|", in)
	}
	// the argument list goes to the library as a sentinel-guarded sub-slice with spare capacity
	sentSet := S{-12345: {}}
	ol := guardOuter(sets, sentSet)
	callerSets := sets
	sets = ol.s
	viaResult := false
	unchanged := func(fn string) bool {
		if why := ol.changed(sameMap[S]); why != "" {
			x.fail(fn+"-modified-arguments", fmt.Sprintf("%s%s modified the caller's variadic argument slice: %s", fn, in, why), nil)
			return false
		}
		if len(sentSet) != 1 {
			x.fail(fn+"-modified-arguments", fmt.Sprintf("%s%s wrote into a set that lies beyond the end of the argument list", fn, in), nil)
			return false
		}
		for i := range callerSets {
			if !sameMap(callerSets[i], sets[i]) {
				x.fail(fn+"-modified-arguments", fmt.Sprintf("%s%s: argument %d is no longer the caller's set", fn, in, i), nil)
				return false
			}
		}
		x.observe("argument integrity", fn)
		for i, s := range sets {
			if !eqSet(s, before[i]) || (s == nil) != wasNil[i] {
				if viaResult {
					x.fail(fn+"-result-aliases-input", fmt.Sprintf("%s%s: adding an item to / emptying the returned set changed input set %d (now %s): the result is an input set itself, which the documentation does not promise", fn, in, i, showSet(s)), map[string]any{"fn": fn, "input": in})
				} else {
					x.fail(fn+"-modified-input", fmt.Sprintf("%s%s modified input set %d (now %s)", fn, in, i, showSet(s)), nil)
				}
				return false
			}
		}
		return true
	}
	// indep: result independence and usability of a returned set: it accepts an Add, emptying it
	// leaves the inputs alone, and changing the inputs afterwards does not show in a result.
	const addKey, inputKey = -777, -888
	indep := func(fn string, got S, want map[int]struct{}, recall func() S) bool {
		if x.failed {
			return false
		}
		x.evals++
		if p := vkit.Try(func() { got[addKey] = struct{}{} }); p != nil {
			x.fail(fn+"-result-unusable", fmt.Sprintf("%s%s returned %s; adding an item to the returned set panicked: %s", fn, in, showSet(got), p.Msg), map[string]any{"fn": fn, "input": in})
			return false
		}
		for k := range want {
			delete(got, k)
		}
		viaResult = true
		ok := unchanged(fn)
		viaResult = false
		if !ok {
			return false
		}
		var r2 S
		if p := x.try(fn, func() { r2 = recall() }); p != nil {
			x.unexpectedPanic(fn, p, in)
			return false
		}
		for _, s := range sets {
			if s != nil {
				s[inputKey] = struct{}{}
			}
		}
		_, leaked := r2[inputKey]
		for _, s := range sets {
			if s != nil {
				delete(s, inputKey)
			}
		}
		if leaked {
			x.fail(fn+"-result-aliases-input", fmt.Sprintf("%s%s: an item added to an input set after the call shows up in the returned set: the result is an input set itself, which the documentation does not promise", fn, in), map[string]any{"fn": fn, "input": in})
			return false
		}
		x.observe("result independence", fn)
		return true
	}
	// reference
	union := map[int]struct{}{}
	count := map[int]int{}
	for _, s := range sets {
		for k := range s {
			union[k] = struct{}{}
			count[k]++
		}
	}
	inter := map[int]struct{}{}
	for k, c := range count {
		if c == len(sets) {
			inter[k] = struct{}{}
		}
	}
	x.observe("number of inputs", fmt.Sprintf("xmaps set algebra: %d", len(sets)))

	var got S
	p := x.try("xmaps.Union", func() { got = xmaps.Union(sets...) })
	x.eval(nt("Union"))
	if x.unexpectedPanic("xmaps.Union", p, in) {
		return
	}
	if !eqSet(got, union) {
		x.wrong("xmaps.Union", in, showSet(got), showSet(union))
		return
	}
	if !unchanged("xmaps.Union") {
		return
	}
	if !indep("xmaps.Union", got, union, func() S { return xmaps.Union(sets...) }) {
		return
	}

	p = x.try("xmaps.Intersection", func() { got = xmaps.Intersection(sets...) })
	x.eval(nt("Intersection"))
	if x.unexpectedPanic("xmaps.Intersection", p, in) {
		return
	}
	if len(sets) == 0 {
		// "the items that all input sets have in common" of no sets: not specified; recorded only
		x.observe("zero sets (recorded, not judged)", fmt.Sprintf("xmaps.Intersection() has %d items", len(got)))
	} else if !eqSet(got, inter) {
		x.wrong("xmaps.Intersection", in, showSet(got), showSet(inter))
		return
	}
	if !unchanged("xmaps.Intersection") {
		return
	}
	{
		want := inter
		if len(sets) == 0 {
			want = map[int]struct{}{}
		}
		if !indep("xmaps.Intersection", got, want, func() S { return xmaps.Intersection(sets...) }) {
			return
		}
	}

	var gotB bool
	p = x.try("xmaps.Intersects", func() { gotB = xmaps.Intersects(sets...) })
	x.eval(nt("Intersects"))
	if x.unexpectedPanic("xmaps.Intersects", p, in) {
		return
	}
	if len(sets) == 0 {
		x.observe("zero sets (recorded, not judged)", fmt.Sprintf("xmaps.Intersects() = %v", gotB))
	} else if gotB != (len(inter) > 0) {
		x.wrong("xmaps.Intersects", in, gotB, len(inter) > 0)
		return
	}
	if !unchanged("xmaps.Intersects") {
		return
	}

	if len(sets) == 2 {
		diff := map[int]struct{}{}
		for k := range sets[0] {
			if _, ok := sets[1][k]; !ok {
				diff[k] = struct{}{}
			}
		}
		p = x.try("xmaps.Difference", func() { got = xmaps.Difference(sets[0], sets[1]) })
		x.eval(nt("Difference"))
		if x.unexpectedPanic("xmaps.Difference", p, in) {
			return
		}
		if !eqSet(got, diff) {
			x.wrong("xmaps.Difference", in, showSet(got), showSet(diff))
			return
		}
		if unchanged("xmaps.Difference") {
			indep("xmaps.Difference", got, diff, func() S { return xmaps.Difference(sets[0], sets[1]) })
		}
	}
}

// xmapsSetTuple: tuple number t of nIn sets, each nil or a subset of {0,1,2} (9 choices).
func xmapsSetTuple(x *cx, nIn, t int) {
	mk := func(code int) ([]int, bool) {
		if code == 8 {
			return nil, true
		}
		var el []int
		for b := 0; b < 3; b++ {
			if code>>uint(b)&1 == 1 {
				el = append(el, b)
			}
		}
		return el, false
	}
	tt := t
	switch t % 3 {
	case 0:
		sets := make([]xmaps.Set[int], nIn)
		for i := range sets {
			el, isNil := mk(tt % 9)
			tt /= 9
			sets[i] = setOf[xmaps.Set[int]](el, isNil)
		}
		setAlgebra(x, sets, "xmaps.Set[int]")
	case 1:
		sets := make([]map[int]struct{}, nIn)
		for i := range sets {
			el, isNil := mk(tt % 9)
			tt /= 9
			sets[i] = setOf[map[int]struct{}](el, isNil)
		}
		setAlgebra(x, sets, "map[int]struct{}")
	default:
		sets := make([]mySet, nIn)
		for i := range sets {
			el, isNil := mk(tt % 9)
			tt /= 9
			sets[i] = setOf[mySet](el, isNil)
		}
		setAlgebra(x, sets, "named set type")
	}
}

// setMethods: Add, Remove, Contains on every subset of {0,1,2} with every item of {0,1,2,3}.
func setMethods(x *cx) {
	for code := 0; code < 8; code++ {
		var el []int
		for b := 0; b < 3; b++ {
			if code>>uint(b)&1 == 1 {
				el = append(el, b)
			}
		}
		for it := 0; it <= 3; it++ {
			if x.failed {
				return
			}
			in := fmt.Sprintf("%v, %d", el, it)
			has := it < 3 && code>>uint(it)&1 == 1
			s := setOf[xmaps.Set[int]](el, false)
			var got bool
			p := x.try("xmaps.Set.Contains", func() { got = s.Contains(it) })
			x.eval("Set.Contains|" + in)
			if !x.unexpectedPanic("xmaps.Set.Contains", p, in) && (got != has || !eqSet(s, setOf[mySet](el, false))) {
				x.wrong("xmaps.Set.Contains", in, got, has)
			}
			s = setOf[xmaps.Set[int]](el, false)
			p = x.try("xmaps.Set.Add", func() { s.Add(it) })
			x.eval("Set.Add|" + in)
			want := setOf[mySet](append(cloneOf(el), it), false)
			if !x.unexpectedPanic("xmaps.Set.Add", p, in) && !eqSet(s, want) {
				x.wrong("xmaps.Set.Add", in, showSet(s), showSet(want))
			}
			s = setOf[xmaps.Set[int]](el, false)
			p = x.try("xmaps.Set.Remove", func() { s.Remove(it) })
			x.eval("Set.Remove|" + in)
			var rest []int
			for _, v := range el {
				if v != it {
					rest = append(rest, v)
				}
			}
			want = setOf[mySet](rest, false)
			if !x.unexpectedPanic("xmaps.Set.Remove", p, in) && !eqSet(s, want) {
				x.wrong("xmaps.Set.Remove", in, showSet(s), showSet(want))
			}
		}
	}
}

// keysFns: ToIndex, SetFromSlice on keys; FromKeysAndValues on keys with value slices of every
// length in valueLens.
func keysFns[K comparable](x *cx, tn string, keys []K, valueLens []int, inKey string) {
	in := show(keys)
	nt := func(fn string, args ...any) string {
		if len(keys) == 0 {
			return ""
		}
		return fmt.Sprint(fn, "|", tn, "|", inKey, "|", args)
	}
	positions := make(map[K][]int)
	for i, k := range keys {
		positions[k] = append(positions[k], i)
	}
	dup := len(positions) != len(keys)
	orig := cloneOf(keys)

	if !x.failed {
		var got map[K]int
		p := x.try("xmaps.ToIndex", func() { got = xmaps.ToIndex(keys) })
		x.eval(nt("ToIndex"))
		if !x.unexpectedPanic("xmaps.ToIndex", p, in) {
			bad := len(got) != len(positions)
			for k, i := range got {
				if i < 0 || i >= len(keys) || keys[i] != k {
					bad = true
				}
			}
			if bad || !eqSlice(keys, orig) {
				x.wrong("xmaps.ToIndex", in, got, "a map from each keys[i] to an i holding it")
			} else if dup {
				lastAll := true
				for k, i := range got {
					if i != positions[k][len(positions[k])-1] {
						lastAll = false
					}
				}
				x.observe("duplicate keys (recorded, not judged)", fmt.Sprintf("xmaps.ToIndex: last index wins = %v", lastAll))
			}
		}
	}
	if !x.failed {
		var got xmaps.Set[K]
		p := x.try("xmaps.SetFromSlice", func() { got = xmaps.SetFromSlice(keys) })
		x.eval(nt("SetFromSlice"))
		if !x.unexpectedPanic("xmaps.SetFromSlice", p, in) {
			bad := len(got) != len(positions)
			for k := range got {
				if _, ok := positions[k]; !ok {
					bad = true
				}
			}
			if bad || !eqSlice(keys, orig) {
				x.wrong("xmaps.SetFromSlice", in, got, "the set of the items")
			}
		}
	}
	for _, vl := range valueLens {
		if x.failed {
			return
		}
		values := make([]item, vl)
		for i := range values {
			values[i] = item{K: i % 2, ID: i}
		}
		inv := fmt.Sprintf("%s, %d values", in, vl)
		var got map[K]item
		var ok bool
		p := x.try("xmaps.FromKeysAndValues", func() { got, ok = xmaps.FromKeysAndValues(keys, values) })
		key := nt("FromKeysAndValues", vl)
		if vl != len(keys) {
			key = fmt.Sprint("FromKeysAndValues|", tn, "|", inKey, "|", vl)
		}
		x.eval(key)
		if vl != len(keys) {
			if p == nil {
				x.fail("xmaps.FromKeysAndValues-no-panic", fmt.Sprintf("FromKeysAndValues(%s) returned %v; documentation: panics if len(keys) != len(values)", inv, got), map[string]any{"input": inv})
			} else {
				x.observe("documented panics seen", "xmaps.FromKeysAndValues length mismatch")
			}
			continue
		}
		if x.unexpectedPanic("xmaps.FromKeysAndValues", p, inv) {
			return
		}
		bad := len(got) != len(positions) || ok != !dup
		for k, v := range got {
			if v.ID < 0 || v.ID >= len(keys) || keys[v.ID] != k || v != values[v.ID] {
				bad = true
			}
		}
		if bad || !eqSlice(keys, orig) {
			x.wrong("xmaps.FromKeysAndValues", inv, fmt.Sprint(got, ok), fmt.Sprintf("a map from each keys[i] to a values[i] of that key, and %v", !dup))
		}
	}
}

// reverseFns: Reverse and ReverseSingle of m.
func reverseFns[M ~map[int]int](x *cx, tn string, m M, inKey string) {
	in := fmt.Sprint(map[int]int(m))
	nt := func(fn string) string {
		if len(m) == 0 {
			return ""
		}
		return fmt.Sprint(fn, "|", tn, "|", inKey)
	}
	want := make(map[int]map[int]bool)
	before := make(map[int]int, len(m))
	for k, v := range m {
		if want[v] == nil {
			want[v] = make(map[int]bool)
		}
		want[v][k] = true
		before[k] = v
	}
	same := func() bool {
		if len(m) != len(before) {
			return false
		}
		for k, v := range before {
			if w, ok := m[k]; !ok || w != v {
				return false
			}
		}
		return true
	}
	if !x.failed {
		var got map[int][]int
		p := x.try("xmaps.Reverse", func() { got = xmaps.Reverse(m) })
		x.eval(nt("Reverse"))
		if !x.unexpectedPanic("xmaps.Reverse", p, in) {
			bad := len(got) != len(want)
			for v, ks := range got {
				if len(ks) != len(want[v]) {
					bad = true
				}
				seen := make(map[int]bool)
				for _, k := range ks {
					if !want[v][k] || seen[k] {
						bad = true
					}
					seen[k] = true
				}
			}
			if bad || !same() {
				x.wrong("xmaps.Reverse", in, got, "a map from each value to all the keys that mapped to it")
			} else {
				var vals []int
				for v := range got {
					vals = append(vals, v)
				}
				sort.Ints(vals)
				names := make([]string, len(vals))
				parts := make([][]int, len(vals))
				for i, v := range vals {
					names[i], parts[i] = fmt.Sprintf("for value %d", v), got[v]
				}
				partsIndependent(x, "xmaps.Reverse", in, names, parts, true, same)
			}
		}
	}
	if !x.failed {
		var got map[int]int
		var ok bool
		p := x.try("xmaps.ReverseSingle", func() { got, ok = xmaps.ReverseSingle(m) })
		x.eval(nt("ReverseSingle"))
		if !x.unexpectedPanic("xmaps.ReverseSingle", p, in) {
			bad := len(got) != len(want) || ok != (len(want) == len(m))
			for v, k := range got {
				if !want[v][k] {
					bad = true
				}
			}
			if bad || !same() {
				x.wrong("xmaps.ReverseSingle", in, fmt.Sprint(got, ok), fmt.Sprintf("a map from each value to one of its keys, and %v", len(want) == len(m)))
			} else if !ok {
				x.observe("reverse-single", "duplicate values")
			}
		}
	}
}

// xmapsReverseSmall: map number t of the 256 maps {0,1,2,3} -> {absent,0,1,2}.
func xmapsReverseSmall(x *cx, t int) {
	m := map[int]int{}
	tt := t
	for k := 0; k < 4; k++ {
		if c := tt % 4; c > 0 {
			m[k] = c - 1
		}
		tt /= 4
	}
	if t%2 == 0 {
		reverseFns(x, "map[int]int", m, fmt.Sprint(t))
	} else {
		reverseFns(x, "named map type", myMap(m), fmt.Sprint(t))
	}
	if t == 0 {
		reverseFns(x, "nil map", map[int]int(nil), "nil")
	}
}

func xmapsLarge(x *cx, rnd *vkit.Rand, maxN int) {
	rangeN := []int{4, 50, 3000}[rnd.Intn(3)]
	k := rnd.Intn(7)
	sets := make([]xmaps.Set[int], k)
	for i := range sets {
		n := rnd.Intn(maxN)
		if rnd.Bool(0.15) {
			n = 0
		}
		sets[i] = make(xmaps.Set[int])
		for j := 0; j < n; j++ {
			sets[i][rnd.Intn(rangeN)] = struct{}{}
		}
		if n == 0 && rnd.Bool(0.5) {
			sets[i] = nil
		}
	}
	setAlgebra(x, sets, "large")
	if k > 2 {
		setAlgebra(x, sets[:2], "large")
	}
	n := rnd.Intn(maxN)
	keys := make([]int, n)
	m := make(map[int]int)
	for i := range keys {
		keys[i] = rnd.Intn(rangeN)
		m[rnd.Intn(rangeN)] = rnd.Intn(rangeN)
	}
	if rnd.Bool(0.3) { // no duplicates
		keys = rnd.Perm(n)
		m = make(map[int]int)
		for i, v := range rnd.Perm(n) {
			m[i] = v
		}
	}
	keysFns(x, "int", keys, []int{n, n + 1, max(0, n-1), 0}, x.c.ID())
	keysFns(x, "string", stringsOf(keys), []int{n}, x.c.ID())
	reverseFns(x, "map[int]int", m, x.c.ID())
}
