package main

import (
	"context"
	"errors"
	"fmt"
	"math/rand"
	"sort"
	"strconv"
	"sync"

	"github.com/bradenaw/juniper/iterator"
	"github.com/bradenaw/juniper/stream"
	"github.com/bradenaw/juniper/xerrors"
	"github.com/bradenaw/juniper/xmaps"
	"github.com/bradenaw/juniper/xmath/xrand"
	"github.com/bradenaw/juniper/xslices"
	"github.com/bradenaw/juniper/xsort"

	"verif/vkit"
)

// slow32: on 32-bit platforms the float-heavy sampling code is much slower; the statistical tables
// use fewer draws there (the false-alarm bound does not depend on the number of draws).
const slow32 = strconv.IntSize == 32

// "Twin" oracle: a value the library returned and the caller keeps must not change when the library
// is used again. Every result (and the inputs it was computed from) is rendered completely right
// after the call; then further results are created through different call paths; after each of them
// all older renderings are taken again and must be unchanged.

type keptValue struct {
	what   string
	render func() string
	was    string
}

type ledger struct {
	x    *cx
	kept []keptValue
}

func (l *ledger) keep(what string, render func() string) {
	l.kept = append(l.kept, keptValue{what: what, render: render, was: render()})
}

// recheck re-reads every kept value; after is the call that was made since.
func (l *ledger) recheck(sig, after string) bool {
	for i := range l.kept {
		k := &l.kept[i]
		l.x.evals++
		if now := k.render(); now != k.was {
			l.x.fail(sig, fmt.Sprintf("%s changed after a later library call (%s): it read %q when it was returned and reads %q now", k.what, after, clip(k.was), clip(now)),
				map[string]any{"kept": k.what, "later_call": after, "was": clip(k.was), "now": clip(now)})
			return false
		}
	}
	return true
}

func clip(s string) string {
	if len(s) > 700 {
		return s[:700] + "..."
	}
	return s
}

// ---- xerrors

//go:noinline
func wsPathA(e error, depth int) error {
	if depth > 0 {
		r := wsPathA(e, depth-1)
		return r
	}
	return xerrors.WithStack(e)
}

//go:noinline
func wsPathB(e error, depth int) error {
	if depth > 0 {
		r := wsPathB(e, depth-1)
		return r
	}
	r := wsPathA(e, 2)
	return r
}

func renderErr(e error) func() string {
	return func() string {
		return e.Error() + "\x00" + fmt.Sprintf("%v", e) + "\x00" + fmt.Sprintf("%+v", e) + "\x00" + fmt.Sprintf("%s", e)
	}
}

// twinErrors: stacked errors created at different depths, through different functions and on other
// goroutines; each older one is re-read after every new one.
func twinErrors(x *cx, rnd *vkit.Rand) {
	l := &ledger{x: x}
	n := rnd.Range(6, 14)
	for i := 0; i < n && !x.failed; i++ {
		depth := []int{0, 1, 2, 5, 20, 60, 70, 130, 3}[rnd.Intn(9)]
		base := errors.New("twin " + strconv.Itoa(i))
		var e error
		how := ""
		switch rnd.Intn(4) {
		case 0:
			how = fmt.Sprintf("WithStack under %d frames of wsPathA", depth)
			e = wsPathA(base, depth)
		case 1:
			how = fmt.Sprintf("WithStack under %d frames of wsPathB", depth)
			e = wsPathB(base, depth)
		case 2:
			how = fmt.Sprintf("WithStack under %d frames of wsDeep", depth+1)
			e = wsDeep(base, depth+1)
		default:
			how = fmt.Sprintf("WithStack on 3 other goroutines under %d frames", depth)
			var wg sync.WaitGroup
			res := make([]error, 3)
			for g := range res {
				g := g
				wg.Add(1)
				go func() {
					defer wg.Done()
					res[g] = wsPathB(base, depth+g)
				}()
			}
			wg.Wait()
			e = res[0]
			x.calls["xerrors.WithStack"] += 2
			l.keep("the error returned by an earlier WithStack (goroutine 2)", renderErr(res[1]))
			l.keep("the error returned by an earlier WithStack (goroutine 3)", renderErr(res[2]))
		}
		x.calls["xerrors.WithStack"]++
		if !l.recheck("xerrors.WithStack-result-changed-later", how) {
			return
		}
		l.keep(fmt.Sprintf("the error returned by an earlier WithStack (call %d: %s)", i, how), renderErr(e))
	}
	x.eval("twin|xerrors|" + x.c.ID())
	x.observe("twin oracle", "xerrors scenarios")
}

// ---- slices, maps, sorting, sampling

func renderAny(vs ...any) func() string {
	return func() string { return fmt.Sprint(vs...) }
}

// sortedSlicesOf renders a map of slices with its keys sorted (fmt sorts map keys already; the
// slices are rendered as they are).
func twinCalls(x *cx, rnd *vkit.Rand) {
	l := &ledger{x: x}
	rr := rand.New(rand.NewSource(int64(rnd.Uint64() >> 1)))
	mkItems := func() []item {
		n := rnd.Intn(9)
		keys := make([]int, n)
		for i := range keys {
			keys[i] = rnd.Intn(3)
		}
		return itemsOf(keys, 100*len(l.kept))
	}
	mkInts := func() []int {
		n := rnd.Intn(9)
		out := make([]int, n, n+rnd.Intn(3))
		for i := range out {
			out[i] = rnd.Intn(4)
		}
		return out
	}
	mkSet := func() xmaps.Set[int] {
		s := xmaps.Set[int]{}
		for i := rnd.Intn(5); i > 0; i-- {
			s[rnd.Intn(6)] = struct{}{}
		}
		return s
	}
	byKey := func(a, b item) bool { return a.K < b.K }
	steps := rnd.Range(25, 45)
	for i := 0; i < steps && !x.failed; i++ {
		what := ""
		var res, in any
		p := vkit.Try(func() {
			switch op := rnd.Intn(24); op {
			case 0:
				s := mkItems()
				what, in, res = "Chunk", s, xslices.Chunk(s, rnd.Range(1, 4))
			case 1:
				s := mkInts()
				what, in, res = "Clone", s, xslices.Clone(s)
			case 2:
				s := mkInts()
				what, in, res = "Compact", s, xslices.Compact(s)
			case 3:
				s := mkItems()
				what, in, res = "Filter", s, xslices.Filter(s, func(t item) bool { return t.K != 1 })
			case 4:
				s := mkItems()
				what, in, res = "Group", s, xslices.Group(s, func(t item) int { return t.K })
			case 5:
				s := mkInts()
				what, in, res = "Grow", cloneOf(s), xslices.Grow(s, rnd.Intn(4))
			case 6:
				s := mkInts()
				idx := rnd.Intn(len(s) + 1)
				want := cloneOf(s)
				what, in, res = "Insert", want, xslices.Insert(s, idx, 7, 8)
			case 7:
				a, b := mkItems(), mkItems()
				what, in, res = "Join", [][]item{a, b}, xslices.Join(a, b)
			case 8:
				s := mkItems()
				what, in, res = "Map", s, xslices.Map(s, func(t item) string { return strconv.Itoa(t.K) })
			case 9:
				what, in, res = "Repeat", nil, xslices.Repeat(item{1, i}, rnd.Intn(5))
			case 10:
				s := mkItems()
				what, in, res = "Runs", s, xslices.Runs(s, func(a, b item) bool { return a.K == b.K })
			case 11:
				s := mkInts()
				what, in, res = "Shrink", cloneOf(s), xslices.Shrink(s, rnd.Intn(2))
			case 12:
				s := mkInts()
				what, in, res = "Unique", s, xslices.Unique(s)
			case 13:
				s := mkInts()
				what, in, res = "UniqueInPlace (result only)", nil, xslices.UniqueInPlace(s)
			case 14:
				m := map[int]int{}
				for j := rnd.Intn(7); j > 0; j-- {
					m[rnd.Intn(8)] = rnd.Intn(3)
				}
				rv := xmaps.Reverse(m)
				for _, ks := range rv {
					sort.Ints(ks)
				}
				what, in, res = "xmaps.Reverse", m, rv
			case 15:
				s := mkInts()
				what, in, res = "xmaps.ToIndex", s, xmaps.ToIndex(s)
			case 16:
				s := mkInts()
				what, in, res = "xmaps.SetFromSlice", s, xmaps.SetFromSlice(s)
			case 17:
				a, b := mkSet(), mkSet()
				what, in, res = "xmaps.Union", []xmaps.Set[int]{a, b}, xmaps.Union(a, b)
			case 18:
				a, b := mkSet(), mkSet()
				what, in, res = "xmaps.Intersection", []xmaps.Set[int]{a, b}, xmaps.Intersection(a, b)
			case 19:
				a, b := mkSet(), mkSet()
				what, in, res = "xmaps.Difference", []xmaps.Set[int]{a, b}, xmaps.Difference(a, b)
			case 20:
				a, b := refStableSort(mkItems(), smallOrders[0], keyItem), refStableSort(mkItems(), smallOrders[0], keyItem)
				what, in, res = "xsort.MergeSlices", [][]item{a, b}, xsort.MergeSlices(byKey, nil, a, b)
			case 21:
				s := mkItems()
				what, in, res = "xsort.MinK", s, xsort.MinK(byKey, iterator.Slice(s), rnd.Intn(4))
			case 22:
				s := mkInts()
				what, in, res = "xrand.RSampleSlice", s, xrand.RSampleSlice(rr, s, rnd.Intn(4))
			default:
				s := mkInts()
				out, _ := xrand.RSampleStream(context.Background(), rr, stream.FromIterator(iterator.Slice(s)), rnd.Intn(4))
				what, in, res = "xrand.RSampleStream", s, out
			}
		})
		if p != nil {
			x.unexpectedPanic("twin scenario call", p, what)
			return
		}
		if !l.recheck("result-changed-later", what) {
			return
		}
		l.keep(fmt.Sprintf("the result of an earlier %s (call %d) and its input", what, i), renderAny(res, "|", in))
	}
	x.eval("twin|calls|" + x.c.ID())
	x.observe("twin oracle", "slice/map/sort/sample scenarios")
}

// ---- parts of one result against each other

// partsIndependent: a helper returned several slices (parts). For each part in turn: overwrite its
// cells and (if appendToo) append two sentinels to it; every OTHER part must still read what it
// read at return. inputsOK, if not nil, must still hold afterwards (inputs untouched).
func partsIndependent[T comparable](x *cx, fn, in string, names []string, parts [][]T, appendToo bool, inputsOK func() bool) bool {
	if x.failed {
		return false
	}
	if len(parts) > 48 {
		// many parts (large inputs): the first and the last 24 are checked against each other
		parts = append(cloneOf(parts[:24]), parts[len(parts)-24:]...)
		names = append(cloneOf(names[:24]), names[len(names)-24:]...)
	}
	snaps := make([][]T, len(parts))
	for i, p := range parts {
		snaps[i] = cloneOf(p)
	}
	p1, p2 := poisons[T]()
	for i := range parts {
		for c := range parts[i] {
			parts[i][c] = p1
		}
		how := "overwriting the cells of"
		if appendToo {
			_ = append(parts[i], p2, p2)
			how = "overwriting the cells of, and appending to,"
		}
		x.evals++
		for j := range parts {
			if j != i && !eqSlice(parts[j], snaps[j]) {
				x.fail(fn+"-result-parts-alias", fmt.Sprintf("%s(%s): %s the returned slice %s changed the returned slice %s from %v to %v: the slices of one result share storage beyond what they hold",
					fn, in, how, names[i], names[j], show(snaps[j]), show(parts[j])), map[string]any{"fn": fn, "input": in})
				return false
			}
		}
		if inputsOK != nil && !inputsOK() {
			x.fail(fn+"-result-aliases-input", fmt.Sprintf("%s(%s): %s the returned slice %s changed the input", fn, in, how, names[i]), map[string]any{"fn": fn, "input": in})
			return false
		}
		copy(parts[i], snaps[i])
	}
	x.observe("result parts independence", fn)
	return true
}
