package main

import (
	"fmt"
	"sort"
	"strconv"
	"sync"

	"verif/vkit"
)

// item is the element type used for the helpers that are generic over `T any`: the key K drives
// every predicate / equivalence / order handed to the library (so, by parametricity, K is all the
// library can learn), ID names the input position so that permutations, stability and aliasing
// can be checked exactly.
type item struct{ K, ID int }

var sentItem = item{-7, -7}

const sentInt = -7
const sentStr = "\x00sentinel"

// cx is the per-case checking context. It batches the evidence counters so that the report's
// mutex is taken once per case, not once per call.
type cx struct {
	c      *vkit.Case
	r      *vkit.Report
	failed bool
	calls  map[string]int // library calls by exported function
	obs    map[string]int // "table\x00key" -> n
	evals  int
	dist   []string
	small  bool // complete small scope (keys in {0,1,2}); otherwise random large
}

func newCx(c *vkit.Case, small bool) *cx {
	return &cx{c: c, r: c.R, calls: make(map[string]int), obs: make(map[string]int), small: small}
}

func (x *cx) flush() {
	for k, n := range x.calls {
		x.r.Count("calls", k, n)
	}
	for k, n := range x.obs {
		for i := 0; i < len(k); i++ {
			if k[i] == 0 {
				x.r.Count(k[:i], k[i+1:], n)
				break
			}
		}
	}
	x.r.Eval(x.evals)
	for _, d := range x.dist {
		x.r.Distinct(d)
	}
	x.calls = make(map[string]int)
	x.obs = make(map[string]int)
	x.evals = 0
	x.dist = x.dist[:0]
}

// try runs one library call (fn = exported name, e.g. "xslices.Chunk") with panic capture.
func (x *cx) try(fn string, f func()) *vkit.Panic {
	x.calls[fn]++
	return vkit.Try(f)
}

func (x *cx) observe(table, key string) { x.obs[table+"\x00"+key]++ }

// eval counts one oracle comparison; nontrivial != "" also records a distinct non-trivial case.
func (x *cx) eval(nontrivialKey string) {
	x.evals++
	if nontrivialKey != "" {
		x.dist = append(x.dist, nontrivialKey)
	}
}

func (x *cx) fail(sig, what string, witness map[string]any) {
	if x.failed {
		return
	}
	x.failed = true
	x.c.Violation(sig, what, witness)
}

// unexpectedPanic reports a panic of a call made within its documented preconditions.
func (x *cx) unexpectedPanic(fn string, p *vkit.Panic, in string) bool {
	if p == nil {
		return false
	}
	x.fail(fn+"-panic", fmt.Sprintf("%s(%s) panicked although the call is within its documented preconditions: %s", fn, in, p.Msg),
		map[string]any{"fn": fn, "input": in, "panic": p.Msg, "frame": p.JuniperFrame()})
	return true
}

func (x *cx) wrong(fn, in string, got, want any) {
	x.fail(fn+"-result", fmt.Sprintf("%s(%s) = %v, documentation specifies %v", fn, in, got, want),
		map[string]any{"fn": fn, "input": in, "got": fmt.Sprint(got), "want": fmt.Sprint(want)})
}

// sample keeps v as a written-out case; at most one per kind, so that the few samples kept show
// different helpers.
func (x *cx) sample(kind string, v func() map[string]any) {
	if !x.r.WantSample() {
		return
	}
	if _, dup := sampledKinds.LoadOrStore(kind, true); dup {
		return
	}
	x.r.Sample(v())
}

var sampledKinds sync.Map

// ---------------------------------------------------------------------------------------------
// Guarded slices: the input lives inside a larger array whose other cells hold a sentinel, so that
// writes outside s[:len] (into spare capacity or beyond) are seen.

const pad = 2

type gslice[T comparable] struct {
	arr   []T
	s     []T
	n     int
	spare int
	sent  T
}

// guard builds a fresh copy of elems with `spare` cells of spare capacity. spare < 0 gives a nil
// slice (only sensible for empty elems).
func guard[T comparable](elems []T, spare int, sent T) *gslice[T] {
	n := len(elems)
	if spare < 0 {
		return &gslice[T]{sent: sent}
	}
	arr := make([]T, pad+n+spare+pad)
	for i := range arr {
		arr[i] = sent
	}
	copy(arr[pad:], elems)
	return &gslice[T]{arr: arr, s: arr[pad : pad+n : pad+n+spare], n: n, spare: spare, sent: sent}
}

func (g *gslice[T]) padsOK() bool {
	if g.arr == nil {
		return true
	}
	for i := 0; i < pad; i++ {
		if g.arr[i] != g.sent || g.arr[len(g.arr)-1-i] != g.sent {
			return false
		}
	}
	return true
}

// spareOK: the spare capacity of s was not written.
func (g *gslice[T]) spareOK() bool {
	if g.arr == nil {
		return true
	}
	for i := pad + g.n; i < pad+g.n+g.spare; i++ {
		if g.arr[i] != g.sent {
			return false
		}
	}
	return g.padsOK()
}

// same: s[:n] still holds elems.
func (g *gslice[T]) same(elems []T) bool {
	if g.arr == nil {
		return len(elems) == 0
	}
	for i := range elems {
		if g.arr[pad+i] != elems[i] {
			return false
		}
	}
	return true
}

// isPrefix: res starts where s starts (res is s[:len(res)]). An empty res is a prefix of anything.
func (g *gslice[T]) isPrefix(res []T) bool {
	if len(res) == 0 {
		return true
	}
	if g.arr == nil || len(res) > g.n+g.spare {
		return false
	}
	return &res[0] == &g.arr[pad]
}

// aliases: res's first cell lies inside s's backing array.
func (g *gslice[T]) aliases(res []T) bool {
	if len(res) == 0 || g.arr == nil {
		return false
	}
	for i := range g.arr {
		if &g.arr[i] == &res[0] {
			return true
		}
	}
	return false
}

// tailCleared: cells s[len(res):n] hold the zero value (recorded, never judged: juniper's docs do
// not promise it).
func (g *gslice[T]) tailCleared(resLen int) bool {
	var zero T
	for i := resLen; i < g.n; i++ {
		if g.arr[pad+i] != zero {
			return false
		}
	}
	return true
}

// ---------------------------------------------------------------------------------------------
// Small helpers for the reference side (deliberately plain loops; no use of package slices).

func eqSlice[T comparable](a, b []T) bool {
	if len(a) != len(b) {
		return false
	}
	for i := range a {
		if a[i] != b[i] {
			return false
		}
	}
	return true
}

func sameMultiset[T comparable](a, b []T) bool {
	if len(a) != len(b) {
		return false
	}
	m := make(map[T]int, len(a))
	for _, v := range a {
		m[v]++
	}
	for _, v := range b {
		m[v]--
		if m[v] < 0 {
			return false
		}
	}
	return true
}

// subMultiset: every element of a occurs in b at least as often.
func subMultiset[T comparable](a, b []T) bool {
	m := make(map[T]int, len(b))
	for _, v := range b {
		m[v]++
	}
	for _, v := range a {
		m[v]--
		if m[v] < 0 {
			return false
		}
	}
	return true
}

func cloneOf[T any](s []T) []T {
	out := make([]T, len(s))
	copy(out, s)
	return out
}

func show[T any](s []T) string {
	if len(s) > 24 {
		return fmt.Sprintf("%v...(%d items)", s[:24], len(s))
	}
	return fmt.Sprint(s)
}

// ---------------------------------------------------------------------------------------------
// Small-scope enumeration: all slices over {0,1,2} of length <= maxLen, in order of length.

func nSmall(maxLen int) int {
	n, p := 0, 1
	for l := 0; l <= maxLen; l++ {
		n += p
		p *= 3
	}
	return n
}

func smallSlice(idx int) []int {
	l, p := 0, 1
	for idx >= p {
		idx -= p
		p *= 3
		l++
	}
	s := make([]int, l)
	for i := l - 1; i >= 0; i-- {
		s[i] = idx % 3
		idx /= 3
	}
	return s
}

func itemsOf(keys []int, idBase int) []item {
	out := make([]item, len(keys))
	for i, k := range keys {
		out[i] = item{K: k, ID: idBase + i}
	}
	return out
}

func stringsOf(keys []int) []string {
	out := make([]string, len(keys))
	for i, k := range keys {
		out[i] = strconv.Itoa(k)
	}
	return out
}

func keyInt(v int) int       { return v }
func keyItem(v item) int     { return v.K }
func keyString(s string) int { n, _ := strconv.Atoi(s); return n }

// A predicate family: f(t) = bit (key(t) mod m) of mask.
type predSpec struct{ m, mask int }

func (p predSpec) String() string { return fmt.Sprintf("key%%%d in mask %b", p.m, p.mask) }
func (p predSpec) of(k int) bool {
	k %= p.m
	if k < 0 {
		k += p.m
	}
	return p.mask>>uint(k)&1 == 1
}

// An equivalence family: a ~ b iff cls[key(a) mod m] == cls[key(b) mod m].
type eqvSpec struct{ cls []int }

func (e eqvSpec) String() string { return fmt.Sprintf("classes%v", e.cls) }
func (e eqvSpec) class(k int) int {
	k %= len(e.cls)
	if k < 0 {
		k += len(e.cls)
	}
	return e.cls[k]
}

var smallPreds = func() []predSpec {
	var out []predSpec
	for m := 0; m < 8; m++ {
		out = append(out, predSpec{3, m})
	}
	return out
}()

// the five partitions of {0,1,2}
var smallEqvs = []eqvSpec{{[]int{0, 1, 2}}, {[]int{0, 0, 1}}, {[]int{0, 1, 0}}, {[]int{0, 1, 1}}, {[]int{0, 0, 0}}}

func randPred(r *vkit.Rand) predSpec {
	m := []int{2, 3, 5, 7}[r.Intn(4)]
	return predSpec{m, r.Intn(1 << uint(m))}
}

func randEqv(r *vkit.Rand) eqvSpec {
	m := []int{1, 2, 3, 5}[r.Intn(4)]
	cls := make([]int, m)
	for i := range cls {
		cls[i] = r.Intn(m)
	}
	return eqvSpec{cls}
}

func sortedKeys[V any](m map[string]V) []string {
	out := make([]string, 0, len(m))
	for k := range m {
		out = append(out, k)
	}
	sort.Strings(out)
	return out
}
