package main

import (
	"errors"
	"fmt"
	"reflect"
	"strings"

	"github.com/bradenaw/juniper/xerrors"

	"verif/vkit"
)

type codeErr struct{ code int }

func (e *codeErr) Error() string { return fmt.Sprintf("code %d", e.code) }

type valErr struct{ code int }

func (e valErr) Error() string { return fmt.Sprintf("value error %d", e.code) }

// isErr has a custom Is that looks at the target's Error() (the case WithStack's own comment
// worries about).
type isErr struct{ tag string }

func (e *isErr) Error() string { return "is-error " + e.tag }
func (e *isErr) Is(target error) bool {
	return target != nil && target.Error() == "match:"+e.tag
}

type ptrWrap struct {
	inner error
	tag   int
}

func (w *ptrWrap) Error() string { return fmt.Sprintf("wrap%d(%s)", w.tag, firstLine(w.inner.Error())) }
func (w *ptrWrap) Unwrap() error { return w.inner }

func firstLine(s string) string {
	if i := strings.IndexByte(s, '\n'); i >= 0 {
		return s[:i]
	}
	return s
}

var errUnrelated = errors.New("unrelated sentinel")

//go:noinline
func callWithStack(e error) error { return xerrors.WithStack(e) }

//go:noinline
func wsDeep(e error, depth int) error {
	if depth <= 1 {
		return callWithStack(e)
	}
	r := wsDeep(e, depth-1)
	return r
}

// sameErr: identity of two error values. withStack values are not comparable with ==, so fall
// back to DeepEqual when the comparison itself panics.
func sameErr(a, b error) bool {
	same := false
	if p := vkit.Try(func() { same = a == b }); p != nil {
		return reflect.DeepEqual(a, b)
	}
	return same
}

const (
	layFmt = iota
	layPtr
	layStack
	nLayerKinds
)

var layerNames = [...]string{"fmt.Errorf(%w)", "*ptrWrap", "WithStack"}
var baseNames = [...]string{"errors.New", "*codeErr", "valErr", "*isErr(custom Is)"}

// chainCheck builds base, applies the layers bottom-up and checks every WithStack on the way and
// the finished chain.
func chainCheck(x *cx, baseKind int, layers []int) {
	if x.failed {
		return
	}
	var base error
	switch baseKind {
	case 0:
		base = errors.New("sentinel")
	case 1:
		base = &codeErr{code: 42}
	case 2:
		base = valErr{code: 7}
	default:
		base = &isErr{tag: "t"}
	}
	desc := baseNames[baseKind]
	for _, l := range layers {
		desc += " <- " + layerNames[l]
	}
	e := base
	stacked := false
	var comparableLayers []error
	var outerPtr *ptrWrap
	nStack := 0
	depth := 0 // number of Unwrap steps from the top to base
	for i, l := range layers {
		switch l {
		case layFmt:
			e = fmt.Errorf("layer %d: %w", i, e)
			comparableLayers = append(comparableLayers, e)
			depth++
		case layPtr:
			outerPtr = &ptrWrap{inner: e, tag: i}
			e = outerPtr
			comparableLayers = append(comparableLayers, e)
			depth++
		case layStack:
			in := e
			var res error
			p := x.try("xerrors.WithStack", func() { res = callWithStack(in) })
			x.eval("")
			what := fmt.Sprintf("WithStack at layer %d of chain %s", i, desc)
			if x.unexpectedPanic("xerrors.WithStack", p, what) {
				return
			}
			nStack++
			if stacked {
				// already has a stack attached (directly or deeper): returned unchanged
				if !sameErr(res, in) {
					x.fail("xerrors.WithStack-not-idempotent", fmt.Sprintf("%s: the error already has a stack attached, but WithStack returned a different error (%T wrapping %T) instead of err itself", what, res, errors.Unwrap(res)),
						map[string]any{"chain": desc, "layer": i})
					return
				}
				if errors.Unwrap(in) != nil && !sameErr(errors.Unwrap(res), errors.Unwrap(in)) {
					x.fail("xerrors.WithStack-not-idempotent", what+": Unwrap of the result differs from Unwrap of the input", map[string]any{"chain": desc, "layer": i})
					return
				}
				if i > 0 && layers[i-1] == layStack {
					x.observe("withstack", "applied directly to a stacked error")
				} else {
					x.observe("withstack", "applied to a chain with a stack deeper inside")
				}
			} else {
				bad := ""
				var ce *codeErr
				switch {
				case res == nil:
					bad = "returned nil for a non-nil error"
				case errors.Unwrap(res) != in:
					bad = fmt.Sprintf("errors.Unwrap(WithStack(e)) is %v, not e", errors.Unwrap(res))
				case !errors.Is(res, base):
					bad = "errors.Is(WithStack(e), base of the chain) is false"
				case !errors.Is(res, in):
					bad = "errors.Is(WithStack(e), e) is false"
				case errors.Is(res, errUnrelated):
					bad = "errors.Is(WithStack(e), unrelated error) is true"
				case errors.As(res, &ce) != (baseKind == 1) || (baseKind == 1 && ce != base):
					bad = "errors.As(WithStack(e), **codeErr) does not find exactly the chain's *codeErr"
				}
				if bad == "" {
					var msg string
					if p := vkit.Try(func() { msg = res.Error() }); p != nil {
						bad = "Error() panicked: " + p.Msg
					} else if !strings.HasPrefix(msg, in.Error()) {
						bad = fmt.Sprintf("Error() = %q does not start with the wrapped error's message", firstLine(msg))
					} else if !strings.Contains(msg, "main.callWithStack(...)") {
						bad = "Error() does not list the function that called WithStack: " + fmt.Sprintf("%q", msg[:min(len(msg), 300)])
					}
				}
				if bad != "" {
					x.fail("xerrors.WithStack-wrap", what+": "+bad, map[string]any{"chain": desc, "layer": i})
					return
				}
				stacked = true
				depth++
				e = res
			}
		}
	}
	// the finished chain
	x.eval(func() string {
		if nStack == 0 {
			return ""
		}
		return "chain|" + desc
	}())
	bad := ""
	var ce *codeErr
	var pw *ptrWrap
	switch {
	case !errors.Is(e, base):
		bad = "errors.Is(top, base) is false"
	case errors.Is(e, errUnrelated):
		bad = "errors.Is(top, unrelated) is true"
	case errors.As(e, &ce) != (baseKind == 1) || (baseKind == 1 && ce != base):
		bad = "errors.As(top, **codeErr) does not find exactly the chain's *codeErr"
	case errors.As(e, &pw) != (outerPtr != nil) || (outerPtr != nil && pw != outerPtr):
		bad = "errors.As(top, **ptrWrap) does not find the outermost *ptrWrap"
	case baseKind == 3 && !errors.Is(e, errors.New("match:t")):
		bad = "errors.Is(top, target) does not reach the custom Is method of the base"
	}
	if bad == "" {
		for _, l := range comparableLayers {
			if !errors.Is(e, l) {
				bad = fmt.Sprintf("errors.Is(top, intermediate error %q) is false", firstLine(l.Error()))
				break
			}
		}
	}
	if bad == "" {
		steps := 0
		for cur := e; cur != nil && steps <= len(layers)+1; cur = errors.Unwrap(cur) {
			if sameErr(cur, base) {
				break
			}
			steps++
		}
		if steps != depth {
			bad = fmt.Sprintf("the base is %d Unwrap steps from the top, want %d (one per wrapper, one for the single stack)", steps, depth)
		}
	}
	if bad != "" {
		x.fail("xerrors.WithStack-chain", fmt.Sprintf("chain %s: %s", desc, bad), map[string]any{"chain": desc})
		return
	}
	if stacked {
		x.observe("chain depth with a stack inside", fmt.Sprint(depth))
		if nStack >= 2 && len(layers) == 4 {
			x.sample("chain", func() map[string]any {
				return map[string]any{"fn": "xerrors.WithStack", "chain (base first)": desc, "unwrap_steps_to_base": depth, "top_error_first_line": firstLine(e.Error())}
			})
		}
	}
}

// xerrorsFixed: the cases outside the chain enumeration: nil, deep call stacks, Join (recorded).
func xerrorsFixed(x *cx) {
	// WithStack(nil) == nil
	var res error = errUnrelated
	p := x.try("xerrors.WithStack", func() { res = callWithStack(nil) })
	x.eval("WithStack(nil)")
	if !x.unexpectedPanic("xerrors.WithStack", p, "nil") && res != nil {
		x.fail("xerrors.WithStack-nil", fmt.Sprintf("WithStack(nil) = %v, documentation: returns err (nil)", res), nil)
	}
	// "adds the call stack of the call to WithStack to Error()": every caller frame is listed, also
	// when the stack is deeper than one internal buffer.
	for _, d := range []int{1, 2, 10, 40, 55, 60, 61, 62, 63, 64, 65, 66, 100, 127, 128, 129, 200, 1000} {
		if x.failed {
			return
		}
		var msg string
		p := x.try("xerrors.WithStack", func() { msg = wsDeep(errors.New("deep"), d).Error() })
		x.eval(fmt.Sprint("WithStack|call depth|", d))
		if x.unexpectedPanic("xerrors.WithStack", p, fmt.Sprintf("a call %d frames deep", d)) {
			return
		}
		if got := strings.Count(msg, "main.wsDeep(...)"); got != d || !strings.Contains(msg, "main.callWithStack(...)") {
			x.fail("xerrors.WithStack-stack", fmt.Sprintf("WithStack called under %d nested calls of wsDeep: Error() lists %d of them (calling function listed: %v)", d, got, strings.Contains(msg, "main.callWithStack(...)")),
				map[string]any{"depth": d, "listed": got})
			return
		}
	}
	// errors.Join: a stack inside one branch. Whether that counts as "already has a stack" is not
	// specified; recorded only.
	st := callWithStack(errors.New("a"))
	j := errors.Join(errors.New("b"), st)
	r := callWithStack(j)
	x.calls["xerrors.WithStack"] += 2
	if sameErr(r, j) {
		x.observe("errors.Join with a stacked branch (recorded, not judged)", "returned unchanged")
	} else {
		x.observe("errors.Join with a stacked branch (recorded, not judged)", "wrapped again")
	}
}

// xerrorsSmall: chain number t: base kind x layer sequence of length <= maxDepth.
func xerrorsSmall(x *cx, t int, maxDepth int) {
	baseKind := t % 4
	t /= 4
	l, p := 0, 1
	for t >= p {
		t -= p
		p *= nLayerKinds
		l++
	}
	_ = maxDepth
	layers := make([]int, l)
	for i := range layers {
		layers[i] = t % nLayerKinds
		t /= nLayerKinds
	}
	chainCheck(x, baseKind, layers)
}

func nChains(maxDepth int) int {
	n, p := 0, 1
	for l := 0; l <= maxDepth; l++ {
		n += p
		p *= nLayerKinds
	}
	return 4 * n
}

func xerrorsLarge(x *cx, rnd *vkit.Rand) {
	l := rnd.Range(5, 40)
	layers := make([]int, l)
	pStack := []float64{0.05, 0.2, 0.5}[rnd.Intn(3)]
	for i := range layers {
		if rnd.Bool(pStack) {
			layers[i] = layStack
		} else {
			layers[i] = rnd.Intn(2)
		}
	}
	chainCheck(x, rnd.Intn(4), layers)
}
