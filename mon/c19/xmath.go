package main

import (
	"cmp"
	"fmt"
	"math"

	"github.com/bradenaw/juniper/xmath"

	"verif/vkit"
)

type signed interface {
	~int | ~int8 | ~int16 | ~int32 | ~int64
}

// absCheck: Abs(v) is |v|, or panics exactly when |v| is not representable in T.
func absCheck[T signed](x *cx, tn string, v T, maxV T) {
	if x.failed {
		return
	}
	v64 := int64(v)
	var mag uint64
	if v64 >= 0 {
		mag = uint64(v64)
	} else {
		mag = uint64(-(v64 + 1)) + 1
	}
	representable := mag <= uint64(int64(maxV))
	in := fmt.Sprintf("%s(%d)", tn, v64)
	var got T
	p := x.try("xmath.Abs", func() { got = xmath.Abs(v) })
	x.eval("Abs|" + in)
	if !representable {
		if p == nil {
			x.fail("xmath.Abs-no-panic", fmt.Sprintf("Abs(%s) returned %d; documentation: panics if the absolute value is not representable", in, int64(got)), map[string]any{"input": in, "got": int64(got)})
		} else {
			x.observe("documented panics seen", "xmath.Abs of the minimum of "+tn)
		}
		return
	}
	if x.unexpectedPanic("xmath.Abs", p, in) {
		return
	}
	if got != T(mag) {
		x.wrong("xmath.Abs", in, int64(got), mag)
	}
}

func absExtremes[T signed](x *cx, tn string, minV, maxV T, rnd *vkit.Rand) {
	vals := []T{minV, minV + 1, minV + 2, minV / 2, minV/2 - 1, minV/2 + 1, -2, -1, 0, 1, 2, maxV / 2, maxV/2 + 1, maxV - 1, maxV}
	for _, v := range vals {
		absCheck(x, tn, v, maxV)
	}
	if rnd != nil {
		for i := 0; i < 200; i++ {
			u := rnd.Uint64() >> uint(rnd.Intn(64))
			v := T(u) // wraps to the width of T
			if rnd.Bool(0.5) {
				v = -v
			}
			absCheck(x, tn, v, maxV)
		}
	}
}

type myInt int
type myInt8 int8
type myInt32 int32
type myInt64 int64

func absAll(x *cx, rnd *vkit.Rand, exhaustive16 bool) {
	for v := math.MinInt8; v <= math.MaxInt8; v++ {
		absCheck(x, "int8", int8(v), int8(math.MaxInt8))
		absCheck(x, "named int8", myInt8(v), myInt8(math.MaxInt8))
	}
	if exhaustive16 {
		for v := math.MinInt16; v <= math.MaxInt16; v++ {
			absCheck(x, "int16", int16(v), int16(math.MaxInt16))
		}
	}
	absExtremes[int16](x, "int16", math.MinInt16, math.MaxInt16, rnd)
	absExtremes[int32](x, "int32", math.MinInt32, math.MaxInt32, rnd)
	absExtremes[int64](x, "int64", math.MinInt64, math.MaxInt64, rnd)
	absExtremes[int](x, "int", math.MinInt, math.MaxInt, rnd)
	absExtremes[myInt](x, "named int", math.MinInt, math.MaxInt, rnd)
	absExtremes[myInt32](x, "named int32", math.MinInt32, math.MaxInt32, rnd)
	absExtremes[myInt64](x, "named int64", math.MinInt64, math.MaxInt64, rnd)
}

// orderedCheck: Min, Max on every pair and Clamp on every triple with lo <= hi of vals.
func orderedCheck[T cmp.Ordered](x *cx, tn string, vals []T) {
	for _, a := range vals {
		for _, b := range vals {
			if x.failed {
				return
			}
			in := fmt.Sprintf("%s: %v, %v", tn, a, b)
			wantMin, wantMax := b, b
			if a < b {
				wantMin = a
			}
			if a > b {
				wantMax = a
			}
			var got T
			p := x.try("xmath.Min", func() { got = xmath.Min(a, b) })
			x.eval("Min|" + in)
			if !x.unexpectedPanic("xmath.Min", p, in) && got != wantMin {
				x.wrong("xmath.Min", in, got, wantMin)
			}
			p = x.try("xmath.Max", func() { got = xmath.Max(a, b) })
			x.eval("Max|" + in)
			if !x.unexpectedPanic("xmath.Max", p, in) && got != wantMax {
				x.wrong("xmath.Max", in, got, wantMax)
			}
		}
	}
	for _, lo := range vals {
		for _, hi := range vals {
			if hi < lo {
				continue // Clamp "to within min and max" presupposes min <= max
			}
			for _, v := range vals {
				if x.failed {
					return
				}
				want := v
				if v < lo {
					want = lo
				} else if v > hi {
					want = hi
				}
				in := fmt.Sprintf("%s: %v, %v, %v", tn, v, lo, hi)
				var got T
				p := x.try("xmath.Clamp", func() { got = xmath.Clamp(v, lo, hi) })
				x.eval("Clamp|" + in)
				if !x.unexpectedPanic("xmath.Clamp", p, in) && got != want {
					x.wrong("xmath.Clamp", in, got, want)
				}
				if v < lo {
					x.observe("clamp", "below")
				} else if v > hi {
					x.observe("clamp", "above")
				} else {
					x.observe("clamp", "inside")
				}
			}
		}
	}
}

func orderedAll(x *cx, rnd *vkit.Rand) {
	ri := func() int64 { return int64(rnd.Uint64() >> uint(rnd.Intn(64))) }
	orderedCheck(x, "int", []int{math.MinInt, math.MinInt + 1, -1, 0, 1, math.MaxInt - 1, math.MaxInt, int(ri()), -int(ri())})
	orderedCheck(x, "int8", []int8{math.MinInt8, math.MinInt8 + 1, -1, 0, 1, math.MaxInt8 - 1, math.MaxInt8, int8(ri())})
	orderedCheck(x, "int16", []int16{math.MinInt16, math.MinInt16 + 1, -1, 0, 1, math.MaxInt16 - 1, math.MaxInt16, int16(ri())})
	orderedCheck(x, "int32", []int32{math.MinInt32, math.MinInt32 + 1, -1, 0, 1, math.MaxInt32 - 1, math.MaxInt32, int32(ri())})
	orderedCheck(x, "int64", []int64{math.MinInt64, math.MinInt64 + 1, -1, 0, 1, math.MaxInt64 - 1, math.MaxInt64, ri(), -ri()})
	orderedCheck(x, "uint", []uint{0, 1, 2, math.MaxUint/2 + 1, math.MaxUint - 1, math.MaxUint, uint(ri())})
	orderedCheck(x, "uint8", []uint8{0, 1, 127, 128, 254, 255, uint8(ri())})
	orderedCheck(x, "uint16", []uint16{0, 1, 1 << 15, math.MaxUint16 - 1, math.MaxUint16, uint16(ri())})
	orderedCheck(x, "uint32", []uint32{0, 1, 1 << 31, math.MaxUint32 - 1, math.MaxUint32, uint32(ri())})
	orderedCheck(x, "uint64", []uint64{0, 1, 1 << 63, math.MaxUint64 - 1, math.MaxUint64, uint64(ri())})
	orderedCheck(x, "uintptr", []uintptr{0, 1, ^uintptr(0) - 1, ^uintptr(0), uintptr(ri())})
	orderedCheck(x, "float64", []float64{math.Inf(-1), -math.MaxFloat64, -1, -math.SmallestNonzeroFloat64, math.Copysign(0, -1), 0, math.SmallestNonzeroFloat64, 1, math.MaxFloat64, math.Inf(1), rnd.Float64()})
	orderedCheck(x, "float32", []float32{float32(math.Inf(-1)), -math.MaxFloat32, -1, 0, math.SmallestNonzeroFloat32, 1, math.MaxFloat32, float32(math.Inf(1)), float32(rnd.Float64())})
	orderedCheck(x, "string", []string{"", "\x00", "a", "a\x00", "ab", "b", "\xff", "é"})
	orderedCheck(x, "named int8", []myInt8{math.MinInt8, -1, 0, 1, math.MaxInt8})
}

// int8Exhaustive: Min/Max on all 65536 pairs of int8, Clamp on all triples of a 16-value grid that
// contains the extremes.
func int8Exhaustive(x *cx) {
	for a := math.MinInt8; a <= math.MaxInt8; a++ {
		for b := math.MinInt8; b <= math.MaxInt8; b++ {
			if x.failed {
				return
			}
			wantMin, wantMax := b, b
			if a < b {
				wantMin = a
			}
			if a > b {
				wantMax = a
			}
			var gmin, gmax int8
			p := x.try("xmath.Min", func() { gmin = xmath.Min(int8(a), int8(b)) })
			p2 := x.try("xmath.Max", func() { gmax = xmath.Max(int8(a), int8(b)) })
			x.evals += 2
			in := fmt.Sprintf("int8: %d, %d", a, b)
			if x.unexpectedPanic("xmath.Min", p, in) || x.unexpectedPanic("xmath.Max", p2, in) {
				return
			}
			if int(gmin) != wantMin {
				x.wrong("xmath.Min", in, gmin, wantMin)
			}
			if int(gmax) != wantMax {
				x.wrong("xmath.Max", in, gmax, wantMax)
			}
		}
	}
	x.dist = append(x.dist, "Min,Max|int8|all 65536 pairs")
}
