package main

import (
	"context"
	"errors"
	"fmt"
	"runtime"
	"sort"
	"strings"
	"time"

	"github.com/bradenaw/juniper/stream"

	"verif/vkit"
)

// ---------------------------------------------------------------------------------------------
// One scenario of the caller-goroutine part

type attemptRec struct {
	plan faultKind // -1: live ctx
	evs  []int
	err  error
	inj  error
}

type viol struct {
	sig  string
	what string
}

type seqOutcome struct {
	v         *viol
	got       []int
	want      []int
	attempts  []attemptRec
	terminal  string // "end", "fatal", "reducer"
	fired     bool   // the fatal fault fired
	transient int    // failed attempts that were followed by a retry
	buffered  bool   // at some injected fault the sources had handed out more items than were delivered
	expNoWait int    // ctx-expired / expiring attempts that succeeded from buffered data
}

func countItems(evs []int) int {
	n := 0
	for _, x := range evs {
		if x > 0 {
			n++
		}
	}
	return n
}

func errString(err error) string {
	if err == nil {
		return "nil"
	}
	return err.Error()
}

func (o *seqOutcome) attemptLog() []string {
	var out []string
	for i, a := range o.attempts {
		s := fmt.Sprintf("call%d", i)
		if a.plan >= 0 {
			s += "[" + a.plan.String() + "]"
		}
		if a.inj != nil {
			s += fmt.Sprintf(" (injected below: %v)", a.inj)
		}
		s += fmt.Sprintf(" -> %v err=%s", a.evs, errString(a.err))
		out = append(out, s)
	}
	return out
}

// truncatedInput is the part of the global input that the fatal fault leaves determined.
func truncatedInput(e *env, f *fault, parts [][]int) []int {
	if f.Kind == fkFatalSrc {
		return e.srcs[f.Target].trunc(f.Pos)
	}
	all := refConcat(parts)
	p := f.Pos
	if p > len(all) {
		p = len(all)
	}
	return all[:p]
}

func classifyDiff(got, want []int) string {
	gi, wi := itemsOnly(got), itemsOnly(want)
	if equalInts(gi, wi) {
		return "regrouped"
	}
	// got a subsequence of want -> lost
	j := 0
	for _, x := range wi {
		if j < len(gi) && gi[j] == x {
			j++
		}
	}
	if j == len(gi) {
		return "lost"
	}
	return "duplicated-or-wrong"
}

func itemsOnly(evs []int) []int {
	var out []int
	for _, x := range evs {
		if x > 0 {
			out = append(out, x)
		}
	}
	return out
}

func runSeqScenario(sp *subjectSpec, parts [][]int, fs []fault) (o seqOutcome) {
	e := newEnv(false, nil)
	var s stream.Stream[int]
	if pn := vkit.Try(func() { s = sp.build(e, parts) }); pn != nil {
		o.v = &viol{"panic", "panic while building the pipeline: " + pn.Msg}
		return
	}
	plan, fatal := e.apply(fs)
	if sp.term.reducer() {
		runSeqReducer(sp, e, s, parts, plan, fatal, &o)
		return
	}
	stp := sp.term.stepper(s)
	closed := false
	defer func() {
		if !closed {
			vkit.Try(stp.close)
		}
	}()
	// finish closes the pipeline and applies the per-source rules: whatever the faults, the library
	// must not call Next on a source it has closed, nor close a source twice (with real library
	// streams as inputs the latter panics).
	finish := func() {
		closed = true
		if pn := vkit.Try(stp.close); pn != nil && o.v == nil {
			o.v = &viol{"panic", fmt.Sprintf("Close of the pipeline panicked: %s (%s)", pn.Msg, pn.JuniperFrame())}
		}
		if o.v != nil {
			return
		}
		for _, si := range e.srcs {
			if si.misuse == nil {
				continue
			}
			if m := si.misuse(); m != "" {
				o.v = &viol{"source-misused", "after the failed call was retried: " + m}
				return
			}
		}
	}

	n := len(refConcat(parts))
	maxAttempts := 8*(n+4) + 4*len(fs) + 24
	bg := context.Background()
	for a := 0; ; a++ {
		if a >= maxAttempts {
			o.v = &viol{"no-termination", fmt.Sprintf("no End and no error after %d consumer calls", a)}
			return
		}
		ctx := bg
		var cancel context.CancelFunc
		pk := faultKind(-1)
		if k, ok := plan[a]; ok {
			pk = k
			if k == fkCtxDead {
				ctx = deadCtx
			} else {
				e.slow.Store(true)
				ctx, cancel = context.WithTimeout(bg, 20*time.Microsecond)
			}
		}
		e.inj = nil
		var evs []int
		var err error
		pn := vkit.Try(func() { evs, err = stp.step(ctx) })
		e.slow.Store(false)
		ctxErr := ctx.Err()
		if cancel != nil {
			cancel()
		}
		inj := e.inj
		o.attempts = append(o.attempts, attemptRec{plan: pk, evs: evs, err: err, inj: inj})
		if pn != nil {
			o.v = &viol{"panic", fmt.Sprintf("consumer call %d panicked: %s (%s)", a, pn.Msg, pn.JuniperFrame())}
			return
		}
		if inj != nil && e.handed.Load() > int64(countItems(o.got)+countItems(evs)) {
			o.buffered = true
		}
		switch {
		case err == nil:
			// Items are always judged by the final comparison. (A combinator that first hands out
			// what it holds and reports the failure on the following call is within the statement.)
		case err == stream.End && fatalReported(e, err):
			// a callback failed with the bare End value: this End is the report of E
		case err == stream.End:
			if e.fatalFired.Load() {
				o.v = &viol{"error-swallowed", fmt.Sprintf("consumer call %d returned End although %q had been returned to the combinator and was never reported", a, e.firstFatal())}
				return
			}
		case inj != nil:
			// A source / callback below failed during this call: a failing call must report exactly that.
			if !errors.Is(err, inj) {
				o.v = &viol{"wrong-error", fmt.Sprintf("consumer call %d returned error %q, the injected error was %q", a, err, inj)}
				return
			}
		case fatalReported(e, err):
			// the fatal error of an earlier call, reported now
		default:
			// Nothing below failed. A combinator may itself notice the expired context.
			if !(ctxErr != nil && errors.Is(err, ctxErr)) {
				o.v = &viol{"spurious-error", fmt.Sprintf("consumer call %d returned error %q although nothing failed", a, err)}
				return
			}
		}
		if pk >= 0 && (err == nil || err == stream.End) {
			o.expNoWait++
		}
		o.got = append(o.got, evs...)
		if err == stream.End && fatalReported(e, err) {
			o.terminal = "fatal"
			break
		}
		if err == stream.End {
			o.got = append(o.got, evEnd)
			o.terminal = "end"
			break
		}
		if err != nil {
			if fatalReported(e, err) {
				o.terminal = "fatal"
				break
			}
			o.transient++
		}
	}
	o.fired = e.fatalFired.Load()

	if o.terminal == "fatal" {
		// Everything delivered before E must be determined by the items before the fault.
		o.want = sp.term.refEvents(sp.refPipeline(truncatedInput(e, fatal, parts)))
		if !isPrefix(o.got, o.want) {
			o.v = &viol{"fatal-output-not-prefix", fmt.Sprintf("outputs %v delivered before the error are not a prefix of the fault-free output %v of the items before the fault", o.got, o.want)}
		}
		finish()
		return
	}
	// End: no fatal fault fired (a fired one is reported by the very call, checked above), so the
	// whole fault-free output is due, exactly once, in the same grouping.
	o.want = append(sp.term.refEvents(sp.refPipeline(refConcat(parts))), evEnd)
	if !equalInts(o.got, o.want) {
		o.v = &viol{"output-" + classifyDiff(o.got, o.want), fmt.Sprintf("total output over all calls %v differs from the fault-free output %v", o.got, o.want)}
	}
	finish()
	return
}

// fatalReported: the fatal fault has fired and err is that error.
func fatalReported(e *env, err error) bool {
	return e.fatalFired.Load() && errors.Is(err, e.firstFatal())
}

func runSeqReducer(sp *subjectSpec, e *env, s stream.Stream[int], parts [][]int, plan map[int]faultKind, fatal *fault, o *seqOutcome) {
	o.terminal = "reducer"
	bg := context.Background()
	ctx := bg
	var cancel context.CancelFunc
	pk := faultKind(-1)
	if k, ok := plan[0]; ok {
		pk = k
		if k == fkCtxDead {
			ctx = deadCtx
		} else {
			e.slow.Store(true)
			ctx, cancel = context.WithTimeout(bg, 20*time.Microsecond)
		}
	}
	var vals []int
	var err error
	pn := vkit.Try(func() { vals, err = sp.term.reduce(ctx, e, len(sp.stages), s) })
	e.slow.Store(false)
	ctxErr := ctx.Err()
	if cancel != nil {
		cancel()
	}
	inj := e.firstInj
	o.attempts = append(o.attempts, attemptRec{plan: pk, evs: vals, err: err, inj: inj})
	o.fired = e.fatalFired.Load()
	o.got = vals
	if pn != nil {
		o.v = &viol{"panic", fmt.Sprintf("reducer panicked: %s (%s)", pn.Msg, pn.JuniperFrame())}
		return
	}
	if inj != nil {
		if err == nil {
			o.v = &viol{"reducer-error-swallowed", fmt.Sprintf("reducer returned (%v, nil) although its stream failed with %q", vals, inj)}
		} else if !errors.Is(err, inj) {
			o.v = &viol{"reducer-wrong-error", fmt.Sprintf("reducer returned error %q, its stream failed with %q", err, inj)}
		}
		return
	}
	if err != nil && ctxErr != nil && errors.Is(err, ctxErr) {
		return
	}
	want, kind := sp.term.refReduceResult(sp.refPipeline(refConcat(parts)))
	o.want = want
	switch kind {
	case "empty":
		if !errors.Is(err, stream.ErrEmpty) {
			o.v = &viol{"reducer-result", fmt.Sprintf("One on an empty stream returned (%v, %s)", vals, errString(err))}
		}
	case "more":
		if !errors.Is(err, stream.ErrMoreThanOne) {
			o.v = &viol{"reducer-result", fmt.Sprintf("One on a stream of several items returned (%v, %s)", vals, errString(err))}
		}
	default:
		if err != nil {
			o.v = &viol{"reducer-spurious-error", fmt.Sprintf("reducer returned error %q although nothing failed", err)}
		} else if !equalInts(vals, want) {
			o.v = &viol{"reducer-result", fmt.Sprintf("reducer returned %v, fault-free result is %v", vals, want)}
		}
	}
}

// ---------------------------------------------------------------------------------------------
// Enumeration

// singleFaults lists every single fault of the subject on this input: every position of every kind.
func singleFaults(sp *subjectSpec, e *env, n int, attempts int) []fault {
	var out []fault
	for j, si := range e.srcs {
		for p := 0; p <= si.nItems; p++ {
			out = append(out, mkFault(fkFatalSrc, j, p))
		}
	}
	for _, k := range sp.cbStages() {
		for p := 0; p < n; p++ {
			out = append(out, mkFault(fkFatalCb, k, p))
		}
	}
	for j, si := range e.srcs {
		for c := 0; c <= si.nItems+1; c++ {
			out = append(out, mkFault(fkTransSrc, j, c))
		}
	}
	if sp.term.reducer() {
		attempts = 1
	}
	for a := 0; a < attempts; a++ {
		out = append(out, mkFault(fkCtxDead, 0, a))
	}
	for a := 0; a < attempts; a++ {
		out = append(out, mkFault(fkCtxExpiring, 0, a))
	}
	return out
}

// errValueFaults: the fatal faults with the non-sentinel error values (context.Canceled, an error
// wrapping it, context.DeadlineExceeded, an error wrapping stream.End), at the first, a middle and the
// at-end position of every source and every callback stage.
func errValueFaults(sp *subjectSpec, e *env, n int) []fault {
	var out []fault
	for ek := 1; ek < ekBareEnd; ek++ {
		for j, si := range e.srcs {
			for _, p := range fewPositions(si.nItems, true) {
				out = append(out, mkFatal(fkFatalSrc, j, p, ek))
			}
		}
		for _, k := range sp.cbStages() {
			for _, p := range fewPositions(n, false) {
				out = append(out, mkFatal(fkFatalCb, k, p, ek))
			}
		}
	}
	// A callback returning the bare stream.End value, where the owner of the callback is consumed
	// directly, item by item, or is Reduce itself (see ekBareEnd).
	if sp.unique {
		switch {
		case sp.term.kind == "reduce":
			for p := 0; p < n; p++ {
				out = append(out, mkFatal(fkFatalCb, len(sp.stages), p, ekBareEnd))
			}
		case sp.term.kind == "ints" && len(sp.stages) > 0 && sp.stages[len(sp.stages)-1].hasCb():
			for p := 0; p < n; p++ {
				out = append(out, mkFatal(fkFatalCb, len(sp.stages)-1, p, ekBareEnd))
			}
		}
	}
	return out
}

func posClass(f fault, n int, e *env) string {
	limit := n
	switch f.Kind {
	case fkFatalSrc, fkTransSrc:
		limit = e.srcs[f.Target].nItems
	case fkCtxDead, fkCtxExpiring:
		return ctxPosClass(f.Pos)
	}
	switch {
	case f.Pos >= limit:
		return "at-end"
	case f.Pos == 0:
		return "first"
	case f.Pos == limit-1:
		return "last"
	}
	return "middle"
}

func ctxPosClass(a int) string {
	if a == 0 {
		return "first"
	}
	return "later"
}

type seqCaseCfg struct {
	sub     int
	n       int
	pattern int
	lens    []int // boundary cases: the length of every input
}

func drawClasses(rnd *vkit.Rand, n, pattern int) []int {
	cl := make([]int, n)
	for i := range cl {
		switch pattern {
		case 0:
			cl[i] = 1
		case 1:
			cl[i] = rnd.Intn(3)
		case 2:
			cl[i] = rnd.Intn(2)
		case 3:
			cl[i] = []int{1, 1, 0, 2, 1}[rnd.Intn(5)]
		default:
			cl[i] = (i / 2) % 3
		}
	}
	return cl
}

func sequential(r *vkit.Report) {
	subs := seqSubjects()
	maxLen := r.Scale(6, 8)
	patterns := r.Scale(4, 6)
	pairMaxLen := r.Scale(6, 8)
	triples := r.Scale(60, 600)
	var cfgs []seqCaseCfg
	for si, sp := range subs {
		if sp.boundary {
			// every vector of input lengths in {0,1,2}^nparts
			total := 1
			for i := 0; i < sp.nparts; i++ {
				total *= 3
			}
			for v := 0; v < total; v++ {
				lens := make([]int, sp.nparts)
				n := 0
				for i, x := 0, v; i < sp.nparts; i, x = i+1, x/3 {
					lens[i] = x % 3
					n += lens[i]
				}
				cfgs = append(cfgs, seqCaseCfg{sub: si, n: n, pattern: 1, lens: lens})
			}
		}
		if sp.boundaryOnly {
			continue
		}
		for n := 0; n <= maxLen; n++ {
			for p := 0; p < patterns; p++ {
				if n == 0 && p > 0 {
					continue
				}
				cfgs = append(cfgs, seqCaseCfg{sub: si, n: n, pattern: p})
			}
		}
	}
	r.Cases("seq", len(cfgs), runtime.GOMAXPROCS(0), func(c *vkit.Case) {
		cfg := cfgs[c.Index]
		sp := subs[cfg.sub]
		rnd := c.Rand
		in := makeInput(cfg.n, drawClasses(rnd, cfg.n, cfg.pattern), sp.unique)
		var cuts []int
		for i := 1; i < sp.nparts; i++ {
			if cfg.lens != nil {
				prev := 0
				if len(cuts) > 0 {
					prev = cuts[len(cuts)-1]
				}
				cuts = append(cuts, prev+cfg.lens[i-1])
			} else {
				cuts = append(cuts, rnd.Intn(cfg.n+1))
			}
		}
		sort.Ints(cuts)
		parts := cutParts(in, cuts)
		if cfg.lens != nil {
			r.Count("scenarios by subject", "(boundary cases: input lengths from {0,1,2}) "+sp.name(), 0)
		}
		name := sp.name()

		failed := false
		run := func(fs []fault) *seqOutcome {
			o := runSeqScenario(sp, parts, fs)
			r.Eval(1)
			if o.v != nil {
				failed = true
				c.Violation(name+":"+o.v.sig,
					fmt.Sprintf("%s input=%v faults=%s: %s", name, parts, faultsString(fs), o.v.what),
					map[string]any{"subject": name, "parts": parts, "faults": fs, "calls": o.attemptLog(), "got": o.got, "want": o.want})
			}
			return &o
		}

		// Fault-free run: the reference itself, and the number of consumer calls.
		base := run(nil)
		if failed {
			return
		}
		r.Count("scenarios by fault kinds", "none", 1)
		// an env just to enumerate the sources
		e := newEnv(false, nil)
		vkit.Try(func() { sp.build(e, parts).Close() })
		singles := singleFaults(sp, e, cfg.n, len(base.attempts))

		record := func(fs []fault, o *seqOutcome) {
			kinds := make([]string, 0, len(fs))
			for _, f := range fs {
				kinds = append(kinds, f.KindS)
			}
			sort.Strings(kinds)
			kk := strings.Join(kinds, "+")
			r.Count("scenarios by fault kinds", kk, 1)
			r.Count("scenarios by subject", name, 1)
			if o.fired {
				for _, f := range fs {
					if f.Kind.fatal() {
						r.Count("fatal faults that fired, by error value", fatalErrNames[f.Err], 1)
					}
				}
			}
			nontrivial := false
			switch o.terminal {
			case "fatal":
				r.Count("outcomes", "fatal fault fired: prefix then E", 1)
				nontrivial = true
			case "end":
				if o.transient > 0 {
					r.Count("outcomes", "failed calls retried, full output then End", 1)
					nontrivial = true
				} else {
					r.Count("outcomes", "no planned fault was reached (full output then End)", 1)
				}
			case "reducer":
				if o.attempts[0].inj != nil {
					r.Count("outcomes", "reducer returned the injected error", 1)
					nontrivial = true
				} else {
					r.Count("outcomes", "reducer finished before any planned fault", 1)
				}
			}
			r.Count("observations", "failed consumer calls followed by a retry", o.transient)
			r.Count("observations", "calls with an expired context that were served from buffered state", o.expNoWait)
			if nontrivial {
				for _, f := range fs {
					r.Distinct(fmt.Sprintf("%s|%s|%s|buffered=%v", name, f.kindKey(), posClass(f, cfg.n, e), o.buffered))
				}
				if o.buffered {
					r.Count("observations", "faults that hit while items were held inside the pipeline", 1)
				}
			}
			if nontrivial && len(fs) >= 2 && o.transient >= 1 && cfg.n >= 4 && countItems(o.got) >= 2 && r.WantSample() {
				r.Sample(map[string]any{"subject": name, "parts": parts, "faults": faultsString(fs), "calls": o.attemptLog(), "total_output": o.got})
			}
		}

		for _, f := range singles {
			fs := []fault{f}
			o := run(fs)
			if failed {
				return
			}
			record(fs, o)
		}
		// The error VALUE dimension: the source / callback fails on its own account with
		// context.Canceled, an error wrapping it, context.DeadlineExceeded, an error wrapping End.
		extras := errValueFaults(sp, e, cfg.n)
		for _, f := range extras {
			fs := []fault{f}
			o := run(fs)
			if failed {
				return
			}
			record(fs, o)
		}
		if sp.term.reducer() {
			return // a reducer ends at its first failure: sequences of faults add nothing
		}
		// ... each also after a failed-and-retried first call (expired context; transient source error)
		for _, f := range extras {
			for _, g := range []fault{mkFault(fkCtxDead, 0, 0), mkFault(fkTransSrc, 0, 0)} {
				if g.Kind == fkTransSrc && len(e.srcs) == 0 {
					continue
				}
				fs := []fault{f, g}
				o := run(fs)
				if failed {
					return
				}
				record(fs, o)
			}
		}
		vary := func(f fault) fault {
			if f.Kind.fatal() && rnd.Intn(4) == 0 {
				return mkFatal(f.Kind, f.Target, f.Pos, 1+rnd.Intn(ekBareEnd-1))
			}
			return f
		}
		okPair := func(a, b fault) bool {
			if a.Kind.fatal() && b.Kind.fatal() {
				return false
			}
			if a.Kind == b.Kind && a.Target == b.Target && a.Pos == b.Pos {
				return false
			}
			// two context faults on the same call are one fault
			ctxA := a.Kind == fkCtxDead || a.Kind == fkCtxExpiring
			ctxB := b.Kind == fkCtxDead || b.Kind == fkCtxExpiring
			if ctxA && ctxB && a.Pos == b.Pos {
				return false
			}
			return true
		}
		if cfg.n <= pairMaxLen {
			for i := 0; i < len(singles); i++ {
				for j := i + 1; j < len(singles); j++ {
					if !okPair(singles[i], singles[j]) {
						continue
					}
					fs := []fault{singles[i], singles[j]}
					o := run(fs)
					if failed {
						return
					}
					record(fs, o)
				}
			}
		}
		for t := 0; t < triples && len(singles) >= 3; t++ {
			a, b, d := vary(singles[rnd.Intn(len(singles))]), vary(singles[rnd.Intn(len(singles))]), vary(singles[rnd.Intn(len(singles))])
			if !okPair(a, b) || !okPair(a, d) || !okPair(b, d) {
				continue
			}
			fs := []fault{a, b, d}
			o := run(fs)
			if failed {
				return
			}
			record(fs, o)
		}
	})
	callbackRetry(r)
	r.SetExhaustive(false)
	r.SetExtra("enumeration", "single faults: every position of every kind for every subject and input (complete); pairs: complete for inputs up to the pair bound; triples: sampled from the seed")
	r.Count("subjects", "caller-goroutine subjects", len(subs))
	r.Floor("seq: scenarios in which the fatal fault fired", r.Table("outcomes", "fatal fault fired: prefix then E"), 1000)
	r.Floor("seq: scenarios with failed calls that were retried to the end", r.Table("outcomes", "failed calls retried, full output then End"), 1000)
	r.Floor("seq: reducers that met an injected error", r.Table("outcomes", "reducer returned the injected error"), 100)
	r.Floor("seq: faults that hit while items were held inside the pipeline", r.Table("observations", "faults that hit while items were held inside the pipeline"), 100)
}
