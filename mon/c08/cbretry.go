package main

// Retry after a user callback failed transiently (caller-goroutine part).
//
// The callback fails once - because the per-call context it is given has expired, or with a
// transient error of its own - on an item the source has already handed out in that same call (the
// source here does not look at the context). Then the consumer calls Next again with a live context.
//
// JUDGED (violation "callback-retry-lost-item"): stream.While. On the clean tree While holds the
// item across a failed predicate call; a retry must ask the predicate about the SAME item again and
// continue the sequence: the whole output over all calls must equal the fault-free reference.
// RECORDED, NOT JUDGED: stream.Filter and stream.Map (they drop the item the callback failed on),
// parallel.MapStream (the stream is dead after the first callback failure) and stream.Reduce (it
// returns): they have no held-item state on the clean tree; the table documents the asymmetry.
//
// Values: non-zero everywhere, and additionally the zero value at every position (an item that is
// lost and replaced by the zero value must be distinguishable from a genuine zero, so whole output
// sequences are compared with the reference).

import (
	"context"
	"errors"
	"fmt"
	"time"

	"github.com/bradenaw/juniper/iterator"
	"github.com/bradenaw/juniper/parallel"
	"github.com/bradenaw/juniper/stream"

	"verif/vkit"
)

var errCbTransient = errors.New("verif: transient callback error")

type cbRetrySubject struct {
	name   string
	judged bool
	// build wires the combinator under test over src with the fallible callback cb (which reports
	// the predicate's verdict for While/Filter and is the conversion's gate for Map).
	build func(src stream.Stream[int], cb func(context.Context, int) (bool, error)) stepper
	ref   func(in []int, pred func(int) bool) []int
}

func cbRetrySubjects() []cbRetrySubject {
	return []cbRetrySubject{
		{name: "While", judged: true,
			build: func(src stream.Stream[int], cb func(context.Context, int) (bool, error)) stepper {
				return &intStepper{stream.While(src, cb)}
			},
			ref: func(in []int, pred func(int) bool) []int { return evItems(refWhile(in, pred)) }},
		{name: "Chunk(While)", judged: true,
			build: func(src stream.Stream[int], cb func(context.Context, int) (bool, error)) stepper {
				return &rawSliceStepper{stream.Chunk(stream.While(src, cb), 2)}
			},
			ref: func(in []int, pred func(int) bool) []int { return evGroups(refChunk(refWhile(in, pred), 2)) }},
		{name: "While(FlattenSlices(Chunk))", judged: true,
			build: func(src stream.Stream[int], cb func(context.Context, int) (bool, error)) stepper {
				return &intStepper{stream.While(stream.FlattenSlices(stream.Chunk(src, 2)), cb)}
			},
			ref: func(in []int, pred func(int) bool) []int { return evItems(refWhile(in, pred)) }},
		{name: "Map(While)", judged: true,
			build: func(src stream.Stream[int], cb func(context.Context, int) (bool, error)) stepper {
				return &intStepper{stream.Map(stream.While(src, cb), func(ctx context.Context, x int) (int, error) { return mapFn(x), nil })}
			},
			ref: func(in []int, pred func(int) bool) []int { return evItems(refMap(refWhile(in, pred), mapFn)) }},
		{name: "Filter", judged: false,
			build: func(src stream.Stream[int], cb func(context.Context, int) (bool, error)) stepper {
				return &intStepper{stream.Filter(src, cb)}
			},
			ref: func(in []int, pred func(int) bool) []int { return evItems(refFilter(in, pred)) }},
		{name: "Map", judged: false,
			build: func(src stream.Stream[int], cb func(context.Context, int) (bool, error)) stepper {
				return &intStepper{stream.Map(src, func(ctx context.Context, x int) (int, error) {
					_, err := cb(ctx, x)
					return mapFn(x), err
				})}
			},
			ref: func(in []int, pred func(int) bool) []int { return evItems(refMap(in, mapFn)) }},
	}
}

// rawSliceStepper is sliceStepper for streams that may legitimately carry the zero value.
type rawSliceStepper struct{ s stream.Stream[[]int] }

func (s *rawSliceStepper) step(ctx context.Context) ([]int, error) {
	xs, err := s.s.Next(ctx)
	if err != nil {
		return nil, err
	}
	out := append([]int{}, xs...)
	if len(xs) == 0 {
		out = append(out, evBad)
	}
	return append(out, evSep), nil
}
func (s *rawSliceStepper) close() { s.s.Close() }

type cbRetryScenario struct {
	in       []int
	predName string
	pred     func(int) bool
	failOrd  map[int]bool // predicate invocation ordinals that fail with errCbTransient (live context)
	deadCall map[int]bool // consumer call ordinals made with an expired context (the callback honours it)
}

type cbRetryOutcome struct {
	v        *viol
	got      []int
	want     []int
	calls    []string
	retried  int
	sameItem int // retries in which the predicate was asked about the same item again
}

func runCbRetry(sub cbRetrySubject, sc cbRetryScenario) (o cbRetryOutcome) {
	src := vkit.NewProbeStream("src", copyInts(sc.in)) // HonourCtx off: only the callback looks at the context
	ord := 0
	var injected error
	havePending, pending := false, 0
	cb := func(ctx context.Context, x int) (bool, error) {
		k := ord
		ord++
		if havePending {
			havePending = false
			if x == pending {
				o.sameItem++
			} else if o.v == nil && sub.judged {
				o.v = &viol{"callback-retry-lost-item", fmt.Sprintf("after the predicate failed on item %d the retry asked it about %d instead", pending, x)}
			}
		}
		if err := ctx.Err(); err != nil {
			injected = err
			havePending, pending = true, x
			return false, err
		}
		if sc.failOrd[k] {
			injected = errCbTransient
			havePending, pending = true, x
			return false, errCbTransient
		}
		return sc.pred(x), nil
	}
	stp := sub.build(src, cb)
	defer func() { vkit.Try(stp.close) }()
	o.want = append(sub.ref(sc.in, sc.pred), evEnd)
	for a := 0; a < 6*len(sc.in)+20; a++ {
		ctx := context.Background()
		if sc.deadCall[a] {
			ctx = deadCtx
		}
		injected = nil
		var evs []int
		var err error
		pn := vkit.Try(func() { evs, err = stp.step(ctx) })
		o.calls = append(o.calls, fmt.Sprintf("call%d dead=%v -> %v err=%s", a, sc.deadCall[a], evs, errString(err)))
		if pn != nil {
			o.v = &viol{"panic", fmt.Sprintf("consumer call %d panicked: %s", a, pn.Msg)}
			return
		}
		if o.v != nil {
			return
		}
		o.got = append(o.got, evs...)
		if err == stream.End {
			o.got = append(o.got, evEnd)
			break
		}
		if err != nil {
			if injected == nil || !errors.Is(err, injected) {
				o.v = &viol{"wrong-error", fmt.Sprintf("consumer call %d returned %q, the callback had returned %s", a, err, errString(injected))}
				return
			}
			o.retried++
		}
	}
	if !equalInts(o.got, o.want) {
		o.v = &viol{"callback-retry-lost-item", fmt.Sprintf("after the callback failed once and the call was retried, the total output %v differs from the fault-free output %v", o.got, o.want)}
	}
	return
}

func callbackRetry(r *vkit.Report) {
	subs := cbRetrySubjects()
	maxLen := r.Scale(5, 7)
	preds := []struct {
		name string
		f    func(int) bool
	}{
		{"class!=2 (accepts the zero value)", func(x int) bool { return x%10 != 2 }},
		{"x!=0 && class!=2 (stops at the zero value)", func(x int) bool { return x != 0 && x%10 != 2 }},
	}
	type cfg struct {
		sub, n, shape, zeroAt, pred int
	}
	var cfgs []cfg
	for si := range subs {
		for n := 1; n <= maxLen; n++ {
			for shape := 0; shape < 3; shape++ {
				for z := -1; z < n; z++ {
					for p := range preds {
						cfgs = append(cfgs, cfg{si, n, shape, z, p})
					}
				}
			}
		}
	}
	const table = "callback fails once, the call is retried (While: judged; Filter, Map: recorded only)"
	r.Cases("cbretry", len(cfgs), 4, func(c *vkit.Case) {
		cf := cfgs[c.Index]
		sub := subs[cf.sub]
		in := make([]int, cf.n)
		for i := range in {
			cls := 1
			switch cf.shape {
			case 1: // the predicate stops at the last item
				if i == cf.n-1 {
					cls = 2
				}
			case 2: // ... in the middle
				if i == cf.n/2 {
					cls = 2
				}
			}
			in[i] = 10*(i+1) + cls
		}
		if cf.zeroAt >= 0 {
			in[cf.zeroAt] = 0
		}
		pred := preds[cf.pred]
		run := func(sc cbRetryScenario, what string) bool {
			sc.in, sc.predName, sc.pred = in, pred.name, pred.f
			o := runCbRetry(sub, sc)
			if !sub.judged {
				switch {
				case o.retried == 0:
				case o.v == nil:
					r.Count(table, sub.name+": total output unaffected (the dropped item would not have been delivered anyway)", 1)
				default:
					r.Count(table, sub.name+": the item the callback failed on was lost", 1)
				}
				return true
			}
			r.Eval(1)
			if o.v != nil {
				c.Violation(sub.name+":"+o.v.sig,
					fmt.Sprintf("%s input=%v predicate=%q %s: %s", sub.name, in, pred.name, what, o.v.what),
					map[string]any{"subject": sub.name, "input": in, "predicate": pred.name, "fault": what, "calls": o.calls, "got": o.got, "want": o.want})
				return false
			}
			if o.retried > 0 {
				r.Count(table, sub.name+": the item was kept", 1)
				r.Count("observations", "While: retries that re-asked the predicate about the same item", o.sameItem)
				zero := "no zero value"
				if cf.zeroAt >= 0 {
					zero = "zero value in the input"
				}
				r.Distinct(fmt.Sprintf("%s|callback-transient|%s|%s|shape%d", sub.name, what[:3], zero, cf.shape))
				r.Count("scenarios by fault kinds", "callback-transient", 1)
			}
			return true
		}
		// every predicate invocation fails once; twice in a row; two separate ones
		for k := 0; k <= cf.n; k++ {
			if !run(cbRetryScenario{failOrd: map[int]bool{k: true}}, fmt.Sprintf("ordinal: predicate invocation %d fails", k)) {
				return
			}
			if !run(cbRetryScenario{failOrd: map[int]bool{k: true, k + 1: true}}, fmt.Sprintf("ordinal: predicate invocations %d and %d fail", k, k+1)) {
				return
			}
			for k2 := k + 2; k2 <= cf.n+1; k2++ {
				if !run(cbRetryScenario{failOrd: map[int]bool{k: true, k2: true}}, fmt.Sprintf("ordinal: predicate invocations %d and %d fail", k, k2)) {
					return
				}
			}
		}
		// every consumer call made with an expired context that the callback honours
		for a := 0; a <= cf.n+1; a++ {
			if !run(cbRetryScenario{deadCall: map[int]bool{a: true}}, fmt.Sprintf("context: consumer call %d has an expired context", a)) {
				return
			}
			if !run(cbRetryScenario{deadCall: map[int]bool{a: true, a + 1: true}}, fmt.Sprintf("context: consumer calls %d and %d have an expired context", a, a+1)) {
				return
			}
			if !run(cbRetryScenario{deadCall: map[int]bool{a: true}, failOrd: map[int]bool{a + 2: true}}, fmt.Sprintf("context: consumer call %d expired, predicate invocation %d fails", a, a+2)) {
				return
			}
		}
	})
	r.Floor("cbretry: While scenarios with a failed and retried predicate call", r.Table(table, "While: the item was kept"), 500)

	// No retry is possible for these two; recorded for completeness.
	func() {
		failed := false
		s := parallel.MapStream(context.Background(), stream.FromIterator[int](iterator.Slice([]int{11, 21, 31})), 1, 0,
			func(ctx context.Context, x int) (int, error) {
				if x == 21 && !failed {
					failed = true
					return 0, errCbTransient
				}
				return x, nil
			})
		done := make(chan string, 1)
		go func() {
			var errs []string
			for i := 0; i < 6; i++ {
				if _, err := s.Next(context.Background()); err != nil {
					errs = append(errs, errString(err))
				}
			}
			s.Close()
			if len(errs) >= 2 && errs[0] == errs[len(errs)-1] {
				done <- "MapStream: every Next after the callback failure returns that error again (the stream is dead, no retry possible)"
			} else {
				done <- fmt.Sprintf("MapStream: errors seen %v", errs)
			}
		}()
		select {
		case m := <-done:
			r.Count(table, m, 1)
		case <-time.After(5 * time.Second):
			r.Count(table, "MapStream: no answer within 5 s (not judged)", 1)
		}
		_, err := stream.Reduce(context.Background(), stream.FromIterator[int](iterator.Slice([]int{11, 21})), 0, func(acc, x int) (int, error) { return acc, errCbTransient })
		if errors.Is(err, errCbTransient) {
			r.Count(table, "Reduce: returns the callback's error (it ends; no retry possible)", 1)
		}
	}()
}
