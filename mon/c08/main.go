// C08 — stream failures surface intact and never lose or duplicate items; transient Next failures
// cost nothing.
//
// Oracle: fault enumeration against fault-free reference functions on plain slices (ref.go).
//
//   - FATAL fault (a source returns E once p items were handed out, or a user callback returns E when
//     invoked on item p): everything delivered before the error must be a prefix of the reference
//     output of input[:p] (Batch: any cut of that prefix into non-empty batches; Merge: an
//     interleaving), then the error must satisfy errors.Is(err, E) — not End, not another error, not
//     silence (vkit.Await); reducers return E. Calls made after the error was first reported are not
//     judged.
//   - TRANSIENT fault (a per-call context that is already expired or expires while the source keeps
//     the caller waiting; for caller-goroutine combinators also a source that fails one Next with
//     vkit.ErrTransient; the source never consumes on a failed call) followed by a retry with a live
//     context: the concatenated output over all calls must equal the reference output exactly and
//     every failed call must have returned the injected error. Callbacks never fail here.
//
// Variant "seq": the combinators that run in the caller's goroutine (seq.go, subject.go).
// Variant word "conc" (built with -race): Batch/BatchFunc, Merge, Pipe, parallel.MapStream and
// pipelines over them, each configuration repeated under seeded perturbation (conc.go).
package main

import (
	"verif/vkit"
)

func main() {
	vkit.Main("C08", "fault_enumeration", func(r *vkit.Report) {
		r.SetRule("case = one fault scenario: (operation or pipeline, input, sequence of 1-3 faults; goroutine-backed: x repetition under a fresh perturbation table). " +
			"evaluations = scenarios executed and judged. non-trivial = a planned fault was actually reached (the fatal fault fired and E was due, " +
			"or at least one consumer call failed and was retried, or a reducer met the injected error); " +
			"distinct_nontrivial = distinct (operation, fault kind [fatal kinds qualified by the error VALUE when it is not the sentinel: context.Canceled, an error wrapping it, context.DeadlineExceeded, an error wrapping stream.End], position class {first, middle, last, at-end; for per-call contexts first/later}, " +
			"buffered-state-non-empty?) tuples over the faults of non-trivial scenarios, where buffered-state-non-empty means: when the fault hit, " +
			"the sources had handed out more items than the consumer had received (caller-goroutine part; the goroutine-backed part uses the same test at the first failed consumer call).")
		r.Assume("a source that fails a Next call (dead context, transient error) has consumed nothing (vkit.ProbeStream honours ctx before consuming)")
		r.Assume("in the fault enumeration user callbacks never fail in transient scenarios (by the statement a callback failure is the fatal kind); the separate callback-retry group judges stream.While only, which on the clean tree holds its item across a failed predicate call: a retry must ask about the same item and continue the sequence; Filter, Map (they drop the item), MapStream and Reduce (no retry possible) are recorded, not judged")
		r.Assume("stream.Runs is consumed as documented: every inner stream is drained to its End before the outer stream is asked again; a failed call is retried on the same stream")
		r.Assume("a second consumer style of stream.Runs is judged because the library implements it: take the first j items (j in 0..2) of each run, never close the inner stream, and advance the outer stream, which skips the rest of the run itself; a failed call is retried on the same stream")
		r.Assume("same/eq arguments are equivalence relations")
		r.Assume("a source signals the normal end by returning stream.End itself; an error that merely wraps stream.End is a failure and must be reported as such")
		if r.VariantHas("conc") {
			concurrent(r)
			return
		}
		sequential(r)
	})
}
