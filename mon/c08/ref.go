package main

// Fault-free reference functions on plain slices, written from the doc comments of
// /repo/stream/stream.go (not from the implementation). They use no juniper code.

import "errors"

// Event encoding of what a consumer is handed. Items are positive ints; structure is negative.
const (
	evEnd    = -1  // the stream reported End
	evSep    = -2  // end of one chunk / batch
	evNewRun = -3  // Runs: the outer stream yielded an inner stream
	evEndRun = -4  // Runs: the inner stream reported End
	evBad    = -99 // consumer-side contract break (Peek/Next disagree, empty batch); never in a reference
)

// The predicates / conversions the harness hands to the library (and to the references).
func classOf(x int) int    { return x % 10 }
func keepFn(x int) bool    { return classOf(x) != 0 }          // Filter
func whileFn(x int) bool   { return classOf(x) != 2 }          // While
func sameFn(a, b int) bool { return classOf(a) == classOf(b) } // CompactFunc / Runs
func mapFn(x int) int      { return x + 1000 }                 // Map / MapStream (keeps class and origin)

// originOf recovers the input index of a "unique mode" value (10*(i+1)+class, +1000 per Map).
func originOf(x int) int { return (x%1000)/10 - 1 }

// "Chunk returns a stream of non-overlapping chunks from s of size chunkSize. The last chunk will
// be smaller than chunkSize if the stream does not contain an even multiple."
func refChunk(in []int, c int) [][]int {
	var out [][]int
	for i := 0; i < len(in); i += c {
		j := i + c
		if j > len(in) {
			j = len(in)
		}
		out = append(out, append([]int(nil), in[i:j]...))
	}
	return out
}

// "Compact elides adjacent duplicates from s." (eq is an equivalence relation)
func refCompact(in []int, eq func(a, b int) bool) []int {
	var out []int
	for i, x := range in {
		if i == 0 || !eq(in[i-1], x) {
			out = append(out, x)
		}
	}
	return out
}

// "Filter returns a Stream that yields only the items from s for which keep returns true."
func refFilter(in []int, keep func(int) bool) []int {
	var out []int
	for _, x := range in {
		if keep(x) {
			out = append(out, x)
		}
	}
	return out
}

// "First returns a Stream that yields the first n items from s."
func refFirst(in []int, n int) []int {
	if n < 0 {
		n = 0
	}
	if n > len(in) {
		n = len(in)
	}
	return append([]int(nil), in[:n]...)
}

// "Flatten returns a stream that yields all items from all streams yielded by s." Also
// FlattenSlices and Join ("all elements from streams[0], then all elements from streams[1], ...").
func refConcat(parts [][]int) []int {
	var out []int
	for _, p := range parts {
		out = append(out, p...)
	}
	return out
}

// "Map transforms the values of s using the conversion f."
func refMap(in []int, f func(int) int) []int {
	out := make([]int, 0, len(in))
	for _, x := range in {
		out = append(out, f(x))
	}
	return out
}

// "The inner streams yield contiguous elements from s such that same(a, b) returns true for any a
// and b in the run."
func refRuns(in []int, same func(a, b int) bool) [][]int {
	var out [][]int
	for i, x := range in {
		if i == 0 || !same(in[i-1], x) {
			out = append(out, nil)
		}
		out[len(out)-1] = append(out[len(out)-1], x)
	}
	return out
}

// "While returns a Stream that terminates before the first item from s for which f returns false."
func refWhile(in []int, f func(int) bool) []int {
	var out []int
	for _, x := range in {
		if !f(x) {
			break
		}
		out = append(out, x)
	}
	return out
}

// "Last consumes s and returns the last n items. If s yields fewer than n items, Last returns all
// of them."
func refLast(in []int, n int) []int {
	if n > len(in) {
		n = len(in)
	}
	return append([]int(nil), in[len(in)-n:]...)
}

var (
	errRefEmpty       = errors.New("ref: empty")
	errRefMoreThanOne = errors.New("ref: more than one")
)

// "One returns the only item that s yields. Returns an error if encountered, or if s yields zero
// or more than one item."
func refOne(in []int) (int, error) {
	switch len(in) {
	case 0:
		return 0, errRefEmpty
	case 1:
		return in[0], nil
	}
	return 0, errRefMoreThanOne
}

// "Reduce reduces s to a single value using the reduction function f." (order-sensitive f)
func reduceFn(acc, x int) int { return acc*31 + x }
func refReduce(in []int, initial int) int {
	acc := initial
	for _, x := range in {
		acc = reduceFn(acc, x)
	}
	return acc
}

// BatchFunc with the harness's second `full` predicate: full when the newest item has class 2 or
// the batch holds three items; with a maxWait that never elapses the batches are the greedy cut.
func fullFn(b []int) bool { return len(b) >= 3 || classOf(b[len(b)-1]) == 2 }
func refBatchFunc(in []int, full func([]int) bool) [][]int {
	var out [][]int
	var cur []int
	for _, x := range in {
		cur = append(cur, x)
		if full(cur) {
			out = append(out, cur)
			cur = nil
		}
	}
	if len(cur) > 0 {
		out = append(out, cur)
	}
	return out
}

// Event renderings.
func evItems(in []int) []int { return append([]int(nil), in...) }
func evGroups(gs [][]int) []int {
	var out []int
	for _, g := range gs {
		out = append(out, g...)
		out = append(out, evSep)
	}
	return out
}
func evRuns(rs [][]int) []int {
	var out []int
	for _, r := range rs {
		out = append(out, evNewRun)
		out = append(out, r...)
		out = append(out, evEndRun)
	}
	return out
}

// evRunHeads: what a consumer is handed that takes only the first j items of each run and then
// moves on (the end of a run is seen only when the run has fewer than j items).
func evRunHeads(rs [][]int, j int) []int {
	var out []int
	for _, r := range rs {
		out = append(out, evNewRun)
		if len(r) < j {
			out = append(out, r...)
			out = append(out, evEndRun)
		} else {
			out = append(out, r[:j]...)
		}
	}
	return out
}

func isPrefix(a, b []int) bool {
	if len(a) > len(b) {
		return false
	}
	for i := range a {
		if a[i] != b[i] {
			return false
		}
	}
	return true
}

func equalInts(a, b []int) bool { return len(a) == len(b) && isPrefix(a, b) }
