package main

import (
	"context"
	"fmt"
	"strings"

	"github.com/bradenaw/juniper/iterator"
	"github.com/bradenaw/juniper/stream"

	"verif/vkit"
)

// ---------------------------------------------------------------------------------------------
// Source layouts of the caller-goroutine part

type layout int

const (
	laySingle        layout = iota // one probe stream
	layJoin                        // stream.Join of k probe streams
	layFlatten                     // stream.Flatten of a probe stream of probe streams
	layFlattenSlices               // stream.FlattenSlices of a probe stream of slices
	layFromIter                    // stream.FromIterator(iterator.Slice(..)): cannot fail by itself
	// stream.Join whose inputs are a mix of probe streams (P), already filled and closed stream.Pipe
	// receivers (p) and stream.Merge of one fault-free stream (m): real library streams whose Close
	// is not idempotent, so closing an input twice panics.
	layJoinLib
)

var layoutNames = [...]string{"", "Join:", "Flatten:", "FlattenSlices:", "FromIterator:", "Join"}

func copyInts(a []int) []int { return append([]int(nil), a...) }

// buildSource builds the source stream for the layout over parts and registers its probes in e.
func buildSource(e *env, lay layout, parts [][]int, kinds string) stream.Stream[int] {
	all := refConcat(parts)
	upTo := func(j, p int) []int { // parts before j, plus the first p items of part j
		out := refConcat(parts[:j])
		return append(out, parts[j][:p]...)
	}
	switch lay {
	case laySingle:
		return newSrc(e, "src", copyInts(all), true, func(p int) []int { return copyInts(all[:p]) })
	case layJoin:
		var ss []stream.Stream[int]
		for j := range parts {
			j := j
			ss = append(ss, newSrc(e, fmt.Sprintf("part%d", j), copyInts(parts[j]), true, func(p int) []int { return upTo(j, p) }))
		}
		return stream.Join(ss...)
	case layFlatten:
		var inner []stream.Stream[int]
		for j := range parts {
			j := j
			inner = append(inner, newSrc(e, fmt.Sprintf("inner%d", j), copyInts(parts[j]), true, func(p int) []int { return upTo(j, p) }))
		}
		outer := newSrc(e, "outer", inner, false, func(q int) []int { return refConcat(parts[:q]) })
		return stream.Flatten[int](outer)
	case layFlattenSlices:
		var items [][]int
		for j := range parts {
			items = append(items, copyInts(parts[j])) // FlattenSlices zeroes the slices it is given
		}
		return stream.FlattenSlices[int](newSrc(e, "slices", items, false, func(q int) []int { return refConcat(parts[:q]) }))
	case layFromIter:
		return stream.FromIterator(iterator.Slice(copyInts(all)))
	case layJoinLib:
		var ss []stream.Stream[int]
		for j := range parts {
			j := j
			switch kinds[j] {
			case 'P':
				ss = append(ss, newSrc(e, fmt.Sprintf("part%d", j), copyInts(parts[j]), true, func(p int) []int { return upTo(j, p) }))
			case 'p':
				snd, rcv := stream.Pipe[int](len(parts[j]) + 1)
				for _, x := range parts[j] {
					_ = snd.Send(context.Background(), x)
				}
				snd.Close(nil)
				ss = append(ss, rcv)
			case 'm':
				in := vkit.NewProbeStream(fmt.Sprintf("merged%d", j), copyInts(parts[j]))
				in.HonourCtx = true
				ss = append(ss, stream.Merge[int](in))
			}
		}
		return stream.Join(ss...)
	}
	panic("bad layout")
}

// ---------------------------------------------------------------------------------------------
// Stages: Stream[int] -> Stream[int]

type stageSpec struct {
	kind string
	n    int
}

func (s stageSpec) String() string {
	switch s.kind {
	case "first", "chunkFlat":
		return fmt.Sprintf("%s(%d)", s.kind, s.n)
	}
	return s.kind
}

func (s stageSpec) hasCb() bool { return s.kind == "map" || s.kind == "filter" || s.kind == "while" }

func (s stageSpec) build(e *env, k int, in stream.Stream[int]) stream.Stream[int] {
	switch s.kind {
	case "map":
		return stream.Map(in, func(ctx context.Context, x int) (int, error) {
			if err := e.cb(k, x); err != nil {
				return 0, err
			}
			return mapFn(x), nil
		})
	case "filter":
		return stream.Filter(in, func(ctx context.Context, x int) (bool, error) {
			if err := e.cb(k, x); err != nil {
				return false, err
			}
			return keepFn(x), nil
		})
	case "while":
		return stream.While(in, func(ctx context.Context, x int) (bool, error) {
			if err := e.cb(k, x); err != nil {
				return false, err
			}
			return whileFn(x), nil
		})
	case "first":
		return stream.First(in, s.n)
	case "compactF":
		return stream.CompactFunc(in, sameFn)
	case "compact":
		return stream.Compact(in)
	case "chunkFlat":
		return stream.FlattenSlices(stream.Chunk(in, s.n))
	case "runsFlat":
		return stream.Flatten(stream.Runs(in, sameFn))
	case "peek":
		return stream.WithPeek(in)
	case "joinE":
		return stream.Join(stream.Empty[int](), in, stream.Empty[int]())
	}
	panic("bad stage " + s.kind)
}

func (s stageSpec) ref(in []int) []int {
	switch s.kind {
	case "map":
		return refMap(in, mapFn)
	case "filter":
		return refFilter(in, keepFn)
	case "while":
		return refWhile(in, whileFn)
	case "first":
		return refFirst(in, s.n)
	case "compactF":
		return refCompact(in, sameFn)
	case "compact":
		return refCompact(in, func(a, b int) bool { return a == b })
	case "chunkFlat", "runsFlat", "peek", "joinE":
		return copyInts(in)
	}
	panic("bad stage " + s.kind)
}

// ---------------------------------------------------------------------------------------------
// Terminals: how the final stream is consumed

type termSpec struct {
	kind string // ints chunk runs peek | collect last one reduce
	n    int
}

func (t termSpec) String() string {
	switch t.kind {
	case "chunk", "last", "runsHead":
		return fmt.Sprintf("%s(%d)", t.kind, t.n)
	case "peek":
		return fmt.Sprintf("peek(%08b)", t.n)
	}
	return t.kind
}

func (t termSpec) reducer() bool {
	return t.kind == "collect" || t.kind == "last" || t.kind == "one" || t.kind == "reduce"
}

// refEvents renders the fault-free output of the terminal on `in` as events (without evEnd).
func (t termSpec) refEvents(in []int) []int {
	switch t.kind {
	case "ints", "peek":
		return evItems(in)
	case "chunk":
		return evGroups(refChunk(in, t.n))
	case "runs":
		return evRuns(refRuns(in, sameFn))
	case "runsHead":
		return evRunHeads(refRuns(in, sameFn), t.n)
	}
	panic("refEvents of " + t.kind)
}

// stepper performs one consumer call per step and reports what it was handed.
type stepper interface {
	step(ctx context.Context) ([]int, error)
	close()
}

type intStepper struct{ s stream.Stream[int] }

func (s *intStepper) step(ctx context.Context) ([]int, error) {
	x, err := s.s.Next(ctx)
	if err != nil {
		return nil, err
	}
	return []int{x}, nil
}
func (s *intStepper) close() { s.s.Close() }

type sliceStepper struct{ s stream.Stream[[]int] }

func (s *sliceStepper) step(ctx context.Context) ([]int, error) {
	xs, err := s.s.Next(ctx)
	if err != nil {
		return nil, err
	}
	out := make([]int, 0, len(xs)+1)
	out = append(out, xs...)
	if len(xs) == 0 {
		out = append(out, evBad) // an empty chunk / batch is never part of a reference
	}
	return append(out, evSep), nil
}
func (s *sliceStepper) close() { s.s.Close() }

// runsStepper drains every inner stream to its End (as the doc of Runs asks) before asking the
// outer stream again; a failed call is simply repeated.
type runsStepper struct {
	outer stream.Stream[stream.Stream[int]]
	cur   stream.Stream[int]
}

func (s *runsStepper) step(ctx context.Context) ([]int, error) {
	if s.cur == nil {
		in, err := s.outer.Next(ctx)
		if err != nil {
			return nil, err
		}
		s.cur = in
		return []int{evNewRun}, nil
	}
	x, err := s.cur.Next(ctx)
	if err == stream.End {
		s.cur.Close()
		s.cur = nil
		return []int{evEndRun}, nil
	}
	if err != nil {
		return nil, err
	}
	return []int{x}, nil
}
func (s *runsStepper) close() { s.outer.Close() }

// runsHeadStepper does NOT drain the inner streams: it takes the first j items of each run (fewer
// if the run ends first) and then asks the outer stream for the next run, leaving it to the outer
// stream to skip the rest - which the library implements. It never closes an inner stream itself.
// A failed call is repeated on the same stream.
type runsHeadStepper struct {
	outer     stream.Stream[stream.Stream[int]]
	cur       stream.Stream[int]
	j, taken  int
	needOuter bool
}

func (s *runsHeadStepper) step(ctx context.Context) ([]int, error) {
	if s.needOuter {
		in, err := s.outer.Next(ctx)
		if err != nil {
			return nil, err
		}
		s.cur, s.taken = in, 0
		s.needOuter = s.j == 0
		return []int{evNewRun}, nil
	}
	x, err := s.cur.Next(ctx)
	if err == stream.End {
		s.needOuter = true
		return []int{evEndRun}, nil
	}
	if err != nil {
		return nil, err
	}
	s.taken++
	if s.taken == s.j {
		s.needOuter = true
	}
	return []int{x}, nil
}
func (s *runsHeadStepper) close() { s.outer.Close() }

// peekStepper mixes Peek and Next by a fixed bit pattern. Only Next results are output events; a
// Peek must agree with the Next that follows it (and with an earlier Peek of the same item).
type peekStepper struct {
	s         stream.Peekable[int]
	pattern   int
	k         int
	has       bool
	peeked    int
	peekedEnd bool
}

func (s *peekStepper) step(ctx context.Context) ([]int, error) {
	bit := (s.pattern >> (s.k % 8)) & 1
	s.k++
	if bit == 1 {
		x, err := s.s.Peek(ctx)
		if err == stream.End {
			s.peekedEnd = true
			return nil, nil
		}
		if err != nil {
			return nil, err
		}
		if (s.has && x != s.peeked) || s.peekedEnd {
			return []int{evBad}, nil
		}
		s.has, s.peeked = true, x
		return nil, nil
	}
	x, err := s.s.Next(ctx)
	if err != nil {
		return nil, err
	}
	if (s.has && x != s.peeked) || s.peekedEnd {
		return []int{x, evBad}, nil
	}
	s.has = false
	return []int{x}, nil
}
func (s *peekStepper) close() { s.s.Close() }

func (t termSpec) stepper(s stream.Stream[int]) stepper {
	switch t.kind {
	case "ints":
		return &intStepper{s}
	case "chunk":
		return &sliceStepper{stream.Chunk(s, t.n)}
	case "runs":
		return &runsStepper{outer: stream.Runs(s, sameFn)}
	case "runsHead":
		return &runsHeadStepper{outer: stream.Runs(s, sameFn), j: t.n, needOuter: true}
	case "peek":
		return &peekStepper{s: stream.WithPeek(s), pattern: t.n}
	}
	panic("stepper of " + t.kind)
}

// reduce runs the reducer; the result is normalised to a slice.
func (t termSpec) reduce(ctx context.Context, e *env, cbStage int, s stream.Stream[int]) ([]int, error) {
	switch t.kind {
	case "collect":
		return stream.Collect(ctx, s)
	case "last":
		return stream.Last(ctx, s, t.n)
	case "one":
		x, err := stream.One(ctx, s)
		return []int{x}, err
	case "reduce":
		acc, err := stream.Reduce(ctx, s, 7, func(acc int, x int) (int, error) {
			if err := e.cb(cbStage, x); err != nil {
				return acc, err
			}
			return reduceFn(acc, x), nil
		})
		return []int{acc}, err
	}
	panic("reduce of " + t.kind)
}

// refReduceResult is the fault-free result; errKind is "", "empty" or "more".
func (t termSpec) refReduceResult(in []int) (vals []int, errKind string) {
	switch t.kind {
	case "collect":
		return copyInts(in), ""
	case "last":
		return refLast(in, t.n), ""
	case "one":
		x, err := refOne(in)
		switch err {
		case errRefEmpty:
			return nil, "empty"
		case errRefMoreThanOne:
			return nil, "more"
		}
		return []int{x}, ""
	case "reduce":
		return []int{refReduce(in, 7)}, ""
	}
	panic("refReduceResult of " + t.kind)
}

// ---------------------------------------------------------------------------------------------
// Subjects of the caller-goroutine part

type subjectSpec struct {
	lay   layout
	kinds string // layJoinLib: kind of each input
	// boundary: also enumerate every vector of input lengths in {0,1,2}^nparts (empty inputs in the
	// middle, so that one Next crosses several input boundaries); boundaryOnly: only those.
	boundary     bool
	boundaryOnly bool
	nparts       int
	unique       bool // value mode
	stages       []stageSpec
	term         termSpec
}

func (sp *subjectSpec) name() string {
	var b strings.Builder
	b.WriteString(layoutNames[sp.lay])
	if sp.lay == layJoinLib {
		b.WriteString("[" + sp.kinds + "]:")
	} else if sp.boundary {
		b.WriteString(fmt.Sprintf("%d:", sp.nparts))
	}
	for _, st := range sp.stages {
		b.WriteString(st.String())
		b.WriteString(">")
	}
	b.WriteString(sp.term.String())
	if !sp.unique {
		b.WriteString("[dup-values]")
	}
	return b.String()
}

// refPipeline applies the stage references to the (possibly truncated) global input.
func (sp *subjectSpec) refPipeline(in []int) []int {
	cur := copyInts(in)
	for _, st := range sp.stages {
		cur = st.ref(cur)
	}
	return cur
}

func (sp *subjectSpec) build(e *env, parts [][]int) stream.Stream[int] {
	s := buildSource(e, sp.lay, parts, sp.kinds)
	for k, st := range sp.stages {
		s = st.build(e, k, s)
	}
	return s
}

// cbStages lists the stage indices that have an error-capable callback (Reduce's f is stage
// len(stages)).
func (sp *subjectSpec) cbStages() []int {
	var out []int
	if !sp.unique {
		return nil
	}
	for k, st := range sp.stages {
		if st.hasCb() {
			out = append(out, k)
		}
	}
	if sp.term.kind == "reduce" {
		out = append(out, len(sp.stages))
	}
	return out
}

func st(kind string, n ...int) stageSpec {
	s := stageSpec{kind: kind}
	if len(n) > 0 {
		s.n = n[0]
	}
	return s
}
func tm(kind string, n ...int) termSpec {
	t := termSpec{kind: kind}
	if len(n) > 0 {
		t.n = n[0]
	}
	return t
}

func seqSubjects() []*subjectSpec {
	S := func(lay layout, nparts int, term termSpec, stages ...stageSpec) *subjectSpec {
		return &subjectSpec{lay: lay, nparts: nparts, unique: true, stages: stages, term: term}
	}
	subs := []*subjectSpec{
		// every combinator on its own
		S(laySingle, 1, tm("ints")),
		S(laySingle, 1, tm("chunk", 1)),
		S(laySingle, 1, tm("chunk", 2)),
		S(laySingle, 1, tm("chunk", 3)),
		S(laySingle, 1, tm("ints"), st("compactF")),
		S(laySingle, 1, tm("ints"), st("filter")),
		S(laySingle, 1, tm("ints"), st("first", 0)),
		S(laySingle, 1, tm("ints"), st("first", 2)),
		S(laySingle, 1, tm("ints"), st("first", 9)),
		S(layFlatten, 2, tm("ints")),
		S(layFlatten, 3, tm("ints")),
		S(layFlattenSlices, 2, tm("ints")),
		S(layFlattenSlices, 3, tm("ints")),
		S(layJoin, 2, tm("ints")),
		S(layJoin, 3, tm("ints")),
		S(laySingle, 1, tm("ints"), st("joinE")),
		S(laySingle, 1, tm("ints"), st("map")),
		S(laySingle, 1, tm("runs")),
		S(laySingle, 1, tm("ints"), st("runsFlat")),
		S(laySingle, 1, tm("runsHead", 0)),
		S(laySingle, 1, tm("runsHead", 1)),
		S(laySingle, 1, tm("runsHead", 2)),
		S(layJoin, 2, tm("runsHead", 1), st("map")),
		S(laySingle, 1, tm("runsHead", 0), st("peek")),
		S(laySingle, 1, tm("ints"), st("while")),
		S(laySingle, 1, tm("peek", 0b01010101)),
		S(laySingle, 1, tm("peek", 0b00110111)),
		S(laySingle, 1, tm("peek", 0b00000010)),
		S(laySingle, 1, tm("ints"), st("peek")),
		S(layFromIter, 1, tm("ints")),
		// reducers
		S(laySingle, 1, tm("collect")),
		S(laySingle, 1, tm("last", 0)),
		S(laySingle, 1, tm("last", 2)),
		S(laySingle, 1, tm("one")),
		S(laySingle, 1, tm("reduce")),
		// pipelines of 2-3
		S(laySingle, 1, tm("chunk", 2), st("filter"), st("map")),
		S(laySingle, 1, tm("ints"), st("map"), st("while")),
		S(laySingle, 1, tm("ints"), st("compactF"), st("first", 3)),
		S(laySingle, 1, tm("ints"), st("runsFlat"), st("filter")),
		S(laySingle, 1, tm("runs"), st("chunkFlat", 3), st("map")),
		S(laySingle, 1, tm("peek", 0b01101101), st("while")),
		S(laySingle, 1, tm("runs"), st("peek")),
		S(laySingle, 1, tm("chunk", 3), st("first", 4)),
		S(laySingle, 1, tm("ints"), st("chunkFlat", 2), st("compactF"), st("map")),
		S(layJoin, 2, tm("chunk", 2), st("filter")),
		S(layFlatten, 2, tm("ints"), st("compactF")),
		S(layFlatten, 3, tm("runs")),
		S(layFlattenSlices, 3, tm("ints"), st("map")),
		S(layFlattenSlices, 2, tm("chunk", 2)),
		S(layFromIter, 1, tm("ints"), st("filter"), st("map")),
		S(layFromIter, 1, tm("chunk", 2), st("while")),
		S(laySingle, 1, tm("collect"), st("map"), st("filter")),
		S(laySingle, 1, tm("last", 2), st("filter")),
		S(laySingle, 1, tm("one"), st("first", 1)),
		S(laySingle, 1, tm("one"), st("while")),
		S(laySingle, 1, tm("reduce"), st("map")),
		S(laySingle, 1, tm("reduce"), st("chunkFlat", 2)),
		S(layJoin, 2, tm("collect"), st("runsFlat")),
		S(layFlatten, 2, tm("reduce")),
		S(layFromIter, 1, tm("collect"), st("map")),
	}
	// Combinators that walk a list of inner streams, with faults exactly at the inner-stream
	// boundaries (see boundary above), and with real library streams as inputs.
	for _, sp := range []*subjectSpec{
		S(layJoin, 4, tm("ints")),
		S(layFlatten, 4, tm("ints")),
		S(layFlattenSlices, 4, tm("ints")),
	} {
		sp.boundary = true
		subs = append(subs, sp)
	}
	for _, kinds := range []string{"PpmP", "pPmP", "mPpP"} {
		sp := S(layJoinLib, 4, tm("ints"))
		sp.kinds, sp.boundary, sp.boundaryOnly = kinds, true, true
		subs = append(subs, sp)
	}
	// Compact proper (==) needs duplicate values.
	for _, sp := range []*subjectSpec{
		S(laySingle, 1, tm("ints"), st("compact")),
		S(laySingle, 1, tm("chunk", 2), st("compact")),
		S(layJoin, 2, tm("ints"), st("compact"), st("first", 2)),
		S(laySingle, 1, tm("collect"), st("compact")),
	} {
		sp.unique = false
		subs = append(subs, sp)
	}
	return subs
}
