package main

import (
	"context"
	"errors"
	"fmt"
	"sync"
	"sync/atomic"
	"time"

	"github.com/bradenaw/juniper/stream"

	"verif/vkit"
)

type faultKind int

const (
	fkFatalSrc    faultKind = iota // source `target` returns E once `pos` items were handed out
	fkFatalCb                      // callback of stage `target` returns E when invoked on the item of origin `pos`
	fkTransSrc                     // source `target` fails its `pos`-th Next call with vkit.ErrTransient (caller-goroutine only)
	fkCtxDead                      // consumer call number `pos` is made with an already expired context
	fkCtxExpiring                  // consumer call number `pos` is made with a context that expires while the source makes it wait
)

var kindNames = [...]string{"fatal-src", "fatal-cb", "transient-src", "ctx-expired", "ctx-expiring"}

func (k faultKind) String() string { return kindNames[k] }
func (k faultKind) fatal() bool    { return k == fkFatalSrc || k == fkFatalCb }

type fault struct {
	Kind   faultKind `json:"-"`
	KindS  string    `json:"kind"`
	Target int       `json:"target"`
	Pos    int       `json:"pos"`
	// Err selects the error VALUE of a fatal fault (index into fatalErrNames); 0 = the sentinel.
	Err  int    `json:"-"`
	ErrS string `json:"error,omitempty"`
}

func mkFault(k faultKind, target, pos int) fault {
	return fault{Kind: k, KindS: k.String(), Target: target, Pos: pos}
}

// mkFatal is a fatal fault whose error value is fatalErrNames[errKind].
func mkFatal(k faultKind, target, pos, errKind int) fault {
	f := mkFault(k, target, pos)
	f.Err = errKind
	if errKind != 0 {
		f.ErrS = fatalErrNames[errKind]
	}
	return f
}

// kindKey is the fault kind, qualified by the error value when it is not the sentinel.
func (f fault) kindKey() string {
	if f.Kind.fatal() && f.Err != 0 {
		return f.KindS + "(" + fatalErrNames[f.Err] + ")"
	}
	return f.KindS
}

func faultsString(fs []fault) string {
	s := ""
	for i, f := range fs {
		if i > 0 {
			s += ","
		}
		s += fmt.Sprintf("%s[%d]@%d", f.kindKey(), f.Target, f.Pos)
	}
	if s == "" {
		return "none"
	}
	return s
}

// The injected fatal errors. Each scenario has at most one fatal fault. Besides the sentinel, the
// source / callback may fail ON ITS OWN ACCOUNT (every context of the consumer and of the library is
// live) with error values a library is tempted to read as "my own shutdown" or "the normal end":
// context.Canceled, an error wrapping it, context.DeadlineExceeded, and an error that wraps
// stream.End without being it (the Stream contract says End is signalled by returning stream.End;
// the library compares with ==). The oracle is the same for all: errors.Is(reported, E), never End.
var (
	errSrcFatal = errors.New("verif: injected fatal source error")
	errCbFatal  = errors.New("verif: injected callback error")

	fatalErrNames = [...]string{"sentinel", "context.Canceled", "wraps-context.Canceled", "context.DeadlineExceeded", "wraps-stream.End",
		"stream.ErrClosedPipe", "wraps-stream.ErrClosedPipe", "stream.ErrMoreThanOne", "stream.ErrEmpty", "stream.End"}
	srcFatalErrs = [...]error{errSrcFatal, context.Canceled, fmt.Errorf("verif: upstream gave up: %w", context.Canceled),
		context.DeadlineExceeded, fmt.Errorf("verif: upstream broke: %w", stream.End),
		stream.ErrClosedPipe, fmt.Errorf("verif: upstream lost its peer: %w", stream.ErrClosedPipe), stream.ErrMoreThanOne, stream.ErrEmpty,
		nil} // a source that returns stream.End itself has ended: not a failure
	cbFatalErrs = [...]error{errCbFatal, context.Canceled, fmt.Errorf("verif: callback gave up: %w", context.Canceled),
		context.DeadlineExceeded, fmt.Errorf("verif: callback broke: %w", stream.End),
		stream.ErrClosedPipe, fmt.Errorf("verif: callback lost its peer: %w", stream.ErrClosedPipe), stream.ErrMoreThanOne, stream.ErrEmpty,
		stream.End}
)

// The library's own exported error values (stream.ErrClosedPipe, ErrMoreThanOne, ErrEmpty; no other
// package of the library exports one) are failures like any other when a source or a callback
// returns them. ekBareEnd: a CALLBACK that returns the bare stream.End value - no doc of a combinator
// lets a callback signal the end ("If f returns an error, terminates the stream early"), so it is a
// failure E and the combinator that owns the callback must report E itself. Since E is the End value,
// what its consumer receives is stream.End; that is accepted as the report of E (the outputs must be
// the prefix before the fault), and only judged where the owner of the callback is what the harness
// consumes directly (item by item) or is the reducer: what a further combinator makes of an End it
// receives from below is the normal-end behaviour and not this clause.
const (
	ekNewFrom = 5 // first of the library's own values
	ekBareEnd = 9
)

const nFatalErrKinds = len(fatalErrNames)

func fatalErrOf(f *fault) error {
	if f.Kind == fkFatalCb {
		return cbFatalErrs[f.Err]
	}
	return srcFatalErrs[f.Err]
}

// A context that expired long ago (ctx.Err() == context.DeadlineExceeded). Internal cancellations
// of the library are context.Canceled, so the two can never be confused.
var deadCtx = func() context.Context {
	ctx, cancel := context.WithDeadline(context.Background(), time.Unix(1, 0))
	_ = cancel
	return ctx
}()

// srcInfo describes one probe source of a scenario to the fault enumerator and the oracle.
type srcInfo struct {
	name   string
	nItems int // things it hands out in a fault-free run (ints, or inner streams / slices)
	// trunc(p) = the global input that remains determined when this source fails after p items
	// (for Merge: per part, see partsTrunc).
	trunc        func(p int) []int
	setFatal     func(p int, E error)
	setTransient func(call int)
	// misuse describes how the library used this source against the Stream contract so far (Next
	// after Close, a second Close, Next and Close overlapping), or "".
	misuse func() string
}

// env is the shared state of one scenario: fault plan, what fired, and (concurrent part) the
// perturbation tables and the event log. Everything library goroutines touch is atomic or under mu.
type env struct {
	conc bool
	pert *vkit.Perturber // nil in the sequential part

	srcs []*srcInfo

	// gate (goroutine-backed part): when set, every source's Close blocks until it is closed.
	gate chan struct{}

	cbStage  int // stage whose callback fails (-1: none)
	cbOrigin int
	cbFatal  error

	slow atomic.Bool // sources make the caller wait (until its context expires)

	// injected during the current consumer call (sequential part)
	inj      error
	firstInj error
	fatalErr error

	fatalFired atomic.Bool
	handed     atomic.Int64 // int items handed out by all sources
	cbCalls    atomic.Int64
	firedWhen  atomic.Int64 // handed at the moment the fatal fault fired
	fireTick   atomic.Int64 // logical time at which it fired
	clock      vkit.Clock

	mu  sync.Mutex
	log []byte // interleaving log (concurrent part)
}

func newEnv(conc bool, pert *vkit.Perturber) *env {
	return &env{conc: conc, pert: pert, cbStage: -1, cbOrigin: -1, cbFatal: errCbFatal}
}

func (e *env) ev(actor, kind byte) {
	if !e.conc {
		return
	}
	e.mu.Lock()
	if len(e.log) < 4096 {
		e.log = append(e.log, actor, kind)
	}
	e.mu.Unlock()
}

// firstFatal is the fatal error that fired (caller-goroutine part).
func (e *env) firstFatal() error { return e.fatalErr }

func (e *env) noteInjected(err error, fatal bool) {
	if fatal && !e.conc {
		e.fatalErr = err
	}
	if fatal {
		if e.fatalFired.CompareAndSwap(false, true) {
			e.firedWhen.Store(e.handed.Load())
			e.fireTick.Store(e.clock.Tick())
		}
	}
	if e.conc {
		return
	}
	e.inj = err
	if e.firstInj == nil {
		e.firstInj = err
	}
}

// wsrc wraps a vkit.ProbeStream: perturbation, bookkeeping of what was injected and handed out.
type wsrc[T any] struct {
	p      *vkit.ProbeStream[T]
	e      *env
	id     byte
	counts bool // its items are the scenario's int items
}

func (w *wsrc[T]) Next(ctx context.Context) (T, error) {
	w.e.pert.Do()
	liveAtEntry := ctx.Err() == nil
	x, err := w.p.Next(ctx)
	switch {
	case err == nil:
		if w.counts {
			w.e.handed.Add(1)
		}
		w.e.ev('s'+w.id, 'i')
	case err == stream.End:
		w.e.ev('s'+w.id, 'N')
	default:
		// The planned fatal failure (as opposed to the probe honouring a dead context, which may
		// carry the same error value): the context was live and the fault position is reached.
		fatal := liveAtEntry && w.p.FatalAt >= 0 && err == w.p.Fatal && w.p.Pos() >= w.p.FatalAt
		w.e.noteInjected(err, fatal)
		w.e.ev('s'+w.id, 'e')
	}
	w.e.pert.Do()
	return x, err
}

func (w *wsrc[T]) Close() {
	w.p.Close()
	if g := w.e.gate; g != nil {
		w.e.ev('s'+w.id, 'C')
		<-g // the harness opens the gate only after the verdict
	}
}

// newSrc makes a probe source that honours ctx before consuming, and registers it.
func newSrc[T any](e *env, name string, items []T, counts bool, trunc func(p int) []int) *wsrc[T] {
	p := vkit.NewProbeStream(name, items)
	p.HonourCtx = true
	p.Fatal = errSrcFatal
	if !e.conc {
		// ctx-expiring faults: while e.slow is set the source keeps its caller waiting; the wait is
		// interruptible by ctx (HonourCtx), nothing is consumed.
		p.Delay = func(int) time.Duration {
			if e.slow.Load() {
				return time.Hour
			}
			return 0
		}
	}
	w := &wsrc[T]{p: p, e: e, id: byte(len(e.srcs)), counts: counts}
	e.srcs = append(e.srcs, &srcInfo{
		name:   name,
		nItems: len(items),
		trunc:  trunc,
		setFatal: func(at int, E error) {
			p.FatalAt = at
			p.Fatal = E
		},
		misuse: func() string { return p.Misuse(false) },
		setTransient: func(call int) {
			if p.TransientAt == nil {
				p.TransientAt = make(map[int]bool)
			}
			p.TransientAt[call] = true
		},
	})
	return w
}

// cb is called by every error-capable user callback of stage `stage` with its argument.
func (e *env) cb(stage int, x int) error {
	e.pert.Do()
	e.cbCalls.Add(1)
	e.ev('c', byte('0'+stage))
	if stage == e.cbStage && originOf(x) == e.cbOrigin {
		e.noteInjected(e.cbFatal, true)
		return e.cbFatal
	}
	return nil
}

// apply installs the faults that live in sources / callbacks; it returns the per-attempt context
// plan (attempt ordinal -> kind) and whether a fatal fault is planned.
func (e *env) apply(fs []fault) (ctxPlan map[int]faultKind, fatal *fault) {
	ctxPlan = make(map[int]faultKind)
	for i := range fs {
		f := fs[i]
		switch f.Kind {
		case fkFatalSrc:
			e.srcs[f.Target].setFatal(f.Pos, srcFatalErrs[f.Err])
			fatal = &fs[i]
		case fkFatalCb:
			e.cbStage, e.cbOrigin, e.cbFatal = f.Target, f.Pos, cbFatalErrs[f.Err]
			fatal = &fs[i]
		case fkTransSrc:
			e.srcs[f.Target].setTransient(f.Pos)
		case fkCtxDead, fkCtxExpiring:
			if _, dup := ctxPlan[f.Pos]; !dup {
				ctxPlan[f.Pos] = f.Kind
			}
		}
	}
	return
}

// Values. unique mode: 10*(i+1)+class (origin recoverable, Map adds 1000); class-only mode: class+1
// (duplicates, for Compact's ==).
func makeInput(n int, classes []int, unique bool) []int {
	in := make([]int, n)
	for i := range in {
		if unique {
			in[i] = 10*(i+1) + classes[i]
		} else {
			in[i] = classes[i] + 1
		}
	}
	return in
}

// cut splits in into the given number of parts by the cut points (sorted, in [0,len]).
func cutParts(in []int, cuts []int) [][]int {
	var parts [][]int
	prev := 0
	for _, c := range cuts {
		parts = append(parts, in[prev:c])
		prev = c
	}
	parts = append(parts, in[prev:])
	return parts
}
