package main

import (
	"context"
	"errors"
	"fmt"
	"sort"
	"strings"
	"sync"
	"sync/atomic"
	"time"

	"github.com/bradenaw/juniper/iterator"
	"github.com/bradenaw/juniper/parallel"
	"github.com/bradenaw/juniper/stream"

	"verif/vkit"
)

// ---------------------------------------------------------------------------------------------
// Subjects of the goroutine-backed part

type concParams struct {
	BS      int           `json:"batch_size"`
	Par     int           `json:"parallelism"`
	Buf     int           `json:"buffer"`
	MaxWait time.Duration `json:"max_wait_ns"`
}

const (
	modeExact      = iota // event sequence equals the reference
	modePartition         // Batch with a short maxWait: any cut into non-empty batches of <= BS items
	modeInterleave        // Merge: every input's items in order, inputs interleaved arbitrarily
)

type concSpec struct {
	name    string
	nparts  int // probe sources (0: fed through a Pipe sender)
	mode    int
	slices  bool   // output is a stream of slices
	reducer string // "", "collect", "reduce"
	// wire builds the pipeline over the sources (their fault plans are already installed) and
	// returns the stream of ints or of slices.
	wire func(e *env, srcs []stream.Stream[int], prm concParams) (stream.Stream[int], stream.Stream[[]int])
	// ref is the fault-free output on the (possibly truncated) global input (exact/partition modes).
	ref func(in []int, prm concParams) []int
	// unmap maps an output item back to the source item (interleave mode).
	unmap func(x int) int
	// cbStages: callback stage numbers; cbPart0: the callback only sees items of part 0.
	cbStages []int
	cbPart0  bool
	// endCbStages: callback stages whose owner is consumed directly by the harness (or is the
	// reducer): there a callback returning the bare stream.End value is injected as well.
	endCbStages []int
	usesPipe    bool
	// batchOut: the output batches come from Batch/BatchFunc, which may flush what it holds when
	// its source fails: before a fatal error any cut of the prefix into non-empty batches is accepted.
	batchOut bool
	// blocks: after its items, every source blocks in Next until its context is done (a probe with
	// BlockAtEnd; a Pipe whose sender stays idle): the stream never ends, so every scenario has a
	// callback fault that fires, and E must reach a consumer whose context is live.
	blocks bool
	// chanLast: the last input is stream.FromIterator(iterator.Chan(ch)) - it ignores the context
	// while it waits - and the harness keeps ch open and empty after that input's items: the input
	// is blocked in Next for the whole scenario. Another input (or the callback) fails with E, and E
	// must reach the consumer while that input is still blocked; only then is ch closed.
	chanLast bool
}

func cbMap(e *env, stage int) func(context.Context, int) (int, error) {
	return func(ctx context.Context, x int) (int, error) {
		if err := e.cb(stage, x); err != nil {
			return 0, err
		}
		return mapFn(x), nil
	}
}

func cbFilter(e *env, stage int) func(context.Context, int) (bool, error) {
	return func(ctx context.Context, x int) (bool, error) {
		if err := e.cb(stage, x); err != nil {
			return false, err
		}
		return keepFn(x), nil
	}
}

func identity(x int) int { return x }
func unmap1000(x int) int {
	if x >= 1000 {
		return x - 1000
	}
	return x
}

func concSubjects() []*concSpec {
	bg := context.Background()
	return []*concSpec{
		{name: "Batch", nparts: 1, slices: true, batchOut: true,
			wire: func(e *env, s []stream.Stream[int], p concParams) (stream.Stream[int], stream.Stream[[]int]) {
				return nil, stream.Batch(s[0], p.MaxWait, p.BS)
			},
			ref: func(in []int, p concParams) []int { return evGroups(refChunk(in, p.BS)) }},
		{name: "BatchFunc", nparts: 1, slices: true, batchOut: true,
			wire: func(e *env, s []stream.Stream[int], p concParams) (stream.Stream[int], stream.Stream[[]int]) {
				return nil, stream.BatchFunc(s[0], p.MaxWait, fullFn)
			},
			ref: func(in []int, p concParams) []int { return evGroups(refBatchFunc(in, fullFn)) }},
		{name: "Batch[short maxWait]", nparts: 1, slices: true, mode: modePartition,
			wire: func(e *env, s []stream.Stream[int], p concParams) (stream.Stream[int], stream.Stream[[]int]) {
				return nil, stream.Batch(s[0], p.MaxWait, p.BS)
			},
			ref: func(in []int, p concParams) []int { return evItems(in) }},
		{name: "Merge(1)", nparts: 1, mode: modeInterleave, unmap: identity,
			wire: func(e *env, s []stream.Stream[int], p concParams) (stream.Stream[int], stream.Stream[[]int]) {
				return stream.Merge(s...), nil
			}},
		{name: "Merge(2)", nparts: 2, mode: modeInterleave, unmap: identity,
			wire: func(e *env, s []stream.Stream[int], p concParams) (stream.Stream[int], stream.Stream[[]int]) {
				return stream.Merge(s...), nil
			}},
		{name: "Merge(3)", nparts: 3, mode: modeInterleave, unmap: identity,
			wire: func(e *env, s []stream.Stream[int], p concParams) (stream.Stream[int], stream.Stream[[]int]) {
				return stream.Merge(s...), nil
			}},
		{name: "Pipe", usesPipe: true,
			wire: func(e *env, s []stream.Stream[int], p concParams) (stream.Stream[int], stream.Stream[[]int]) {
				return s[0], nil
			},
			ref: func(in []int, p concParams) []int { return evItems(in) }},
		{name: "MapStream", nparts: 1, cbStages: []int{0}, endCbStages: []int{0},
			wire: func(e *env, s []stream.Stream[int], p concParams) (stream.Stream[int], stream.Stream[[]int]) {
				return parallel.MapStream(bg, s[0], p.Par, p.Buf, cbMap(e, 0)), nil
			},
			ref: func(in []int, p concParams) []int { return evItems(refMap(in, mapFn)) }},
		// pipelines of 2-3
		{name: "Map(FlattenSlices(Batch))", nparts: 1, cbStages: []int{0}, endCbStages: []int{0},
			wire: func(e *env, s []stream.Stream[int], p concParams) (stream.Stream[int], stream.Stream[[]int]) {
				return stream.Map(stream.FlattenSlices(stream.Batch(s[0], p.MaxWait, p.BS)), cbMap(e, 0)), nil
			},
			ref: func(in []int, p concParams) []int { return evItems(refMap(in, mapFn)) }},
		{name: "MapStream(FlattenSlices(Batch))", nparts: 1, cbStages: []int{0}, endCbStages: []int{0},
			wire: func(e *env, s []stream.Stream[int], p concParams) (stream.Stream[int], stream.Stream[[]int]) {
				return parallel.MapStream(bg, stream.FlattenSlices(stream.Batch(s[0], p.MaxWait, p.BS)), p.Par, p.Buf, cbMap(e, 0)), nil
			},
			ref: func(in []int, p concParams) []int { return evItems(refMap(in, mapFn)) }},
		{name: "Batch(MapStream)", nparts: 1, slices: true, batchOut: true, cbStages: []int{0},
			wire: func(e *env, s []stream.Stream[int], p concParams) (stream.Stream[int], stream.Stream[[]int]) {
				return nil, stream.Batch(parallel.MapStream(bg, s[0], p.Par, p.Buf, cbMap(e, 0)), p.MaxWait, p.BS)
			},
			ref: func(in []int, p concParams) []int { return evGroups(refChunk(refMap(in, mapFn), p.BS)) }},
		{name: "Merge(Map(a),b)", nparts: 2, mode: modeInterleave, unmap: unmap1000, cbStages: []int{0}, cbPart0: true,
			wire: func(e *env, s []stream.Stream[int], p concParams) (stream.Stream[int], stream.Stream[[]int]) {
				return stream.Merge(stream.Map(s[0], cbMap(e, 0)), s[1]), nil
			}},
		{name: "MapStream(Merge(2))", nparts: 2, mode: modeInterleave, unmap: unmap1000, cbStages: []int{0}, endCbStages: []int{0},
			wire: func(e *env, s []stream.Stream[int], p concParams) (stream.Stream[int], stream.Stream[[]int]) {
				return parallel.MapStream(bg, stream.Merge(s...), p.Par, p.Buf, cbMap(e, 0)), nil
			}},
		{name: "Chunk(Pipe)", usesPipe: true, slices: true,
			wire: func(e *env, s []stream.Stream[int], p concParams) (stream.Stream[int], stream.Stream[[]int]) {
				return nil, stream.Chunk(s[0], 2)
			},
			ref: func(in []int, p concParams) []int { return evGroups(refChunk(in, 2)) }},
		{name: "MapStream(Filter(Pipe))", usesPipe: true, cbStages: []int{0, 1}, endCbStages: []int{1},
			wire: func(e *env, s []stream.Stream[int], p concParams) (stream.Stream[int], stream.Stream[[]int]) {
				return parallel.MapStream(bg, stream.Filter(s[0], cbFilter(e, 0)), p.Par, p.Buf, cbMap(e, 1)), nil
			},
			ref: func(in []int, p concParams) []int { return evItems(refMap(refFilter(in, keepFn), mapFn)) }},
		// reducers over goroutine-backed streams
		{name: "Collect(MapStream)", nparts: 1, cbStages: []int{0}, reducer: "collect",
			wire: func(e *env, s []stream.Stream[int], p concParams) (stream.Stream[int], stream.Stream[[]int]) {
				return parallel.MapStream(bg, s[0], p.Par, p.Buf, cbMap(e, 0)), nil
			},
			ref: func(in []int, p concParams) []int { return evItems(refMap(in, mapFn)) }},
		{name: "Reduce(FlattenSlices(Batch))", nparts: 1, cbStages: []int{0}, reducer: "reduce", endCbStages: []int{0},
			wire: func(e *env, s []stream.Stream[int], p concParams) (stream.Stream[int], stream.Stream[[]int]) {
				return stream.FlattenSlices(stream.Batch(s[0], p.MaxWait, p.BS)), nil
			},
			ref: func(in []int, p concParams) []int { return []int{refReduce(in, 7)} }},
		{name: "Last(Merge(2))", nparts: 2, reducer: "last",
			wire: func(e *env, s []stream.Stream[int], p concParams) (stream.Stream[int], stream.Stream[[]int]) {
				return stream.Merge(s...), nil
			}},
	}
}

// concBlockSubjects: the source never ends - after its items it blocks in Next until its context is
// done - while a callback fails on an item already handed out. The failure must interrupt the
// blocked source read and reach the consumer.
func concBlockSubjects() []*concSpec {
	bg := context.Background()
	return []*concSpec{
		{name: "MapStream[source blocks]", nparts: 1, cbStages: []int{0}, blocks: true, endCbStages: []int{0},
			wire: func(e *env, s []stream.Stream[int], p concParams) (stream.Stream[int], stream.Stream[[]int]) {
				return parallel.MapStream(bg, s[0], p.Par, p.Buf, cbMap(e, 0)), nil
			},
			ref: func(in []int, p concParams) []int { return evItems(refMap(in, mapFn)) }},
		{name: "Batch(MapStream[source blocks])", nparts: 1, slices: true, batchOut: true, cbStages: []int{0}, blocks: true,
			wire: func(e *env, s []stream.Stream[int], p concParams) (stream.Stream[int], stream.Stream[[]int]) {
				return nil, stream.Batch(parallel.MapStream(bg, s[0], p.Par, p.Buf, cbMap(e, 0)), p.MaxWait, p.BS)
			},
			ref: func(in []int, p concParams) []int { return evGroups(refChunk(refMap(in, mapFn), p.BS)) }},
		{name: "MapStream(Filter(Pipe[sender idle]))", usesPipe: true, cbStages: []int{0, 1}, blocks: true,
			wire: func(e *env, s []stream.Stream[int], p concParams) (stream.Stream[int], stream.Stream[[]int]) {
				return parallel.MapStream(bg, stream.Filter(s[0], cbFilter(e, 0)), p.Par, p.Buf, cbMap(e, 1)), nil
			},
			ref: func(in []int, p concParams) []int { return evItems(refMap(refFilter(in, keepFn), mapFn)) }},
		{name: "MapStream(Merge(2)[inputs block])", nparts: 2, mode: modeInterleave, unmap: unmap1000, cbStages: []int{0}, blocks: true,
			wire: func(e *env, s []stream.Stream[int], p concParams) (stream.Stream[int], stream.Stream[[]int]) {
				return parallel.MapStream(bg, stream.Merge(s...), p.Par, p.Buf, cbMap(e, 0)), nil
			}},
		{name: "Merge(Map(a),b)[inputs block]", nparts: 2, mode: modeInterleave, unmap: unmap1000, cbStages: []int{0}, cbPart0: true, blocks: true,
			wire: func(e *env, s []stream.Stream[int], p concParams) (stream.Stream[int], stream.Stream[[]int]) {
				return stream.Merge(stream.Map(s[0], cbMap(e, 0)), s[1]), nil
			}},
	}
}

// concChanSubjects: Merge with one input that ignores the context while it is blocked in Next.
func concChanSubjects() []*concSpec {
	return []*concSpec{
		{name: "Merge(a,chan[blocked])", nparts: 2, mode: modeInterleave, unmap: identity, chanLast: true,
			wire: func(e *env, s []stream.Stream[int], p concParams) (stream.Stream[int], stream.Stream[[]int]) {
				return stream.Merge(s...), nil
			}},
		{name: "Merge(a,b,chan[blocked])", nparts: 3, mode: modeInterleave, unmap: identity, chanLast: true,
			wire: func(e *env, s []stream.Stream[int], p concParams) (stream.Stream[int], stream.Stream[[]int]) {
				return stream.Merge(s...), nil
			}},
	}
}

// observeMapStreamOverBlockedMerge records - and does NOT judge - what parallel.MapStream does when
// its source is such a Merge: MapStream's reader goroutine closes the source before the error group
// can finish, Merge's Close waits for all of its input goroutines, and the context-ignoring input
// cannot be interrupted; so MapStream.Next (which waits for the group) reports the Merge's error
// only once that input returns. Whether that is "silence" in the sense of the statement depends on
// whether a source whose Close blocks is within it; it is written down for the reader, with the
// elapsed time used only to tell the two behaviours apart (no verdict).
// gatedProbe is a probe source that fails after its items and whose Close blocks on a gate.
type gatedProbe struct {
	*vkit.ProbeStream[int]
	gate chan struct{}
}

func (g gatedProbe) Close() { g.ProbeStream.Close(); <-g.gate }

// observeBlockedClose records - and does NOT judge - the combinators that on the clean tree report
// their source's failure only after the source's Close has returned: parallel.MapStream (its reader
// goroutine defers s.Close() and Next waits for the whole group), and with it every pipeline that
// reads through MapStream; and the reducers (defer s.Close() before returning, by design).
func observeBlockedClose(r *vkit.Report) {
	const table = "not judged: the source fails with E and its Close blocks until released"
	bg := context.Background()
	type probe struct {
		name string
		run  func(src stream.Stream[int]) error
	}
	drain := func(s stream.Stream[int]) error {
		for {
			if _, err := s.Next(bg); err != nil {
				return err
			}
		}
	}
	for _, pr := range []probe{
		{"MapStream", func(src stream.Stream[int]) error {
			s := parallel.MapStream(bg, src, 2, 0, func(ctx context.Context, x int) (int, error) { return x, nil })
			err := drain(s)
			go s.Close()
			return err
		}},
		{"Collect", func(src stream.Stream[int]) error { _, err := stream.Collect(bg, src); return err }},
		{"Batch", func(src stream.Stream[int]) error {
			s := stream.Batch(src, time.Hour, 2)
			for {
				if _, err := s.Next(bg); err != nil {
					go s.Close()
					return err
				}
			}
		}},
		{"Merge", func(src stream.Stream[int]) error {
			s := stream.Merge(src)
			err := drain(s)
			go s.Close()
			return err
		}},
	} {
		p := vkit.NewProbeStream("a", []int{11})
		p.HonourCtx = true
		p.FatalAt, p.Fatal = 1, errSrcFatal
		gate := make(chan struct{})
		done := make(chan error, 1)
		run := pr.run
		go func() { done <- run(gatedProbe{p, gate}) }()
		var err error
		early := true
		select {
		case err = <-done:
		case <-time.After(300 * time.Millisecond):
			early = false
		}
		close(gate)
		if !early {
			err = <-done
		}
		switch {
		case early && errors.Is(err, errSrcFatal):
			r.Count(table, pr.name+": E was reported while the source's Close was still blocked", 1)
		case errors.Is(err, errSrcFatal):
			r.Count(table, pr.name+": E was reported only after the source's Close was released (>= 300 ms later)", 1)
		default:
			r.Count(table, pr.name+": something other than E was reported: "+errString(err), 1)
		}
	}
}

func observeMapStreamOverBlockedMerge(r *vkit.Report) {
	const table = "not judged: MapStream over a Merge one of whose inputs is blocked in a context-ignoring Next"
	for par := 1; par <= 2; par++ {
		ch := make(chan int)
		probe := vkit.NewProbeStream("a", []int{11})
		probe.HonourCtx = true
		probe.FatalAt, probe.Fatal = 1, errSrcFatal
		s := parallel.MapStream(context.Background(),
			stream.Merge[int](probe, stream.FromIterator(iterator.Chan((<-chan int)(ch)))), par, 0,
			func(ctx context.Context, x int) (int, error) { return x, nil })
		type res struct{ err error }
		done := make(chan res, 1)
		go func() {
			for {
				_, err := s.Next(context.Background())
				if err != nil {
					done <- res{err}
					return
				}
			}
		}()
		var got res
		early := false
		select {
		case got = <-done:
			early = true
		case <-time.After(300 * time.Millisecond):
			close(ch)
			got = <-done
		}
		if early {
			close(ch)
		}
		s.Close()
		switch {
		case early && errors.Is(got.err, errSrcFatal):
			r.Count(table, "E was reported while the input was still blocked", 1)
		case errors.Is(got.err, errSrcFatal):
			r.Count(table, "E was reported only after the blocked input was released (>= 300 ms later)", 1)
		default:
			r.Count(table, "something other than E was reported: "+errString(got.err), 1)
		}
	}
}

// pipeFeed is the sending side of a Pipe: the "source" of the Pipe subjects.
type pipeFeed struct {
	e       *env
	items   []int
	fatalAt int
	fatalE  error
	idle    bool          // after the items, neither send nor close until released
	release chan struct{} // closed by the consumer side after it closed the stream
	snd     *stream.PipeSender[int]
	done    chan struct{}
}

func (f *pipeFeed) run() {
	defer close(f.done)
	bg := context.Background()
	for i, x := range f.items {
		if f.fatalAt >= 0 && i >= f.fatalAt {
			break
		}
		f.e.pert.Do()
		if err := f.snd.Send(bg, x); err != nil {
			return // the receiver was closed
		}
		f.e.handed.Add(1)
		f.e.ev('p', 'i')
	}
	f.e.pert.Do()
	if f.idle {
		f.e.ev('p', 'b')
		<-f.release
	}
	if f.fatalAt >= 0 {
		f.e.noteInjected(f.fatalE, true)
		f.e.ev('p', 'e')
		f.snd.Close(f.fatalE)
	} else {
		f.e.ev('p', 'N')
		f.snd.Close(nil)
	}
}

// ---------------------------------------------------------------------------------------------
// One run

type concAttempt struct {
	plan    faultKind
	evs     []int
	err     error
	ctxDone bool
	fired   bool // the fatal fault had fired when the call returned
	start   int64
	end     int64
	handed  int64
}

type concRun struct {
	spec  *concSpec
	parts [][]int
	prm   concParams
	fs    []fault

	e        *env
	fatalE   error // error value of the planned fatal fault (nil: none)
	attempts []concAttempt
	redVals  []int
	redErr   error
	phase    atomic.Int32 // 1 consuming, 2 closing, 3 done

	blockedCh   chan int // chanLast subjects: the channel behind the blocked input
	releaseOnce sync.Once
	gated       bool // every probe source's Close blocks until release
}

// release unblocks the context-ignoring input (after the verdict) so that everything can be torn down.
func (cr *concRun) release() {
	cr.releaseOnce.Do(func() {
		if cr.blockedCh != nil {
			close(cr.blockedCh)
		}
		if cr.e != nil && cr.e.gate != nil {
			close(cr.e.gate)
		}
	})
}

// gateOK: the subject can be given sources whose Close blocks until after the verdict. Excluded
// (recorded, not judged - see observeBlockedClose): everything that reads such a source through
// parallel.MapStream, whose reader goroutine closes the source before the error group can report,
// and the reducers, which by design close their stream before they return.
func (spec *concSpec) gateOK() bool {
	return spec.reducer == "" && !spec.usesPipe && !strings.Contains(spec.name, "MapStream")
}

// pauser parks the other workers while one worker asks vkit.Await whether its scenario is stuck
// (Await needs every relevant goroutine parked).
type pauser struct {
	mu sync.Mutex
	n  int
	ch chan struct{}
}

func (p *pauser) enter() {
	p.mu.Lock()
	if p.n == 0 {
		p.ch = make(chan struct{})
	}
	p.n++
	p.mu.Unlock()
}
func (p *pauser) leave() {
	p.mu.Lock()
	p.n--
	if p.n == 0 {
		close(p.ch)
		p.ch = nil
	}
	p.mu.Unlock()
}
func (p *pauser) checkpoint() {
	p.mu.Lock()
	ch := p.ch
	p.mu.Unlock()
	if ch != nil {
		<-ch
	}
}

var thePauser pauser
var stuckSeen atomic.Int32

func awaitDone(done <-chan struct{}) (vkit.AwaitVerdict, string) {
	t := time.NewTimer(3 * time.Second)
	select {
	case <-done:
		t.Stop()
		return vkit.AwaitDone, ""
	case <-t.C:
	}
	thePauser.enter()
	defer thePauser.leave()
	return vkit.Await(done, vkit.AwaitOpts{Soft: 3 * time.Second, Gap: 600 * time.Millisecond, Hard: 90 * time.Second})
}

func (cr *concRun) exec(rnd *vkit.Rand) (verdict vkit.AwaitVerdict, dump string) {
	intensity := []float64{0, 0.1, 0.3, 0.6}[rnd.Intn(4)]
	pert := vkit.NewPerturber(rnd, 97, intensity)
	e := newEnv(true, pert)
	cr.e = e
	spec := cr.spec
	if spec.gateOK() && rnd.Intn(2) == 0 {
		// The source's Close blocks on a gate that is opened only after the verdict: what the
		// source delivered and its failure must reach the consumer while Close is still blocked.
		e.gate = make(chan struct{})
		cr.gated = true
	}
	n := len(refConcat(cr.parts))

	// sources and their fault plans first: the library starts pulling at construction
	var srcs []stream.Stream[int]
	var feed *pipeFeed
	if spec.usesPipe {
		all := refConcat(cr.parts)
		feed = &pipeFeed{e: e, items: copyInts(all), fatalAt: -1, done: make(chan struct{}), idle: spec.blocks, release: make(chan struct{})}
		e.srcs = append(e.srcs, &srcInfo{name: "pipe-sender", nItems: len(all),
			setFatal: func(p int, E error) { feed.fatalAt, feed.fatalE = p, E }, setTransient: func(int) {}})
	} else {
		for j := range cr.parts {
			if spec.chanLast && j == len(cr.parts)-1 {
				cr.blockedCh = make(chan int, len(cr.parts[j])+1)
				for _, x := range cr.parts[j] {
					cr.blockedCh <- x
				}
				srcs = append(srcs, stream.FromIterator(iterator.Chan((<-chan int)(cr.blockedCh))))
				continue
			}
			w := newSrc(e, fmt.Sprintf("src%d", j), copyInts(cr.parts[j]), true, nil)
			w.p.BlockAtEnd = spec.blocks
			srcs = append(srcs, w)
		}
	}
	plan, fatal := e.apply(cr.fs)
	if fatal != nil {
		cr.fatalE = fatalErrOf(fatal)
	}
	if spec.usesPipe {
		snd, rcv := stream.Pipe[int](cr.prm.Buf)
		feed.snd = snd
		srcs = []stream.Stream[int]{rcv}
	}
	// expiring deadlines, drawn before the run
	expiry := make([]time.Duration, 8)
	for i := range expiry {
		expiry[i] = time.Duration(rnd.Intn(400)) * time.Microsecond
	}
	maxAttempts := 8*(n+4) + 4*len(cr.fs) + 24

	done := make(chan struct{})
	go func() {
		defer close(done)
		cr.consume(e, srcs, feed, plan, expiry, maxAttempts)
	}()
	return awaitDone(done)
}

func (cr *concRun) consume(e *env, srcs []stream.Stream[int], feed *pipeFeed, plan map[int]faultKind, expiry []time.Duration, maxAttempts int) {
	spec := cr.spec
	cr.phase.Store(1)
	si, ss := spec.wire(e, srcs, cr.prm)
	if feed != nil {
		go feed.run()
	}
	bg := context.Background()
	mkctx := func(a int) (context.Context, context.CancelFunc, faultKind) {
		if k, ok := plan[a]; ok {
			if k == fkCtxDead {
				return deadCtx, nil, k
			}
			ctx, cancel := context.WithTimeout(bg, expiry[a%len(expiry)])
			return ctx, cancel, k
		}
		return bg, nil, -1
	}
	if spec.reducer != "" {
		ctx, cancel, pk := mkctx(0)
		e.pert.Do()
		start := e.clock.Tick()
		switch spec.reducer {
		case "collect":
			cr.redVals, cr.redErr = stream.Collect(ctx, si)
		case "last":
			cr.redVals, cr.redErr = stream.Last(ctx, si, 2)
		case "reduce":
			var acc int
			acc, cr.redErr = stream.Reduce(ctx, si, 7, func(acc int, x int) (int, error) {
				if err := e.cb(0, x); err != nil {
					return acc, err
				}
				return reduceFn(acc, x), nil
			})
			cr.redVals = []int{acc}
		}
		cr.attempts = append(cr.attempts, concAttempt{plan: pk, err: cr.redErr, ctxDone: ctx.Err() != nil, start: start, end: e.clock.Tick(), handed: e.handed.Load()})
		if cancel != nil {
			cancel()
		}
		cr.phase.Store(2)
		cr.release()
		if feed != nil {
			close(feed.release)
			<-feed.done
		}
		cr.phase.Store(3)
		return
	}
	var stp stepper
	if spec.slices {
		stp = &sliceStepper{ss}
	} else {
		stp = &intStepper{si}
	}
loop:
	for a := 0; a < maxAttempts; a++ {
		e.pert.Do()
		ctx, cancel, pk := mkctx(a)
		e.ev('A', byte('0'+int(pk+1)))
		start := e.clock.Tick()
		evs, err := stp.step(ctx)
		end := e.clock.Tick()
		ctxDone := ctx.Err() != nil
		fired := e.fatalFired.Load()
		if cancel != nil {
			cancel()
		}
		cr.attempts = append(cr.attempts, concAttempt{plan: pk, evs: evs, err: err, ctxDone: ctxDone, fired: fired, start: start, end: end, handed: e.handed.Load()})
		switch {
		case err == nil:
			e.ev('A', 'i')
			continue
		case err == stream.End:
			e.ev('A', 'N')
		case cr.mayBeFatalReport(fired, err):
			// (also when the call's own context had expired and E carries the same value: it may be
			// the report of E, and what comes after the first report is not judged)
			e.ev('A', 'F')
		case ctxDone && errors.Is(err, context.DeadlineExceeded):
			e.ev('A', 'x')
			continue
		default:
			e.ev('A', 'F')
		}
		break loop
	}
	cr.phase.Store(2)
	cr.release() // the verdict is in: E (or End) was received while the blocked input was still blocked
	stp.close()
	if feed != nil {
		close(feed.release)
		<-feed.done
	}
	cr.phase.Store(3)
}

// mayBeFatalReport: the fatal fault has fired and err carries its value.
func (cr *concRun) mayBeFatalReport(fired bool, err error) bool {
	return fired && cr.fatalE != nil && errors.Is(err, cr.fatalE)
}

func (cr *concRun) attemptLog() []string {
	var out []string
	for i, a := range cr.attempts {
		s := fmt.Sprintf("call%d", i)
		if a.plan >= 0 {
			s += "[" + a.plan.String() + "]"
		}
		s += fmt.Sprintf(" -> %v err=%s", a.evs, errString(a.err))
		out = append(out, s)
	}
	return out
}

// partsTrunc is what the fatal fault leaves determined, per part.
func (cr *concRun) partsTrunc(f *fault) [][]int {
	out := make([][]int, len(cr.parts))
	for j := range cr.parts {
		out[j] = cr.parts[j]
	}
	if f == nil {
		return out
	}
	if f.Kind == fkFatalSrc {
		if cr.spec.usesPipe {
			all := refConcat(cr.parts)
			return [][]int{all[:f.Pos]}
		}
		out[f.Target] = out[f.Target][:f.Pos]
		return out
	}
	// callback on the item of global origin f.Pos
	off := 0
	for j := range out {
		if f.Pos < off+len(out[j]) {
			out[j] = out[j][:f.Pos-off]
			break
		}
		off += len(out[j])
	}
	return out
}

type concOutcome struct {
	v         *viol
	got, want []int
	terminal  string
	transient int
	buffered  bool
	timing    string
}

func (cr *concRun) judge() (o concOutcome) {
	spec := cr.spec
	e := cr.e
	var fatal *fault
	for i := range cr.fs {
		if cr.fs[i].Kind.fatal() {
			fatal = &cr.fs[i]
		}
	}
	fatalErr := error(nil)
	if fatal != nil {
		fatalErr = fatalErrOf(fatal)
	}
	fired := e.fatalFired.Load()

	if spec.reducer != "" {
		o.terminal = "reducer"
		a := cr.attempts[0]
		err := cr.redErr
		o.got = cr.redVals
		switch {
		case err != nil && a.ctxDone && errors.Is(err, context.DeadlineExceeded):
			o.transient = 1
		case err != nil && fatal != nil && errors.Is(err, fatalErr):
			o.terminal = "reducer-fatal"
		case err != nil:
			o.v = &viol{"reducer-wrong-error", fmt.Sprintf("reducer returned error %q; injected: %s", err, faultsString(cr.fs))}
		case fatal != nil && (fatal.Kind == fkFatalSrc || fired):
			o.v = &viol{"reducer-error-swallowed", fmt.Sprintf("reducer returned (%v, nil) although its stream failed with %q", cr.redVals, fatalErr)}
		default:
			all := refConcat(cr.parts)
			switch spec.reducer {
			case "last": // over a Merge: the last items of an interleaving; only its length and membership are determined
				want := 2
				if len(all) < 2 {
					want = len(all)
				}
				if len(cr.redVals) != want {
					o.v = &viol{"reducer-result", fmt.Sprintf("Last(2) returned %v for inputs %v", cr.redVals, cr.parts)}
				}
			default:
				o.want = spec.ref(all, cr.prm)
				if !equalInts(cr.redVals, o.want) {
					o.v = &viol{"reducer-result", fmt.Sprintf("reducer returned %v, fault-free result is %v", cr.redVals, o.want)}
				}
			}
		}
		return
	}

	firstFail := -1
	for i, a := range cr.attempts {
		if a.err == nil {
			o.got = append(o.got, a.evs...)
			continue
		}
		if a.err == stream.End {
			o.terminal = "end"
			if fatal != nil && fatalErr == stream.End && a.fired {
				// a callback failed with the bare End value: this End is the report of E
				o.terminal = "fatal"
			}
			break
		}
		if firstFail < 0 {
			firstFail = i
			if a.handed > int64(countItems(o.got)) {
				o.buffered = true
			}
		}
		if a.ctxDone && errors.Is(a.err, context.DeadlineExceeded) && !cr.mayBeFatalReport(a.fired, a.err) {
			o.transient++
			continue
		}
		if fatal != nil && errors.Is(a.err, fatalErr) {
			o.terminal = "fatal"
			if e.firedWhen.Load() > int64(countItems(o.got)) {
				o.buffered = true
			}
			break
		}
		sig := "spurious-error"
		if fatal != nil {
			sig = "wrong-error"
		}
		o.v = &viol{sig, fmt.Sprintf("consumer call %d returned error %q; injected: %s", i, a.err, faultsString(cr.fs))}
		return
	}
	if o.terminal == "" {
		o.v = &viol{"no-termination", fmt.Sprintf("no End and no error after %d consumer calls", len(cr.attempts))}
		return
	}
	for _, x := range o.got {
		if x == evBad {
			o.v = &viol{"empty-batch", fmt.Sprintf("an empty batch was delivered: %v", o.got)}
			return
		}
	}
	if o.terminal == "end" && fatal != nil && (fatal.Kind == fkFatalSrc || fired) {
		o.v = &viol{"end-instead-of-error", fmt.Sprintf("the stream reported End after %v although %q was due", o.got, fatalErr)}
		return
	}
	var tr *fault
	if o.terminal == "fatal" {
		tr = fatal
	}
	pt := cr.partsTrunc(tr)
	full := o.terminal == "end"
	switch spec.mode {
	case modeExact:
		o.want = spec.ref(refConcat(pt), cr.prm)
		if full {
			if !equalInts(o.got, o.want) {
				o.v = &viol{"output-" + classifyDiff(o.got, o.want), fmt.Sprintf("total output %v differs from the fault-free output %v", o.got, o.want)}
			}
		} else if spec.batchOut {
			if gi, wi := itemsOnly(o.got), itemsOnly(o.want); !isPrefix(gi, wi) {
				o.v = &viol{"fatal-output-not-prefix", fmt.Sprintf("concatenated batches %v delivered before the error are not a prefix of the fault-free items %v before the fault", gi, wi)}
			}
		} else if !isPrefix(o.got, o.want) {
			o.v = &viol{"fatal-output-not-prefix", fmt.Sprintf("outputs %v delivered before the error are not a prefix of the fault-free output %v of the items before the fault", o.got, o.want)}
		}
	case modePartition:
		o.want = spec.ref(refConcat(pt), cr.prm)
		items := itemsOnly(o.got)
		size := 0
		for _, x := range o.got {
			if x == evSep {
				if size > cr.prm.BS {
					o.v = &viol{"batch-too-long", fmt.Sprintf("batch longer than %d in %v", cr.prm.BS, o.got)}
					return
				}
				size = 0
			} else {
				size++
			}
		}
		if full {
			if !equalInts(items, o.want) {
				o.v = &viol{"output-" + classifyDiff(items, o.want), fmt.Sprintf("concatenated batches %v differ from the input %v", items, o.want)}
			}
		} else if !isPrefix(items, o.want) {
			o.v = &viol{"fatal-output-not-prefix", fmt.Sprintf("concatenated batches %v delivered before the error are not a prefix of the items before the fault %v", items, o.want)}
		}
	case modeInterleave:
		partOf := make(map[int]int)
		for j, p := range cr.parts {
			for _, x := range p {
				partOf[x] = j
			}
		}
		per := make([][]int, len(cr.parts))
		for _, y := range o.got {
			x := spec.unmap(y)
			j, ok := partOf[x]
			if !ok || (len(spec.cbStages) > 0 && (!spec.cbPart0 || j == 0)) != (y != x) {
				o.v = &viol{"output-duplicated-or-wrong", fmt.Sprintf("output %d in %v is not the image of an input item of %v", y, o.got, cr.parts)}
				return
			}
			per[j] = append(per[j], x)
		}
		for j := range per {
			if full {
				if !equalInts(per[j], pt[j]) {
					o.v = &viol{"output-" + classifyDiff(per[j], pt[j]), fmt.Sprintf("items of input %d in the merged output %v are %v, the input was %v", j, o.got, per[j], pt[j])}
					return
				}
			} else if !isPrefix(per[j], pt[j]) {
				o.v = &viol{"fatal-output-not-prefix", fmt.Sprintf("items of input %d delivered before the error are %v, not a prefix of %v (merged output %v)", j, per[j], pt[j], o.got)}
				return
			}
		}
	}
	return
}

// ---------------------------------------------------------------------------------------------
// Enumeration

type concCfg struct {
	sub int
	n   int
	fs  []fault
}

func concFaults(spec *concSpec, n int, nparts int, partLens []int, prmBSmin int) []fault {
	var out []fault
	if spec.usesPipe {
		for p := 0; p <= n; p++ {
			out = append(out, mkFault(fkFatalSrc, 0, p))
		}
	} else {
		for j := 0; j < nparts; j++ {
			for p := 0; p <= partLens[j]; p++ {
				out = append(out, mkFault(fkFatalSrc, j, p))
			}
		}
	}
	for _, k := range spec.cbStages {
		lim := n
		if spec.cbPart0 {
			lim = partLens[0]
		}
		for p := 0; p < lim; p++ {
			out = append(out, mkFault(fkFatalCb, k, p))
		}
	}
	attempts := n + 2
	if spec.slices {
		attempts = n/prmBSmin + 2
	}
	if spec.reducer != "" {
		attempts = 1
	}
	for a := 0; a < attempts; a++ {
		out = append(out, mkFault(fkCtxDead, 0, a))
		out = append(out, mkFault(fkCtxExpiring, 0, a))
	}
	return out
}

// fewPositions: first, middle and at-end (deduplicated) of [0, limit] (or of [0, limit) when the
// position must name an item).
func fewPositions(limit int, inclusive bool) []int {
	hi := limit
	if !inclusive {
		hi = limit - 1
	}
	if hi < 0 {
		return nil
	}
	if hi <= 3 { // short inputs: every position
		out := make([]int, 0, hi+1)
		for p := 0; p <= hi; p++ {
			out = append(out, p)
		}
		return out
	}
	out := []int{0}
	for _, p := range []int{hi / 2, hi} {
		if p != out[len(out)-1] {
			out = append(out, p)
		}
	}
	return out
}

// concErrValueFaults: the fatal faults with the non-sentinel error values, at a few positions of
// every source and every callback stage.
func concErrValueFaults(spec *concSpec, n int, nparts int, partLens []int) []fault {
	var out []fault
	for ek := 1; ek < ekBareEnd; ek++ {
		if spec.usesPipe {
			for _, p := range fewPositions(n, true) {
				out = append(out, mkFatal(fkFatalSrc, 0, p, ek))
			}
		} else {
			for j := 0; j < nparts; j++ {
				for _, p := range fewPositions(partLens[j], true) {
					out = append(out, mkFatal(fkFatalSrc, j, p, ek))
				}
			}
		}
		for _, k := range spec.cbStages {
			lim := n
			if spec.cbPart0 {
				lim = partLens[0]
			}
			for _, p := range fewPositions(lim, false) {
				out = append(out, mkFatal(fkFatalCb, k, p, ek))
			}
		}
	}
	for _, k := range spec.endCbStages {
		for p := 0; p < n; p++ {
			out = append(out, mkFatal(fkFatalCb, k, p, ekBareEnd))
		}
	}
	return out
}

// concParts cuts the input for the subject deterministically from (n, nparts).
func concParts(in []int, nparts int, rnd *vkit.Rand) [][]int {
	if nparts <= 1 {
		return [][]int{in}
	}
	var cuts []int
	for i := 1; i < nparts; i++ {
		cuts = append(cuts, rnd.Intn(len(in)+1))
	}
	sort.Ints(cuts)
	return cutParts(in, cuts)
}

var (
	sigMu sync.Mutex
	sigs  = make(map[uint64]struct{})
)

func concurrent(r *vkit.Report) {
	subs := concSubjects()
	maxLen := r.Scale(6, 8)
	reps := r.Scale(20, 60)
	pairsPer := r.Scale(24, 60)
	triplesPer := r.Scale(10, 30)

	// The configuration list is fixed by the seed before anything runs.
	type prepared struct {
		cfg   concCfg
		parts [][]int
		half  bool // error-value scenarios: the value, not the timing, is the point - half the repetitions (a quarter for the library's own values)
	}
	var cfgs []prepared
	for si, spec := range subs {
		for n := 0; n <= maxLen; n++ {
			rnd := r.Rand("conc-cfg", si, n)
			in := makeInput(n, drawClasses(rnd, n, 1+n%2), true)
			np := spec.nparts
			if spec.usesPipe {
				np = 1
			}
			parts := concParts(in, np, rnd)
			lens := make([]int, len(parts))
			for j := range parts {
				lens[j] = len(parts[j])
			}
			singles := concFaults(spec, n, np, lens, 1)
			cfgs = append(cfgs, prepared{cfg: concCfg{si, n, nil}, parts: parts})
			for _, f := range singles {
				cfgs = append(cfgs, prepared{cfg: concCfg{si, n, []fault{f}}, parts: parts})
			}
			extras := concErrValueFaults(spec, n, np, lens)
			for _, f := range extras {
				cfgs = append(cfgs, prepared{cfg: concCfg{si, n, []fault{f}}, parts: parts, half: true})
			}
			// in sequences of faults, a quarter of the fatal ones carry one of the other error values
			vary := func(f fault) fault {
				if f.Kind.fatal() && rnd.Intn(4) == 0 {
					return mkFatal(f.Kind, f.Target, f.Pos, 1+rnd.Intn(ekBareEnd-1))
				}
				return f
			}
			ok := func(fs ...fault) bool {
				nf := 0
				seen := map[int]bool{}
				for _, f := range fs {
					if f.Kind.fatal() {
						nf++
					} else {
						if seen[f.Pos] {
							return false
						}
						seen[f.Pos] = true
					}
				}
				return nf <= 1
			}
			if spec.reducer != "" || len(singles) < 3 {
				continue
			}
			for t := 0; t < pairsPer; t++ {
				a, b := vary(singles[rnd.Intn(len(singles))]), vary(singles[rnd.Intn(len(singles))])
				if ok(a, b) {
					cfgs = append(cfgs, prepared{cfg: concCfg{si, n, []fault{a, b}}, parts: parts})
				}
			}
			for t := 0; t < triplesPer; t++ {
				a, b, d := vary(singles[rnd.Intn(len(singles))]), vary(singles[rnd.Intn(len(singles))]), vary(singles[rnd.Intn(len(singles))])
				if ok(a, b, d) {
					cfgs = append(cfgs, prepared{cfg: concCfg{si, n, []fault{a, b, d}}, parts: parts})
				}
			}
		}
	}
	// Sources that block instead of ending: every configuration has a callback fault that fires
	// (classes 1 and 2 only, so Filter keeps every item).
	for _, spec := range concBlockSubjects() {
		subs = append(subs, spec)
		si := len(subs) - 1
		for n := 1; n <= maxLen; n++ {
			rnd := r.Rand("conc-block-cfg", si, n)
			cl := make([]int, n)
			for i := range cl {
				cl[i] = 1 + rnd.Intn(2)
			}
			in := makeInput(n, cl, true)
			np := spec.nparts
			if spec.usesPipe {
				np = 1
			}
			parts := concParts(in, np, rnd)
			lim := n
			if spec.cbPart0 {
				lim = len(parts[0])
			}
			var fatals []fault
			for _, k := range spec.cbStages {
				for p := 0; p < lim; p++ {
					fatals = append(fatals, mkFatal(fkFatalCb, k, p, 0))
					cfgs = append(cfgs, prepared{cfg: concCfg{si, n, []fault{fatals[len(fatals)-1]}}, parts: parts})
				}
				for ek := 1; ek < ekBareEnd; ek++ {
					for _, p := range fewPositions(lim, false) {
						cfgs = append(cfgs, prepared{cfg: concCfg{si, n, []fault{mkFatal(fkFatalCb, k, p, ek)}}, parts: parts, half: true})
					}
				}
			}
			for _, k := range spec.endCbStages {
				for p := 0; p < lim; p++ {
					cfgs = append(cfgs, prepared{cfg: concCfg{si, n, []fault{mkFatal(fkFatalCb, k, p, ekBareEnd)}}, parts: parts, half: true})
				}
			}
			for t := 0; t < 6 && len(fatals) > 0; t++ {
				f := fatals[rnd.Intn(len(fatals))]
				g := mkFault([]faultKind{fkCtxDead, fkCtxExpiring}[rnd.Intn(2)], 0, rnd.Intn(n+1))
				cfgs = append(cfgs, prepared{cfg: concCfg{si, n, []fault{f, g}}, parts: parts})
			}
		}
	}
	// Merge with an input that is blocked in a context-ignoring Next: every configuration has a
	// fatal fault (in a probe input, or in the callback) that fires.
	for _, spec := range concChanSubjects() {
		subs = append(subs, spec)
		si := len(subs) - 1
		for n := 1; n <= maxLen; n++ {
			rnd := r.Rand("conc-chan-cfg", si, n)
			in := makeInput(n, drawClasses(rnd, n, 2), true)
			parts := concParts(in, spec.nparts, rnd)
			var fatals []fault
			add := func(f fault, half bool) {
				cfgs = append(cfgs, prepared{cfg: concCfg{si, n, []fault{f}}, parts: parts, half: half})
			}
			for j := 0; j < spec.nparts-1; j++ {
				for p := 0; p <= len(parts[j]); p++ {
					fatals = append(fatals, mkFatal(fkFatalSrc, j, p, 0))
					add(fatals[len(fatals)-1], false)
				}
				for ek := 1; ek < ekBareEnd; ek++ {
					for _, p := range fewPositions(len(parts[j]), true) {
						add(mkFatal(fkFatalSrc, j, p, ek), true)
					}
				}
			}
			for _, k := range spec.cbStages {
				for p := 0; p < n; p++ {
					fatals = append(fatals, mkFatal(fkFatalCb, k, p, 0))
					add(fatals[len(fatals)-1], false)
				}
				for ek := 1; ek < ekBareEnd; ek++ {
					for _, p := range fewPositions(n, false) {
						add(mkFatal(fkFatalCb, k, p, ek), true)
					}
				}
			}
			for t := 0; t < 6; t++ {
				f := fatals[rnd.Intn(len(fatals))]
				g := mkFault([]faultKind{fkCtxDead, fkCtxExpiring}[rnd.Intn(2)], 0, rnd.Intn(n+1))
				cfgs = append(cfgs, prepared{cfg: concCfg{si, n, []fault{f, g}}, parts: parts})
			}
		}
	}
	// Merge of zero inputs (regression for the fixed "never ends").
	mergeZero := &concSpec{name: "Merge(0)", nparts: 0, mode: modeInterleave, unmap: identity,
		wire: func(e *env, s []stream.Stream[int], p concParams) (stream.Stream[int], stream.Stream[[]int]) {
			return stream.Merge[int](), nil
		}}
	subs = append(subs, mergeZero)
	cfgs = append(cfgs, prepared{cfg: concCfg{len(subs) - 1, 0, nil}})
	cfgs = append(cfgs, prepared{cfg: concCfg{len(subs) - 1, 0, []fault{mkFault(fkCtxDead, 0, 0)}}})
	cfgs = append(cfgs, prepared{cfg: concCfg{len(subs) - 1, 0, []fault{mkFault(fkCtxExpiring, 0, 0), mkFault(fkCtxDead, 0, 1)}}})

	workers := 8
	r.Cases("conc", len(cfgs), workers, func(c *vkit.Case) {
		pc := cfgs[c.Index]
		spec := subs[pc.cfg.sub]
		kinds := make([]string, 0, len(pc.cfg.fs))
		for _, f := range pc.cfg.fs {
			kinds = append(kinds, f.KindS)
		}
		sort.Strings(kinds)
		kk := strings.Join(kinds, "+")
		if kk == "" {
			kk = "none"
		}
		nreps := reps
		if pc.half {
			nreps = reps / 2
			if len(pc.cfg.fs) == 1 && pc.cfg.fs[0].Err >= ekNewFrom {
				nreps = reps / 4
			}
		}
		for rep := 0; rep < nreps; rep++ {
			if stuckSeen.Load() >= 3 {
				return
			}
			thePauser.checkpoint()
			rnd := c.Rand.Split()
			prm := concParams{BS: 1 + rnd.Intn(3), Par: 1 + rnd.Intn(3), Buf: []int{0, 1, 4}[rnd.Intn(3)], MaxWait: time.Hour}
			if spec.mode == modePartition {
				prm.MaxWait = time.Duration(50+rnd.Intn(400)) * time.Microsecond
			}
			cr := &concRun{spec: spec, parts: pc.parts, prm: prm, fs: pc.cfg.fs}
			verdict, dump := cr.exec(rnd)
			r.Eval(1)
			witness := func() map[string]any {
				return map[string]any{"subject": spec.name, "parts": pc.parts, "faults": pc.cfg.fs, "params": prm, "repetition": rep, "source_close_blocked": cr.gated}
			}
			switch verdict {
			case vkit.AwaitStuck:
				cr.release()
				if cr.phase.Load() == 1 {
					stuckSeen.Add(1)
					w := witness()
					w["goroutines"] = dump
					c.Violation(spec.name+":silence",
						fmt.Sprintf("%s input=%v faults=%s %+v: the consumer's Next never returns (all goroutines parked)", spec.name, pc.parts, faultsString(pc.cfg.fs), prm), w)
				} else {
					stuckSeen.Add(1)
					r.Inconclusive(fmt.Sprintf("%s input=%v faults=%s: Close did not return (all goroutines parked) - outside C08", spec.name, pc.parts, faultsString(pc.cfg.fs)))
				}
				return
			case vkit.AwaitInconclusive:
				stuckSeen.Add(1)
				r.Inconclusive(fmt.Sprintf("%s input=%v faults=%s: consumer not finished after 90 s but goroutines still runnable", spec.name, pc.parts, faultsString(pc.cfg.fs)))
				return
			}
			o := cr.judge()
			if o.v != nil {
				w := witness()
				w["calls"] = cr.attemptLog()
				w["got"] = o.got
				w["want"] = o.want
				c.Violation(spec.name+":"+o.v.sig,
					fmt.Sprintf("%s input=%v faults=%s batch=%d par=%d buf=%d: %s", spec.name, pc.parts, faultsString(pc.cfg.fs), prm.BS, prm.Par, prm.Buf, o.v.what), w)
				return
			}
			// evidence
			r.Count("scenarios by fault kinds", kk, 1)
			r.Count("scenarios by subject", spec.name, 1)
			nontrivial := false
			switch o.terminal {
			case "fatal", "reducer-fatal":
				r.Count("outcomes", "fatal fault fired: prefix then E", 1)
				nontrivial = true
			case "end", "reducer":
				if o.transient > 0 {
					r.Count("outcomes", "failed calls retried, full output then End", 1)
					nontrivial = true
				} else {
					r.Count("outcomes", "no consumer call failed (full output then End)", 1)
				}
			}
			for _, a := range cr.attempts {
				if a.plan >= 0 {
					switch {
					case a.err == nil:
						r.Count("timing", "call with expired/expiring context: data was already there", 1)
					case a.err == stream.End:
						r.Count("timing", "call with expired/expiring context: End was already there", 1)
					case a.ctxDone && errors.Is(a.err, context.DeadlineExceeded):
						r.Count("timing", "call with expired/expiring context: gave up waiting", 1)
					default:
						r.Count("timing", "call with expired/expiring context: the fatal error was already there", 1)
					}
				}
			}
			if cr.gated {
				switch o.terminal {
				case "fatal":
					r.Count("timing", "E received while every source's Close was held blocked", 1)
				case "end":
					r.Count("timing", "End received while every source's Close was held blocked", 1)
				}
			}
			if o.terminal == "fatal" && spec.chanLast {
				r.Count("timing", "E received while another input was blocked in a context-ignoring Next", 1)
			}
			if o.terminal == "fatal" {
				last := cr.attempts[len(cr.attempts)-1]
				if cr.e.fireTick.Load() < last.start {
					r.Count("timing", "fatal fault fired before the consumer's call that reported it began", 1)
				} else {
					r.Count("timing", "fatal fault fired while the consumer was waiting in Next", 1)
				}
			}
			if nontrivial {
				for _, f := range pc.cfg.fs {
					pcl := ctxPosClass(f.Pos)
					if f.Kind.fatal() {
						lim := pc.cfg.n
						if f.Kind == fkFatalSrc && !spec.usesPipe {
							lim = len(pc.parts[f.Target])
						}
						switch {
						case f.Pos >= lim:
							pcl = "at-end"
						case f.Pos == 0:
							pcl = "first"
						case f.Pos == lim-1:
							pcl = "last"
						default:
							pcl = "middle"
						}
					}
					r.Distinct(fmt.Sprintf("%s|%s|%s|buffered=%v", spec.name, f.kindKey(), pcl, o.buffered))
					if f.Kind.fatal() {
						r.Count("fatal faults that fired, by error value", fatalErrNames[f.Err], 1)
					}
				}
				if o.buffered {
					r.Count("observations", "faults that hit while items were held inside the pipeline", 1)
				}
			}
			h := vkit.Hash64(spec.name + "|" + kk + "|" + string(cr.e.log))
			sigMu.Lock()
			sigs[h] = struct{}{}
			sigMu.Unlock()
			if nontrivial && len(pc.cfg.fs) >= 2 && o.transient >= 1 && pc.cfg.n >= 3 && r.WantSample() {
				r.Sample(map[string]any{"subject": spec.name, "parts": pc.parts, "faults": faultsString(pc.cfg.fs), "params": prm, "calls": cr.attemptLog()})
			}
		}
	})
	if !r.Replaying() {
		observeMapStreamOverBlockedMerge(r)
		observeBlockedClose(r)
	}
	r.SetExhaustive(false)
	sigMu.Lock()
	nsig := len(sigs)
	sigMu.Unlock()
	r.Count("schedules", "distinct interleaving signatures (source / callback / consumer events)", nsig)
	r.Count("subjects", "goroutine-backed subjects", len(subs))
	r.Floor("conc: scenarios in which the fatal fault fired", r.Table("outcomes", "fatal fault fired: prefix then E"), 2000)
	r.Floor("conc: scenarios with failed calls that were retried to the end", r.Table("outcomes", "failed calls retried, full output then End"), 2000)
	r.Floor("conc: expired-context calls that gave up waiting", r.Table("timing", "call with expired/expiring context: gave up waiting"), 1000)
	r.Floor("conc: expired-context calls served from data already there", r.Table("timing", "call with expired/expiring context: data was already there"), 200)
	r.Floor("conc: distinct interleaving signatures", int64(nsig), 500)
}
