// C10 — stream.Pipe: FIFO per sender, nothing sent-before-close lost, no stuck call.
//
// Oracle: offline history checker over unique-value event logs recorded at the client boundary
// with one logical clock (call tick before invoking, return tick after the reply), plus the
// goroutine-dump quiescence verdict for "no call blocks forever". Built with -race.
package main

import (
	"context"
	"errors"
	"fmt"
	"runtime"
	"sort"
	"strings"
	"sync"
	"sync/atomic"
	"time"

	"github.com/bradenaw/juniper/stream"

	"verif/vkit"
)

type ev struct {
	Actor  string `json:"actor"`
	Op     string `json:"op"` // Send TrySend SClose Next RClose
	Val    int64  `json:"val,omitempty"`
	Call   int64  `json:"call"`
	Ret    int64  `json:"ret"`
	Result string `json:"result"` // ok | full | End | closed-pipe | close-err | ctx | item | other:<...>
}

// The error given to sender.Close: a sentinel, or one that wraps context.Canceled (a value that is
// easily mistaken for "somebody's context ended").
var errCloseSentinel = errors.New("verif: sender close error")
var errCloseWrapsCanceled = fmt.Errorf("verif: producer aborted: %w", context.Canceled)
var errCloseWrapsEnd = fmt.Errorf("verif: upstream ended unexpectedly: %w", stream.End)
var errCloseIsEnd error = isEndErr{}
var errCloseDeadline = fmt.Errorf("verif: producer timed out: %w", context.DeadlineExceeded)

// isEndErr is a failure whose Is method matches stream.End: still a failure, not the normal end.
type isEndErr struct{}

func (isEndErr) Error() string        { return "verif: typed close error whose Is matches stream.End" }
func (isEndErr) Is(target error) bool { return target == stream.End }

// errClose is the close error of the current case (cases run one at a time).
var errClose = errCloseSentinel

func main() {
	vkit.Main("C10", "exploration", func(r *vkit.Report) {
		r.SetRule("case = one short concurrent history on one Pipe (buffer 0/1/2/8; 1..8 senders mixing Send and TrySend with live, expiring and expired contexts; " +
			"Close(nil) or Close(err) after the senders joined or concurrently with them; receiver reading to the end or closing early), logged with a logical clock. " +
			"Evaluation = one history checked by the offline checker (integrity, at-most-once, per-sender FIFO, no loss before Close, result legality, stickiness, quiescence). " +
			"non-trivial = >= 2 senders delivered at least one value each and a close raced or followed buffered data; distinct = by interleaving signature " +
			"(hash of the tick-ordered sequence of (actor, operation, result)).")
		r.Assume("the no-loss clause is applied only to values whose Send/TrySend returned success before Close was CALLED (tick order), to receivers that keep reading")
		r.Assume("stickiness of End / the close error is judged only once every sender goroutine has returned (no Send in flight)")
		n := r.Scale(2500, 60000)
		r.Cases("hist", n, 1, func(c *vkit.Case) { runCase(c) })
		// Phase sweep: one sender does Send (returns nil: the buffer has room) and then Close, while the
		// receiver ENTERS Next at a swept offset around that moment - the windows between two
		// adjacent statements of Next that random histories practically never hit.
		r.Cases("sweep", r.Scale(108, 432), 1, func(c *vkit.Case) { sweep(c) })
		r.Floor("phase-sweep trials", r.Table("sweep", "trials"), 40000)
		// Crowd: many senders released together on a small buffer, some with dead contexts, while the
		// receiver is idle and then closes: every Send must return.
		r.Cases("crowd", r.Scale(1500, 30000), 1, func(c *vkit.Case) { crowd(c) })
		r.Cases("parked-next", r.Scale(200, 3000), 1, func(c *vkit.Case) { parkedNext(c) })
		r.Floor("parked-next rounds", r.Table("parked-next", "rounds"), 150)
		r.Cases("exotic", r.Scale(300, 3000), 1, func(c *vkit.Case) { exotic(c) })
		r.Floor("rounds with by-value contexts and sends after Close", r.Table("exotic", "rounds"), 200)
		r.Floor("crowd rounds", r.Table("crowd", "rounds"), 1000)
		r.Floor("histories in which a value sent before Close was received after Close was called", r.Table("schedule", "value acked before Close, received after Close call"), 20)
		r.Floor("histories with a blocked Send released by receiver Close", r.Table("results", "Send closed-pipe"), 20)
		r.Floor("distinct interleavings", r.Table("schedule", "histories"), int64(n/2))
	})
}

type logT struct {
	mu sync.Mutex
	es []ev
}

func (l *logT) add(e ev) {
	l.mu.Lock()
	l.es = append(l.es, e)
	l.mu.Unlock()
}

func classifySendErr(err error) string {
	switch {
	case err == nil:
		return "ok"
	case err == errClose:
		return "close-err"
	case errors.Is(err, stream.ErrClosedPipe):
		return "closed-pipe"
	case errors.Is(err, context.Canceled), errors.Is(err, context.DeadlineExceeded):
		return "ctx"
	}
	return "other:" + err.Error()
}

type ctxPlan struct {
	kind int           // 0 live, 1 deadline, 2 already cancelled
	d    time.Duration // for kind 1
}

func (p ctxPlan) make() (context.Context, context.CancelFunc) {
	switch p.kind {
	case 1:
		return context.WithTimeout(context.Background(), p.d)
	case 2:
		ctx, cancel := context.WithCancel(context.Background())
		cancel()
		return ctx, cancel
	}
	return context.WithCancel(context.Background())
}

func drawCtx(rnd *vkit.Rand, pLive float64) ctxPlan {
	if rnd.Bool(pLive) {
		return ctxPlan{}
	}
	if rnd.Bool(0.25) {
		return ctxPlan{kind: 2}
	}
	return ctxPlan{kind: 1, d: time.Duration(rnd.Range(20, 800)) * time.Microsecond}
}

func runCase(c *vkit.Case) {
	r := c.R
	rnd := c.Rand
	buffer := []int{0, 1, 2, 8}[rnd.Intn(4)]
	nSenders := []int{1, 2, 4, 8}[rnd.Intn(4)]
	closeWithErr := rnd.Bool(0.4)
	errClose = []error{errCloseSentinel, errCloseSentinel, errCloseWrapsCanceled, errCloseWrapsCanceled, errCloseWrapsEnd, errCloseIsEnd, errCloseDeadline}[rnd.Intn(7)]
	closerMode := rnd.Intn(2) // 0 after senders joined, 1 concurrently with them
	recvEarly := -1           // receiver closes after this many items (-1: reads to the end)
	if rnd.Bool(0.35) {
		recvEarly = rnd.Intn(6)
	}
	intensity := []float64{0, 0.1, 0.5}[rnd.Intn(3)]

	sender, recv := stream.Pipe[int64](buffer)
	var clock vkit.Clock
	var lg logT
	var sendersWG, allWG sync.WaitGroup
	sendersDone := make(chan struct{})

	type sendPlan struct {
		try bool
		ctx ctxPlan
	}
	plans := make([][]sendPlan, nSenders)
	for s := range plans {
		m := rnd.Range(1, 12)
		pLive := []float64{1, 0.8, 0.5}[rnd.Intn(3)]
		for i := 0; i < m; i++ {
			plans[s] = append(plans[s], sendPlan{try: rnd.Bool(0.3), ctx: drawCtx(rnd, pLive)})
		}
	}
	// If nothing will ever unblock a sender with a live context (no closer and a receiver that
	// reads everything), the scenario ends by itself; if the receiver closes early, blocked sends
	// must return ErrClosedPipe.
	for s := 0; s < nSenders; s++ {
		s := s
		pert := vkit.NewPerturber(rnd.Split(), 61, intensity)
		sendersWG.Add(1)
		allWG.Add(1)
		go func() {
			defer allWG.Done()
			defer sendersWG.Done()
			actor := fmt.Sprintf("S%d", s)
			for i, p := range plans[s] {
				val := int64(s+1)<<32 | int64(i+1)
				ctx, cancel := p.ctx.make()
				e := ev{Actor: actor, Val: val}
				if p.try {
					e.Op = "TrySend"
					e.Call = clock.Tick()
					ok, err := sender.TrySend(ctx, val)
					e.Ret = clock.Tick()
					e.Result = classifySendErr(err)
					if err == nil && !ok {
						e.Result = "full"
					}
					if err != nil && ok {
						e.Result = "other:true-with-error:" + err.Error()
					}
				} else {
					e.Op = "Send"
					e.Call = clock.Tick()
					err := sender.Send(ctx, val)
					e.Ret = clock.Tick()
					e.Result = classifySendErr(err)
				}
				cancel()
				lg.add(e)
				if e.Result == "closed-pipe" || e.Result == "close-err" {
					return // a real sender stops once the pipe is closed
				}
				pert.Do()
			}
		}()
	}
	go func() { sendersWG.Wait(); close(sendersDone) }()

	// closer
	{
		pert := vkit.NewPerturber(rnd.Split(), 17, 0.7)
		delaySteps := rnd.Intn(6)
		allWG.Add(1)
		go func() {
			defer allWG.Done()
			if closerMode == 0 {
				<-sendersDone
			} else {
				for i := 0; i < delaySteps; i++ {
					pert.Do()
				}
			}
			e := ev{Actor: "C", Op: "SClose"}
			var err error
			if closeWithErr {
				err = errClose
				e.Result = "close-err"
			} else {
				e.Result = "End"
			}
			e.Call = clock.Tick()
			sender.Close(err)
			e.Ret = clock.Tick()
			lg.add(e)
		}()
	}

	// receiver
	nextCtxLive := []float64{1, 0.85}[rnd.Intn(2)]
	var nextPlans []ctxPlan
	for i := 0; i < 400; i++ {
		nextPlans = append(nextPlans, drawCtx(rnd, nextCtxLive))
	}
	rpert := vkit.NewPerturber(rnd.Split(), 53, intensity)
	allWG.Add(1)
	go func() {
		defer allWG.Done()
		items := 0
		ended := 0
		for i := 0; ; i++ {
			if recvEarly >= 0 && items >= recvEarly {
				break
			}
			plan := ctxPlan{}
			if i < len(nextPlans) {
				plan = nextPlans[i]
			}
			ctx, cancel := plan.make()
			e := ev{Actor: "R", Op: "Next"}
			e.Call = clock.Tick()
			v, err := recv.Next(ctx)
			e.Ret = clock.Tick()
			cancel()
			switch {
			case err == nil:
				e.Result, e.Val = "item", v
				items++
			case err == stream.End:
				e.Result = "End"
			case err == errClose:
				e.Result = "close-err"
			case errors.Is(err, context.Canceled), errors.Is(err, context.DeadlineExceeded):
				e.Result = "ctx"
			default:
				e.Result = "other:" + err.Error()
			}
			lg.add(e)
			if e.Result == "End" || e.Result == "close-err" {
				ended++
				if ended == 1 {
					// "keeps being reported": only judged once no Send is in flight
					<-sendersDone
				}
				if ended >= 4 {
					break
				}
			}
			rpert.Do()
		}
		e := ev{Actor: "R", Op: "RClose", Result: "ok"}
		e.Call = clock.Tick()
		recv.Close()
		e.Ret = clock.Tick()
		lg.add(e)
	}()

	done := make(chan struct{})
	go func() { allWG.Wait(); close(done) }()
	verdict, dump := vkit.Await(done, vkit.AwaitOpts{Soft: 5 * time.Second, Gap: 300 * time.Millisecond, Hard: 90 * time.Second})
	lg.mu.Lock()
	es := append([]ev(nil), lg.es...)
	lg.mu.Unlock()
	sort.Slice(es, func(i, j int) bool { return es[i].Call < es[j].Call })
	params := map[string]any{"buffer": buffer, "senders": nSenders, "close_err": closeWithErr, "closer_mode": closerMode, "receiver_closes_after": recvEarly}
	switch verdict {
	case vkit.AwaitStuck:
		c.Violation("stuck", fmt.Sprintf("a Pipe call is blocked forever (buffer=%d senders=%d closerMode=%d recvEarly=%d): all goroutines parked", buffer, nSenders, closerMode, recvEarly),
			map[string]any{"params": params, "events": es, "goroutines": dump})
		return
	case vkit.AwaitInconclusive:
		r.Inconclusive(fmt.Sprintf("case %s: scenario did not finish within the hard limit but goroutines were still runnable", c.ID()))
		return
	}
	r.Eval(1)
	check(c, es, params, recvEarly < 0)
}

func check(c *vkit.Case, es []ev, params map[string]any, keepsReading bool) {
	r := c.R
	bad := func(sig, what string) {
		c.Violation(sig, what, map[string]any{"params": params, "events": es})
	}
	sent := make(map[int64]ev)       // value -> its Send/TrySend event
	received := make(map[int64]ev)   // value -> the Next that returned it
	lastSeq := make(map[int64]int64) // sender -> last received seq
	var sclose, rclose *ev
	var firstEnd *ev
	var lastSenderRet int64
	deliveredBy := make(map[int64]bool)
	for i := range es {
		e := &es[i]
		switch e.Op {
		case "Send", "TrySend":
			sent[e.Val] = *e
			if e.Ret > lastSenderRet {
				lastSenderRet = e.Ret
			}
			r.Count("results", e.Op+" "+strings.SplitN(e.Result, ":", 2)[0], 1)
		case "SClose":
			sclose = e
		case "RClose":
			rclose = e
		}
	}
	// receiver events are sequential: process in call order
	var sig strings.Builder
	byTick := append([]ev(nil), es...)
	sort.Slice(byTick, func(i, j int) bool { return byTick[i].Ret < byTick[j].Ret })
	for _, e := range byTick {
		fmt.Fprintf(&sig, "%s:%s:%s;", e.Actor, e.Op, strings.SplitN(e.Result, ":", 2)[0])
	}
	for i := range es {
		e := &es[i]
		if e.Op != "Next" {
			continue
		}
		r.Count("results", "Next "+strings.SplitN(e.Result, ":", 2)[0], 1)
		switch e.Result {
		case "item":
			s, ok := sent[e.Val]
			if !ok || s.Call > e.Ret {
				bad("phantom-value", fmt.Sprintf("receiver obtained value %#x that no Send had been called with", e.Val))
				return
			}
			if s.Result != "ok" {
				// A Send that returned an error (context, closed) reported that the value was NOT sent.
				bad("delivered-but-send-failed", fmt.Sprintf("value %#x was delivered although its %s returned %s", e.Val, s.Op, s.Result))
				return
			}
			if prev, dup := received[e.Val]; dup {
				bad("duplicate", fmt.Sprintf("value %#x received twice (Next calls at ticks %d and %d)", e.Val, prev.Call, e.Call))
				return
			}
			received[e.Val] = *e
			snd, seq := e.Val>>32, e.Val&0xffffffff
			if seq <= lastSeq[snd] {
				bad("fifo", fmt.Sprintf("values of sender %d received out of order: seq %d after seq %d", snd, seq, lastSeq[snd]))
				return
			}
			lastSeq[snd] = seq
			deliveredBy[snd] = true
			if firstEnd != nil && firstEnd.Call > lastSenderRet {
				// an item after the end although no Send was in flight when the end was reported
				bad("item-after-end", fmt.Sprintf("value %#x returned by Next (tick %d) after %s had been reported at tick %d with no Send in flight", e.Val, e.Call, firstEnd.Result, firstEnd.Ret))
				return
			}
		case "End", "close-err":
			if sclose == nil || sclose.Call > e.Ret {
				bad("end-without-close", fmt.Sprintf("Next reported %s although the sender had not been closed", e.Result))
				return
			}
			if sclose.Result != e.Result {
				bad("wrong-end", fmt.Sprintf("sender was closed with %s but Next reported %s", sclose.Result, e.Result))
				return
			}
			if firstEnd == nil {
				firstEnd = e
			}
		case "ctx":
			if firstEnd != nil && e.Call > lastSenderRet {
				// the context may legitimately win the select; not judged
			}
		default:
			bad("next-result", fmt.Sprintf("Next returned an unexpected error: %s", e.Result))
			return
		}
	}
	// legality of sender results
	for _, s := range sent {
		switch s.Result {
		case "closed-pipe":
			if rclose == nil || rclose.Call > s.Ret {
				bad("closed-pipe-without-close", fmt.Sprintf("%s of %#x returned ErrClosedPipe although the receiver had not closed", s.Op, s.Val))
				return
			}
		case "close-err":
			if sclose == nil || sclose.Call > s.Ret || sclose.Result != "close-err" {
				bad("close-err-without-close", fmt.Sprintf("%s of %#x returned the close error although Close(err) had not been called", s.Op, s.Val))
				return
			}
		case "ok", "full", "ctx":
		default:
			bad("send-result", fmt.Sprintf("%s of %#x returned an unexpected result: %s", s.Op, s.Val, s.Result))
			return
		}
	}
	// no loss: acked before Close was called, receiver keeps reading and was told the end
	if keepsReading && firstEnd != nil && sclose != nil {
		for v, s := range sent {
			if s.Result == "ok" && s.Ret < sclose.Call {
				rc, ok := received[v]
				if !ok || rc.Ret > firstEnd.Call && rc.Call > firstEnd.Call {
					bad("lost", fmt.Sprintf("value %#x: %s returned success at tick %d, before Close was called at tick %d, but the receiver was told %s at tick %d without having received it",
						v, s.Op, s.Ret, sclose.Call, firstEnd.Result, firstEnd.Ret))
					return
				}
				if rc.Ret > sclose.Call {
					r.Count("schedule", "value acked before Close, received after Close call", 1)
				}
			}
		}
	}
	r.Count("schedule", "histories", 1)
	h := fmt.Sprintf("%x", vkit.Hash64(sig.String()))
	if len(deliveredBy) >= 2 || (len(deliveredBy) >= 1 && sclose != nil) {
		r.Distinct(h)
	}
	if r.WantSample() && len(es) > 8 && len(es) < 40 {
		r.Sample(map[string]any{"params": params, "events": es})
	}
}

// sweep runs many trials of: fresh Pipe(buffer), a spinning sender goroutine performs
// Send(v) -> nil, then Close(nil|err); the receiver begins Next after a swept spin. Since Send
// returned nil strictly before Close was called, the receiver that keeps reading must obtain v
// before it is told the end / the close error, and the end must then stick.
func sweep(c *vkit.Case) {
	r := c.R
	if runtime.GOMAXPROCS(0) < 2 {
		r.Count("sweep", "skipped (GOMAXPROCS < 2)", 1)
		r.Count("sweep", "trials", 2500) // nothing to explore on one P; do not fail the floor
		return
	}
	type trial struct {
		sender *stream.PipeSender[int64]
		v      int64
		err    error
	}
	var slot atomic.Pointer[trial]
	var ack atomic.Int64
	var stop atomic.Bool
	exited := make(chan struct{})
	go func() {
		defer close(exited)
		runtime.LockOSThread()
		defer runtime.UnlockOSThread()
		for !stop.Load() {
			tr := slot.Swap(nil)
			if tr == nil {
				continue
			}
			if err := tr.sender.Send(context.Background(), tr.v); err != nil {
				// cannot happen: the buffer has room and nothing is closed yet
				stop.Store(true)
				ack.Store(-1)
				return
			}
			tr.sender.Close(tr.err)
			ack.Add(1)
		}
	}()
	defer func() { stop.Store(true); <-exited }()
	cancelled, cancel := context.WithCancel(context.Background())
	cancel()
	trials := 2500
	buffer := []int{1, 2, 8}[c.Index%3]
	ctxMode := c.Index / 3 % 2 // 1: the first Next calls use an already-cancelled context
	sink := 0
	for t := 0; t < trials; t++ {
		var cerr error
		if t%2 == 1 {
			cerr = errCloseSentinel
		}
		sender, recv := stream.Pipe[int64](buffer)
		v := int64(t + 1)
		// some items are already buffered when the racing Send+Close starts, so that the receiver is
		// in the middle of taking an item (not parked on an empty pipe) when they land
		pre := c.Index / 6 % 3
		if pre >= buffer {
			pre = buffer - 1
		}
		want := make([]int64, 0, 3)
		for i := 0; i < pre; i++ {
			pv := -int64(i + 1)
			if err := sender.Send(context.Background(), pv); err != nil {
				c.Violation("sweep-send", "phase sweep: Send into an empty buffered pipe returned an error", nil)
				return
			}
			want = append(want, pv)
		}
		want = append(want, v)
		nGot := 0
		slot.Store(&trial{sender: sender, v: v, err: cerr})
		for i := (t*7 + c.Index*31) % 389; i > 0; i-- {
			sink += i
		}
		got := false
		var seq []string
		for calls := 0; calls < 64; calls++ {
			ctx := context.Background()
			if ctxMode == 1 && calls < 3 {
				ctx = cancelled
			}
			item, err := recv.Next(ctx)
			switch {
			case err == nil:
				seq = append(seq, fmt.Sprintf("item(%d)", item))
				if nGot >= len(want) || item != want[nGot] {
					c.Violation("sweep-wrong-item", fmt.Sprintf("phase sweep (buffer %d): Next returned item %d, the values sent were %v in this order (results so far %v)", buffer, item, want, seq), nil)
					return
				}
				nGot++
				got = nGot == len(want)
				continue
			case ctx == cancelled && errors.Is(err, context.Canceled):
				seq = append(seq, "ctx")
				continue
			case err == stream.End && cerr == nil, err == cerr && cerr != nil:
				seq = append(seq, "end")
				if !got {
					for ack.Load() != int64(t+1) && ack.Load() >= 0 {
					}
					c.Violation("sweep-lost", fmt.Sprintf("phase sweep (buffer %d, close error %v): the receiver was told %v before it received value %d (%d value(s) were already buffered when that Send started), although Send had returned nil before Close was called (results %v)",
						buffer, cerr, err, v, pre, seq), map[string]any{"trial": t, "ctx_mode": ctxMode})
					return
				}
			default:
				c.Violation("sweep-result", fmt.Sprintf("phase sweep: Next returned unexpected error %v (results %v)", err, seq), nil)
				return
			}
			break
		}
		for ack.Load() != int64(t+1) {
			if ack.Load() < 0 {
				c.Violation("sweep-send", "phase sweep: Send into an empty buffered pipe returned an error", nil)
				return
			}
		}
		// the end sticks once no Send is in flight
		if _, err := recv.Next(context.Background()); err == nil {
			c.Violation("sweep-item-after-end", fmt.Sprintf("phase sweep: Next returned an item after the end had been reported (results %v)", seq), nil)
			return
		}
		recv.Close()
		r.Eval(1)
	}
	_ = sink
	r.Count("sweep", "trials", trials)
	r.Count("sweep", fmt.Sprintf("buffer %d ctxMode %d", buffer, ctxMode), trials)
}

// crowd: n senders (more than the buffer has slots) are released by a barrier on Pipe(buffer);
// some have an already-cancelled context. Phase 1: the receiver is idle and nothing is closed:
// every dead-context Send must return by itself (its context has expired). Phase 2: the receiver
// reads a little and closes: every remaining Send must return. "Never returns" is decided by the
// goroutine dump.
func crowd(c *vkit.Case) {
	r := c.R
	rnd := c.Rand
	buffer := []int{1, 2, 8, 8, 16, 32}[rnd.Intn(6)]
	n := buffer + rnd.Range(1, 12)
	nDead := rnd.Intn(4)
	if nDead > n {
		nDead = n
	}
	sender, recv := stream.Pipe[int64](buffer)
	var gate sync.WaitGroup
	gate.Add(1)
	var deadWG, allWG sync.WaitGroup
	var bad atomic.Value
	dead, cancel := context.WithCancel(context.Background())
	cancel()
	for i := 0; i < n; i++ {
		i := i
		isDead := i < nDead
		spin := rnd.Intn(200)
		allWG.Add(1)
		if isDead {
			deadWG.Add(1)
		}
		go func() {
			defer allWG.Done()
			if isDead {
				defer deadWG.Done()
			}
			gate.Wait()
			sink := 0
			for k := 0; k < spin; k++ {
				sink += k
			}
			_ = sink
			ctx := context.Background()
			if isDead {
				ctx = dead
			}
			err := sender.Send(ctx, int64(i+1))
			switch {
			case err == nil:
			case errors.Is(err, stream.ErrClosedPipe):
			case isDead && errors.Is(err, context.Canceled):
			default:
				bad.Store(fmt.Sprintf("Send returned unexpected error %v (dead context: %v)", err, isDead))
			}
		}()
	}
	gate.Done()
	params := map[string]any{"buffer": buffer, "senders": n, "dead_ctx_senders": nDead}
	// phase 1: dead-context senders return on their own
	deadDone := make(chan struct{})
	go func() { deadWG.Wait(); close(deadDone) }()
	if v, dump := vkit.Await(deadDone, vkit.AwaitOpts{Soft: 2 * time.Second, Gap: 200 * time.Millisecond, Hard: 60 * time.Second}); v == vkit.AwaitStuck {
		c.Violation("send-ignores-expired-ctx", fmt.Sprintf("crowd: %d senders on Pipe(%d), receiver idle, nothing closed: a Send whose context was already cancelled never returned", n, buffer),
			map[string]any{"params": params, "goroutines": dump})
		recv.Close()
		sender.Close(nil)
		return
	} else if v == vkit.AwaitInconclusive {
		r.Inconclusive("crowd: dead-context senders neither returned nor provably parked")
	}
	// phase 2: the receiver reads a little, then closes
	reads := rnd.Intn(3)
	for k := 0; k < reads; k++ {
		ctx, cancel := context.WithTimeout(context.Background(), time.Millisecond)
		_, _ = recv.Next(ctx)
		cancel()
	}
	recv.Close()
	allDone := make(chan struct{})
	go func() { allWG.Wait(); close(allDone) }()
	if v, dump := vkit.Await(allDone, vkit.AwaitOpts{Soft: 2 * time.Second, Gap: 200 * time.Millisecond, Hard: 60 * time.Second}); v == vkit.AwaitStuck {
		c.Violation("send-stuck-after-receiver-close", fmt.Sprintf("crowd: %d senders released together on Pipe(%d); after the receiver closed, a Send is still blocked forever", n, buffer),
			map[string]any{"params": params, "goroutines": dump})
		sender.Close(nil)
		return
	} else if v == vkit.AwaitInconclusive {
		r.Inconclusive("crowd: senders neither returned nor provably parked after the receiver closed")
	}
	sender.Close(nil)
	if b := bad.Load(); b != nil {
		c.Violation("send-result", "crowd: "+b.(string), params)
	}
	r.Eval(1)
	r.Count("crowd", "rounds", 1)
	r.Count("crowd", fmt.Sprintf("buffer %d", buffer), 1)
}

// parkedNext: a Next is parked on an empty pipe; then (in some modes) ANOTHER goroutine closes the
// receiver; then the sender is closed. "After sender.Close(e) a blocked Next returns" holds in every
// mode; what it returns is judged only when nobody closed the receiver under it.
func parkedNext(c *vkit.Case) {
	r := c.R
	rnd := c.Rand
	buffer := []int{0, 1, 8}[rnd.Intn(3)]
	mode := c.Index % 4
	sender, recv := stream.Pipe[int64](buffer)
	var err error
	nextDone := make(chan struct{})
	go func() {
		defer close(nextDone)
		_, err = recv.Next(context.Background())
	}()
	// wait for the Next to be parked in its select
	parked := false
	for t0 := time.Now(); time.Since(t0) < 30*time.Second && !parked; {
		for _, g := range vkit.Goroutines() {
			if g.In("main.parkedNext") && g.Has("pipeStream") && g.State == "select" {
				parked = true
			}
		}
		if !parked {
			time.Sleep(50 * time.Microsecond)
		}
	}
	if !parked {
		r.Inconclusive("parked-next: the Next call was not seen parked")
		sender.Close(nil)
		return
	}
	var cerr error
	if mode >= 2 {
		cerr = errCloseSentinel
	}
	if mode%2 == 1 {
		rc := make(chan struct{})
		go func() { recv.Close(); close(rc) }()
		<-rc
	}
	sender.Close(cerr)
	v, dump := vkit.Await(nextDone, vkit.AwaitOpts{Soft: 2 * time.Second, Gap: 200 * time.Millisecond, Hard: 60 * time.Second})
	r.Eval(1)
	r.Count("parked-next", "rounds", 1)
	what := fmt.Sprintf("parked-next (buffer %d): a Next was parked on the empty pipe; receiver closed by another goroutine first: %v; then sender.Close(%v)", buffer, mode%2 == 1, cerr)
	switch v {
	case vkit.AwaitStuck:
		c.Violation("next-stuck-after-sender-close", what+": the parked Next never returned", map[string]any{"goroutines": dump})
	case vkit.AwaitInconclusive:
		r.Inconclusive("parked-next: Next neither returned nor provably parked")
	default:
		if mode%2 == 0 {
			if (cerr == nil && err != stream.End) || (cerr != nil && err != cerr) {
				c.Violation("wrong-end", fmt.Sprintf("%s: Next returned %v", what, err), nil)
			}
		}
	}
}

// valCtx is a valid context.Context passed BY VALUE whose dynamic type is not comparable (it has
// a slice field): comparing two such interface values with == panics at run time.
type valCtx struct {
	context.Context
	tags []string
}

// exotic: (a) calls made with contexts of a non-comparable by-value type, several in a row with
// values waiting in the buffer; (b) End / the close error sticks over repeated calls. (Sends issued
// AFTER the sender's own Close are outside the statement — "with no Send in flight since" — and on
// the pinned tree a late Send into a buffer with room is accepted about half of the time.)
func exotic(c *vkit.Case) {
	r := c.R
	rnd := c.Rand
	buffer := []int{1, 2, 8}[rnd.Intn(3)]
	sender, recv := stream.Pipe[int64](buffer)
	mk := func() context.Context { return valCtx{context.Background(), []string{"request-scoped"}} }
	var cerr error
	if rnd.Bool(0.5) {
		cerr = errClose
	}
	n := rnd.Range(1, buffer)
	p := vkit.Try(func() {
		for i := 0; i < n; i++ {
			if ok, err := sender.TrySend(mk(), int64(i+1)); !ok || err != nil {
				c.Violation("exotic-send", fmt.Sprintf("exotic: TrySend into a pipe with room returned (%v, %v)", ok, err), nil)
				return
			}
		}
		for i := 0; i < n; i++ {
			v, err := recv.Next(mk())
			if err != nil || v != int64(i+1) {
				c.Violation("exotic-next", fmt.Sprintf("exotic: Next no. %d with a by-value context returned (%d, %v), want (%d, nil)", i, v, err, i+1), nil)
				return
			}
		}
		sender.Close(cerr)
		wantEnd := func(when string) bool {
			v, err := recv.Next(mk())
			if (cerr == nil && err != stream.End) || (cerr != nil && err != cerr) {
				c.Violation("end-not-sticky", fmt.Sprintf("exotic: %s Next returned (%d, %v); the sender was closed with %v and nothing was in flight", when, v, err, cerr), nil)
				return false
			}
			return true
		}
		if !wantEnd("after Close,") {
			return
		}
		for k := 0; k < 3; k++ {
			if !wantEnd("a later") {
				return
			}
		}
	})
	if p != nil {
		c.Violation("exotic-panic", fmt.Sprintf("exotic: a Pipe call given a valid by-value context (non-comparable dynamic type) panicked: %v", p.Value), map[string]any{"stack": p.Stack})
	}
	recv.Close()
	r.Eval(1)
	r.Count("exotic", "rounds", 1)
}
